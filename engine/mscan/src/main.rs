// mscan: rustc_private fact extractor. No property logic lives here: it only
// serialises the resolved program (MIR with resolved callees, ADTs, impls,
// constants) as one JSON file per analysed crate, written once per process.
#![feature(rustc_private)]

extern crate rustc_abi;
extern crate rustc_driver;
extern crate rustc_hir;
extern crate rustc_interface;
extern crate rustc_middle;
extern crate rustc_span;

use rustc_driver::{Callbacks, Compilation};
use rustc_hir::def::DefKind;
use rustc_hir::def_id::{DefId, LocalDefId, LOCAL_CRATE};
use rustc_middle::mir::{self, Body};
use rustc_middle::ty::print::{with_no_trimmed_paths, with_no_visible_paths, with_resolve_crate_name};
use rustc_middle::ty::{self, Instance, Ty, TyCtxt, TypingEnv};
use rustc_span::{ExpnKind, Span};
use std::fmt::Write as _;

fn esc(s: &str, out: &mut String) {
    out.push('"');
    for c in s.chars() {
        match c {
            '"' => out.push_str("\\\""),
            '\\' => out.push_str("\\\\"),
            '\n' => out.push_str("\\n"),
            '\r' => out.push_str("\\r"),
            '\t' => out.push_str("\\t"),
            c if (c as u32) < 0x20 => {
                let _ = write!(out, "\\u{:04x}", c as u32);
            }
            c => out.push(c),
        }
    }
    out.push('"');
}

fn q(s: &str) -> String {
    let mut o = String::new();
    esc(s, &mut o);
    o
}

struct Cx<'tcx> {
    tcx: TyCtxt<'tcx>,
}

impl<'tcx> Cx<'tcx> {
    fn path(&self, d: DefId) -> String {
        with_no_trimmed_paths!(self.tcx.def_path_str(d))
    }
    fn ty(&self, t: Ty<'tcx>) -> String {
        with_no_trimmed_paths!(format!("{}", t))
    }
    fn span(&self, sp: Span) -> String {
        let sm = self.tcx.sess.source_map();
        // use the call-site in user code for macro-generated spans
        let lo = sm.lookup_char_pos(sp.lo());
        let name = match &lo.file.name {
            rustc_span::FileName::Real(r) => match r.local_path() {
                Some(p) => p.to_string_lossy().to_string(),
                None => format!("{:?}", r),
            },
            other => format!("{:?}", other),
        };
        format!("{}:{}:{}", name, lo.line, lo.col.0 + 1)
    }
    fn macros(&self, sp: Span) -> String {
        let mut v: Vec<String> = Vec::new();
        for e in sp.macro_backtrace() {
            match e.kind {
                ExpnKind::Macro(_, name) => v.push(name.to_string()),
                ExpnKind::Desugaring(d) => v.push(format!("desugar:{:?}", d)),
                ExpnKind::AstPass(_) => v.push("astpass".into()),
                ExpnKind::Root => {}
            }
        }
        let mut o = String::from("[");
        for (i, m) in v.iter().enumerate() {
            if i > 0 {
                o.push(',');
            }
            esc(m, &mut o);
        }
        o.push(']');
        o
    }
    /// span info: "sp": "...", "mc":[...], and "us" = outermost user call site
    fn spaninfo(&self, sp: Span) -> String {
        let mut o = format!("\"sp\":{}", q(&self.span(sp)));
        if sp.from_expansion() {
            let _ = write!(o, ",\"mc\":{}", self.macros(sp));
            let cs = sp.source_callsite();
            let _ = write!(o, ",\"us\":{}", q(&self.span(cs)));
        }
        o
    }

    fn place(&self, body: &Body<'tcx>, p: &mir::Place<'tcx>) -> String {
        let mut o = format!("{{\"l\":{}", p.local.as_usize());
        if !p.projection.is_empty() {
            o.push_str(",\"p\":[");
            let mut pty = mir::PlaceTy::from_ty(body.local_decls[p.local].ty);
            for (i, e) in p.projection.iter().enumerate() {
                if i > 0 {
                    o.push(',');
                }
                match e {
                    mir::ProjectionElem::Deref => o.push_str("[\"deref\"]"),
                    mir::ProjectionElem::Field(f, t) => {
                        // field name if ADT
                        let mut fname = f.as_usize().to_string();
                        if let ty::Adt(adt, _) = pty.ty.kind() {
                            let vi = pty.variant_index.unwrap_or(rustc_abi::FIRST_VARIANT);
                            if adt.is_enum() || adt.is_struct() {
                                if let Some(v) = adt.variants().get(vi) {
                                    if let Some(fd) = v.fields.get(f) {
                                        fname = fd.name.to_string();
                                    }
                                }
                            }
                        }
                        let _ = write!(
                            o,
                            "[\"field\",{},{},{}]",
                            f.as_usize(),
                            q(&fname),
                            q(&self.ty(t))
                        );
                    }
                    mir::ProjectionElem::Downcast(name, vi) => {
                        let n = name.map(|s| s.to_string()).unwrap_or_default();
                        let _ = write!(o, "[\"downcast\",{},{}]", q(&n), vi.as_usize());
                    }
                    mir::ProjectionElem::Index(l) => {
                        let _ = write!(o, "[\"index\",{}]", l.as_usize());
                    }
                    mir::ProjectionElem::ConstantIndex { offset, min_length, from_end } => {
                        let _ = write!(o, "[\"cidx\",{},{},{}]", offset, min_length, from_end);
                    }
                    mir::ProjectionElem::Subslice { from, to, from_end } => {
                        let _ = write!(o, "[\"subslice\",{},{},{}]", from, to, from_end);
                    }
                    _ => o.push_str("[\"other\"]"),
                }
                pty = pty.projection_ty(self.tcx, e);
            }
            o.push(']');
        }
        o.push('}');
        o
    }

    fn constant(&self, owner: DefId, c: &mir::ConstOperand<'tcx>) -> String {
        let ty = c.const_.ty();
        let mut o = format!("{{\"ty\":{}", q(&self.ty(ty)));
        match ty.kind() {
            ty::FnDef(d, args) => {
                let _ = write!(o, ",\"fn\":{}", q(&self.path(*d)));
                let _ = write!(o, ",\"local\":{}", d.is_local());
                let _ = write!(o, ",\"ga\":[");
                for (i, a) in args.iter().enumerate() {
                    if i > 0 {
                        o.push(',');
                    }
                    let s = with_no_trimmed_paths!(format!("{}", a));
                    esc(&s, &mut o);
                }
                o.push(']');
            }
            _ => {
                // try to evaluate scalar / str
                let env = TypingEnv::post_analysis(self.tcx, owner);
                let mut done = false;
                if let mir::Const::Unevaluated(uv, _) = c.const_ {
                    if uv.promoted.is_some() {
                        let _ = write!(
                            o,
                            ",\"promoted\":{}",
                            uv.promoted.unwrap().as_usize()
                        );
                        done = true;
                    } else {
                        let _ = write!(o, ",\"named\":{}", q(&self.path(uv.def)));
                    }
                }
                if let mir::Const::Val(mir::ConstValue::Scalar(rustc_middle::mir::interpret::Scalar::Ptr(ptr, _)), _) = c.const_ {
                    let (prov, _off) = ptr.into_raw_parts();
                    if let Some(rustc_middle::mir::interpret::GlobalAlloc::Static(did)) =
                        self.tcx.try_get_global_alloc(prov.alloc_id())
                    {
                        let _ = write!(o, ",\"static\":{}", q(&self.path(did)));
                    }
                }
                if !done {
                    if ty.is_integral() || ty.is_bool() || ty.is_char() {
                        if let Some(si) = c.const_.try_eval_scalar_int(self.tcx, env) {
                            let size = si.size();
                            if ty.is_signed() {
                                let _ = write!(o, ",\"int\":\"{}\"", si.to_int(size));
                            } else {
                                let _ = write!(o, ",\"int\":\"{}\"", si.to_uint(size));
                            }
                        }
                    } else if ty.is_floating_point() {
                        let _ = write!(o, ",\"txt\":{}", q(&format!("{}", c.const_)));
                    } else if let ty::Ref(_, inner, _) = ty.kind() {
                        if inner.is_str() {
                            if let mir::Const::Val(v, _) = c.const_ {
                                if let Some(bytes) = v.try_get_slice_bytes_for_diagnostics(self.tcx)
                                {
                                    let s = String::from_utf8_lossy(bytes).to_string();
                                    let _ = write!(o, ",\"str\":{}", q(&s));
                                }
                            } else if let Ok(v) = c.const_.eval(self.tcx, env, c.span) {
                                if let Some(bytes) = v.try_get_slice_bytes_for_diagnostics(self.tcx)
                                {
                                    let s = String::from_utf8_lossy(bytes).to_string();
                                    let _ = write!(o, ",\"str\":{}", q(&s));
                                }
                            }
                        } else {
                            let _ = write!(
                                o,
                                ",\"txt\":{}",
                                q(&with_no_trimmed_paths!(format!("{}", c.const_)))
                            );
                        }
                    } else {
                        let _ = write!(
                            o,
                            ",\"txt\":{}",
                            q(&with_no_trimmed_paths!(format!("{}", c.const_)))
                        );
                    }
                }
            }
        }
        o.push('}');
        o
    }

    fn operand(&self, owner: DefId, body: &Body<'tcx>, op: &mir::Operand<'tcx>) -> String {
        match op {
            mir::Operand::Copy(p) => format!("{{\"copy\":{}}}", self.place(body, p)),
            mir::Operand::Move(p) => format!("{{\"move\":{}}}", self.place(body, p)),
            mir::Operand::Constant(c) => format!("{{\"const\":{}}}", self.constant(owner, c)),
            _ => "{\"rtcheck\":true}".to_string(),
        }
    }

    fn rvalue(&self, owner: DefId, body: &Body<'tcx>, rv: &mir::Rvalue<'tcx>) -> String {
        use mir::Rvalue::*;
        match rv {
            Use(op, ..) => format!("{{\"use\":{}}}", self.operand(owner, body, op)),
            Repeat(op, _) => format!("{{\"repeat\":{}}}", self.operand(owner, body, op)),
            Ref(_, bk, p) => format!(
                "{{\"ref\":{},\"mut\":{}}}",
                self.place(body, p),
                matches!(bk, mir::BorrowKind::Mut { .. })
            ),
            RawPtr(_, p) => format!("{{\"rawptr\":{}}}", self.place(body, p)),
            Cast(kind, op, to) => {
                let from = op.ty(&body.local_decls, self.tcx);
                format!(
                    "{{\"cast\":{},\"op\":{},\"from\":{},\"to\":{}}}",
                    q(&format!("{:?}", kind)),
                    self.operand(owner, body, op),
                    q(&self.ty(from)),
                    q(&self.ty(*to))
                )
            }
            BinaryOp(bop, ops) => format!(
                "{{\"bin\":{},\"l\":{},\"r\":{},\"lty\":{}}}",
                q(&format!("{:?}", bop)),
                self.operand(owner, body, &ops.0),
                self.operand(owner, body, &ops.1),
                q(&self.ty(ops.0.ty(&body.local_decls, self.tcx)))
            ),
            UnaryOp(uop, op) => format!(
                "{{\"un\":{},\"op\":{},\"oty\":{}}}",
                q(&format!("{:?}", uop)),
                self.operand(owner, body, op),
                q(&self.ty(op.ty(&body.local_decls, self.tcx)))
            ),
            Discriminant(p) => format!("{{\"discr\":{}}}", self.place(body, p)),
            Aggregate(kind, ops) => {
                let mut o = String::from("{\"agg\":");
                match &**kind {
                    mir::AggregateKind::Array(t) => {
                        let _ = write!(o, "{{\"k\":\"array\",\"ty\":{}}}", q(&self.ty(*t)));
                    }
                    mir::AggregateKind::Tuple => o.push_str("{\"k\":\"tuple\"}"),
                    mir::AggregateKind::Adt(d, vi, _, _, _) => {
                        let adt = self.tcx.adt_def(*d);
                        let vname = adt.variant(*vi).name.to_string();
                        let _ = write!(
                            o,
                            "{{\"k\":\"adt\",\"adt\":{},\"v\":{},\"vi\":{}}}",
                            q(&self.path(*d)),
                            q(&vname),
                            vi.as_usize()
                        );
                    }
                    mir::AggregateKind::Closure(d, _) => {
                        let _ = write!(o, "{{\"k\":\"closure\",\"def\":{}}}", q(&self.path(*d)));
                    }
                    mir::AggregateKind::Coroutine(d, _)
                    | mir::AggregateKind::CoroutineClosure(d, _) => {
                        let _ = write!(o, "{{\"k\":\"coroutine\",\"def\":{}}}", q(&self.path(*d)));
                    }
                    mir::AggregateKind::RawPtr(..) => o.push_str("{\"k\":\"rawptr\"}"),
                }
                o.push_str(",\"ops\":[");
                for (i, op) in ops.iter().enumerate() {
                    if i > 0 {
                        o.push(',');
                    }
                    o.push_str(&self.operand(owner, body, op));
                }
                o.push_str("]}");
                o
            }
            CopyForDeref(p) => format!("{{\"use\":{{\"copy\":{}}}}}", self.place(body, p)),
            ThreadLocalRef(d) => format!("{{\"tls\":{}}}", q(&self.path(*d))),
            other => format!("{{\"other\":{}}}", q(&format!("{:?}", other))),
        }
    }

    fn body(&self, owner: DefId, body: &Body<'tcx>, o: &mut String) {
        let tcx = self.tcx;
        let _ = write!(o, "\"argc\":{},\"locals\":[", body.arg_count);
        for (i, d) in body.local_decls.iter().enumerate() {
            if i > 0 {
                o.push(',');
            }
            esc(&self.ty(d.ty), o);
        }
        o.push_str("],\"names\":{");
        let mut first = true;
        for vdi in &body.var_debug_info {
            if let mir::VarDebugInfoContents::Place(p) = &vdi.value {
                if p.projection.is_empty() {
                    if !first {
                        o.push(',');
                    }
                    first = false;
                    let _ = write!(o, "\"{}\":{}", p.local.as_usize(), q(vdi.name.as_str()));
                }
            }
        }
        o.push_str("},\"upvars\":{");
        // closure captured variables: debug-info names whose place is a projection of _1
        let mut first = true;
        for vdi in &body.var_debug_info {
            if let mir::VarDebugInfoContents::Place(p) = &vdi.value {
                if !p.projection.is_empty() && p.local.as_usize() == 1 {
                    // find first field projection
                    for e in p.projection.iter() {
                        if let mir::ProjectionElem::Field(f, _) = e {
                            if !first {
                                o.push(',');
                            }
                            first = false;
                            let _ = write!(o, "\"{}\":{}", f.as_usize(), q(vdi.name.as_str()));
                            break;
                        }
                    }
                }
            }
        }
        o.push_str("},\"blocks\":[");
        let env = TypingEnv::post_analysis(tcx, owner);
        for (bi, bb) in body.basic_blocks.iter().enumerate() {
            if bi > 0 {
                o.push(',');
            }
            o.push_str("{\"s\":[");
            let mut firsts = true;
            for st in &bb.statements {
                let s = match &st.kind {
                    mir::StatementKind::Assign(b) => {
                        let (p, rv) = &**b;
                        Some(format!(
                            "{{\"d\":{},\"rv\":{},{}}}",
                            self.place(body, p),
                            self.rvalue(owner, body, rv),
                            self.spaninfo(st.source_info.span)
                        ))
                    }
                    mir::StatementKind::SetDiscriminant { place, variant_index } => Some(format!(
                        "{{\"setdiscr\":{},\"vi\":{},{}}}",
                        self.place(body, place),
                        variant_index.as_usize(),
                        self.spaninfo(st.source_info.span)
                    )),
                    _ => None,
                };
                if let Some(s) = s {
                    if !firsts {
                        o.push(',');
                    }
                    firsts = false;
                    o.push_str(&s);
                }
            }
            o.push_str("],\"t\":");
            let term = bb.terminator();
            let sp = self.spaninfo(term.source_info.span);
            use mir::TerminatorKind::*;
            match &term.kind {
                Goto { target } => {
                    let _ = write!(o, "{{\"k\":\"goto\",\"target\":{},{}}}", target.as_usize(), sp);
                }
                SwitchInt { discr, targets } => {
                    let _ = write!(
                        o,
                        "{{\"k\":\"switch\",\"discr\":{},\"dty\":{},\"targets\":[",
                        self.operand(owner, body, discr),
                        q(&self.ty(discr.ty(&body.local_decls, tcx)))
                    );
                    for (i, (v, t)) in targets.iter().enumerate() {
                        if i > 0 {
                            o.push(',');
                        }
                        let _ = write!(o, "[\"{}\",{}]", v, t.as_usize());
                    }
                    let _ = write!(o, "],\"otherwise\":{},{}}}", targets.otherwise().as_usize(), sp);
                }
                Return => {
                    let _ = write!(o, "{{\"k\":\"return\",{}}}", sp);
                }
                Unreachable => {
                    let _ = write!(o, "{{\"k\":\"unreachable\",{}}}", sp);
                }
                UnwindResume | UnwindTerminate(_) => {
                    let _ = write!(o, "{{\"k\":\"resume\",{}}}", sp);
                }
                Drop { place, target, .. } => {
                    let _ = write!(
                        o,
                        "{{\"k\":\"drop\",\"place\":{},\"target\":{},{}}}",
                        self.place(body, place),
                        target.as_usize(),
                        sp
                    );
                }
                Call { func, args, destination, target, fn_span, .. } => {
                    let _ = write!(o, "{{\"k\":\"call\",\"func\":");
                    let fty = func.ty(&body.local_decls, tcx);
                    match fty.kind() {
                        ty::FnDef(d, ga) => {
                            let _ = write!(o, "{{\"def\":{},\"local\":{}", q(&self.path(*d)), d.is_local());
                            o.push_str(",\"ga\":[");
                            for (i, a) in ga.iter().enumerate() {
                                if i > 0 {
                                    o.push(',');
                                }
                                let s = with_no_trimmed_paths!(format!("{}", a));
                                esc(&s, o);
                            }
                            o.push(']');
                            // resolve
                            let has_params = ga.iter().any(|a| {
                                use rustc_middle::ty::TypeVisitableExt;
                                a.has_escaping_bound_vars()
                            });
                            if !has_params {
                                if let Ok(Some(inst)) = Instance::try_resolve(tcx, env, *d, ga) {
                                    let rd = inst.def_id();
                                    let kind = match inst.def {
                                        ty::InstanceKind::Item(_) => "item",
                                        ty::InstanceKind::Virtual(..) => "virtual",
                                        ty::InstanceKind::Intrinsic(_) => "intrinsic",
                                        ty::InstanceKind::ClosureOnceShim { .. } => "closure_once",
                                        ty::InstanceKind::FnPtrShim(..) => "fnptr_shim",
                                        ty::InstanceKind::CloneShim(..) => "clone_shim",
                                        ty::InstanceKind::DropGlue(..) => "drop_glue",
                                        _ => "shim",
                                    };
                                    let _ = write!(
                                        o,
                                        ",\"res\":{},\"res_local\":{},\"res_kind\":{}",
                                        q(&self.path(rd)),
                                        rd.is_local(),
                                        q(kind)
                                    );
                                }
                            }
                            // trait of the (unresolved) callee, if it is a trait method
                            if let Some(tr) = tcx.trait_of_assoc(*d) {
                                let _ = write!(o, ",\"trait\":{}", q(&self.path(tr)));
                            }
                            o.push('}');
                        }
                        _ => {
                            let _ = write!(
                                o,
                                "{{\"ptr\":{},\"pty\":{}}}",
                                self.operand(owner, body, func),
                                q(&self.ty(fty))
                            );
                        }
                    }
                    o.push_str(",\"args\":[");
                    for (i, a) in args.iter().enumerate() {
                        if i > 0 {
                            o.push(',');
                        }
                        o.push_str(&self.operand(owner, body, &a.node));
                    }
                    let _ = write!(o, "],\"dst\":{}", self.place(body, destination));
                    match target {
                        Some(t) => {
                            let _ = write!(o, ",\"target\":{}", t.as_usize());
                        }
                        None => o.push_str(",\"target\":null"),
                    }
                    let _ = write!(o, ",\"fsp\":{},{}}}", q(&self.span(*fn_span)), sp);
                }
                TailCall { .. } => {
                    let _ = write!(o, "{{\"k\":\"tailcall\",{}}}", sp);
                }
                Assert { cond, expected, msg, target, .. } => {
                    let m = match &**msg {
                        mir::AssertKind::BoundsCheck { .. } => "BoundsCheck".to_string(),
                        mir::AssertKind::Overflow(op, ..) => format!("Overflow({:?})", op),
                        mir::AssertKind::OverflowNeg(_) => "OverflowNeg".to_string(),
                        mir::AssertKind::DivisionByZero(_) => "DivisionByZero".to_string(),
                        mir::AssertKind::RemainderByZero(_) => "RemainderByZero".to_string(),
                        mir::AssertKind::MisalignedPointerDereference { .. } => "MisalignedPointerDereference".to_string(),
                        mir::AssertKind::NullPointerDereference => "NullPointerDereference".to_string(),
                        other => format!("{:?}", std::mem::discriminant(other)),
                    };
                    // operands of the assert message (tainted operands are read from these)
                    let mut mops = String::from("[");
                    let push = |x: &mir::Operand<'tcx>, mops: &mut String| {
                        if mops.len() > 1 {
                            mops.push(',');
                        }
                        mops.push_str(&self.operand(owner, body, x));
                    };
                    match &**msg {
                        mir::AssertKind::BoundsCheck { len, index } => {
                            push(len, &mut mops);
                            push(index, &mut mops);
                        }
                        mir::AssertKind::Overflow(_, a, b) => {
                            push(a, &mut mops);
                            push(b, &mut mops);
                        }
                        mir::AssertKind::OverflowNeg(a)
                        | mir::AssertKind::DivisionByZero(a)
                        | mir::AssertKind::RemainderByZero(a) => push(a, &mut mops),
                        _ => {}
                    }
                    mops.push(']');
                    let _ = write!(
                        o,
                        "{{\"k\":\"assert\",\"cond\":{},\"expected\":{},\"msg\":{},\"mops\":{},\"target\":{},{}}}",
                        self.operand(owner, body, cond),
                        expected,
                        q(&m),
                        mops,
                        target.as_usize(),
                        sp
                    );
                }
                FalseEdge { real_target, .. } => {
                    let _ = write!(o, "{{\"k\":\"goto\",\"target\":{},{}}}", real_target.as_usize(), sp);
                }
                FalseUnwind { real_target, .. } => {
                    let _ = write!(o, "{{\"k\":\"goto\",\"target\":{},{}}}", real_target.as_usize(), sp);
                }
                other => {
                    let _ = write!(
                        o,
                        "{{\"k\":\"other\",\"txt\":{},{}}}",
                        q(&format!("{:?}", std::mem::discriminant(other))),
                        sp
                    );
                }
            }
            let _ = write!(o, ",\"cleanup\":{}}}", bb.is_cleanup);
        }
        o.push(']');
    }

    fn fn_header(&self, ld: LocalDefId, o: &mut String) {
        let tcx = self.tcx;
        let d = ld.to_def_id();
        let kind = tcx.def_kind(d);
        let _ = write!(
            o,
            "\"path\":{},\"kind\":{},\"span\":{}",
            q(&self.path(d)),
            q(&format!("{:?}", kind)),
            q(&self.span(tcx.def_span(d)))
        );
        let _ = write!(o, ",\"name\":{}", q(&tcx.opt_item_name(d).map(|s| s.to_string()).unwrap_or_default()));
        if matches!(kind, DefKind::Closure) {
            let parent = tcx.typeck_root_def_id(d);
            let _ = write!(o, ",\"parent\":{}", q(&self.path(parent)));
        }
        if matches!(kind, DefKind::AssocFn | DefKind::AssocConst { .. }) {
            if let Some(impl_id) = tcx.impl_of_assoc(d) {
                let self_ty = tcx.type_of(impl_id).instantiate_identity().skip_norm_wip();
                let _ = write!(o, ",\"impl_self\":{}", q(&self.ty(self_ty)));
                if let Some(tr) = tcx.impl_opt_trait_ref(impl_id) {
                    let tr = tr.instantiate_identity().skip_norm_wip();
                    let _ = write!(o, ",\"impl_trait\":{}", q(&self.path(tr.def_id)));
                    let _ = write!(
                        o,
                        ",\"impl_trait_full\":{}",
                        q(&with_no_trimmed_paths!(format!("{}", tr)))
                    );
                }
            }
        }
        if matches!(kind, DefKind::Fn | DefKind::AssocFn) {
            let sig = tcx.fn_sig(d).instantiate_identity().skip_norm_wip().skip_binder();
            o.push_str(",\"inputs\":[");
            for (i, t) in sig.inputs().iter().enumerate() {
                if i > 0 {
                    o.push(',');
                }
                esc(&self.ty(*t), o);
            }
            let _ = write!(o, "],\"output\":{}", q(&self.ty(sig.output())));
            let vis = tcx.visibility(d);
            let _ = write!(o, ",\"public\":{}", vis.is_public());
        }
    }

    fn adts(&self, o: &mut String) {
        let tcx = self.tcx;
        o.push_str("\"adts\":[");
        let mut first = true;
        for ld in tcx.hir_crate_items(()).definitions() {
            let d = ld.to_def_id();
            let kind = tcx.def_kind(d);
            if !matches!(kind, DefKind::Struct | DefKind::Enum | DefKind::Union) {
                continue;
            }
            let adt = tcx.adt_def(d);
            if !first {
                o.push(',');
            }
            first = false;
            let _ = write!(
                o,
                "{{\"path\":{},\"kind\":{},\"span\":{},\"variants\":[",
                q(&self.path(d)),
                q(&format!("{:?}", kind)),
                q(&self.span(tcx.def_span(d)))
            );
            for (vi, v) in adt.variants().iter().enumerate() {
                if vi > 0 {
                    o.push(',');
                }
                let _ = write!(o, "{{\"name\":{},\"fields\":[", q(v.name.as_str()));
                for (fi, f) in v.fields.iter().enumerate() {
                    if fi > 0 {
                        o.push(',');
                    }
                    let fty = tcx.type_of(f.did).instantiate_identity().skip_norm_wip();
                    let _ = write!(
                        o,
                        "{{\"name\":{},\"ty\":{}}}",
                        q(f.name.as_str()),
                        q(&self.ty(fty))
                    );
                }
                o.push_str("]}");
            }
            o.push_str("]}");
        }
        o.push_str("],\"impls\":[");
        let mut first = true;
        for ld in tcx.hir_crate_items(()).definitions() {
            let d = ld.to_def_id();
            if let DefKind::Impl { of_trait } = tcx.def_kind(d) {
                if !first {
                    o.push(',');
                }
                first = false;
                let self_ty = tcx.type_of(d).instantiate_identity().skip_norm_wip();
                let _ = write!(o, "{{\"self\":{}", q(&self.ty(self_ty)));
                if of_trait {
                    if let Some(tr) = tcx.impl_opt_trait_ref(d) {
                        let tr = tr.instantiate_identity().skip_norm_wip();
                        let _ = write!(o, ",\"trait\":{}", q(&self.path(tr.def_id)));
                    }
                }
                o.push_str(",\"items\":[");
                for (i, it) in tcx.associated_item_def_ids(d).iter().enumerate() {
                    if i > 0 {
                        o.push(',');
                    }
                    esc(&self.path(*it), o);
                }
                o.push_str("]}");
            }
        }
        o.push(']');
    }
}

struct Scan;

impl Callbacks for Scan {
    fn after_analysis<'tcx>(
        &mut self,
        _compiler: &rustc_interface::interface::Compiler,
        tcx: TyCtxt<'tcx>,
    ) -> Compilation {
        let outdir = match std::env::var("MSCAN_OUT") {
            Ok(d) => d,
            Err(_) => return Compilation::Continue,
        };
        let krate = tcx.crate_name(LOCAL_CRATE).to_string();
        let only = std::env::var("MSCAN_CRATES").unwrap_or_default();
        if !only.is_empty() && !only.split(',').any(|c| c == krate) {
            return Compilation::Continue;
        }
        with_resolve_crate_name!(with_no_visible_paths!(with_no_trimmed_paths!(Self::dump(tcx, krate, outdir))));
        Compilation::Continue
    }
}

impl Scan {
    fn dump<'tcx>(tcx: TyCtxt<'tcx>, krate: String, outdir: String) {
        let cx = Cx { tcx };
        let mut o = String::with_capacity(1 << 24);
        let is_bin = tcx
            .crate_types()
            .iter()
            .any(|t| matches!(t, rustc_session_types::CrateType::Executable));
        let _ = write!(o, "{{\"crate\":{},\"bin\":{},", q(&krate), is_bin);
        cx.adts(&mut o);
        o.push_str(",\"fns\":[");
        let mut first = true;
        for ld in tcx.mir_keys(()) {
            let d = ld.to_def_id();
            let kind = tcx.def_kind(d);
            let is_fn = matches!(kind, DefKind::Fn | DefKind::AssocFn | DefKind::Closure);
            let is_const = matches!(
                kind,
                DefKind::Const { .. } | DefKind::AssocConst { .. } | DefKind::Static { .. }
            );
            if !is_fn && !is_const {
                continue;
            }
            // skip coroutine-like closures? (none expected) and constructors
            if !first {
                o.push(',');
            }
            first = false;
            o.push('{');
            cx.fn_header(*ld, &mut o);
            o.push(',');
            if is_fn {
                let body = tcx.optimized_mir(d);
                cx.body(d, body, &mut o);
            } else {
                let body = tcx.mir_for_ctfe(d);
                cx.body(d, body, &mut o);
            }
            // promoteds
            let proms = tcx.promoted_mir(d);
            o.push_str(",\"promoted\":[");
            for (i, p) in proms.iter().enumerate() {
                if i > 0 {
                    o.push(',');
                }
                o.push('{');
                cx.body(d, p, &mut o);
                o.push('}');
            }
            o.push_str("]}");
        }
        o.push_str("]}");
        let suffix = if is_bin { "-bin" } else { "" };
        let tag = std::env::var("MSCAN_TAG").unwrap_or_default();
        let path = format!("{}/{}{}{}.json", outdir, krate, suffix, tag);
        let tmp = format!("{}.tmp{}", path, std::process::id());
        std::fs::write(&tmp, o).expect("write facts");
        std::fs::rename(&tmp, &path).expect("rename facts");
    }
}

extern crate rustc_session;
use rustc_session::config as rustc_session_types;

fn main() {
    let mut args: Vec<String> = std::env::args().collect();
    // RUSTC_WORKSPACE_WRAPPER passes the real rustc path as argv[1]
    if args.len() > 1 && (args[1].ends_with("rustc") || args[1].contains("/rustc")) {
        args.remove(1);
    }
    let mut cb = Scan;
    rustc_driver::run_compiler(&args, &mut cb);
}
