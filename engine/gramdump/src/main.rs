// gramdump: parse a .pest grammar with pest_meta (the parser pest_derive uses)
// and print every rule, its kind and its optimized expression tree as JSON.
use pest_meta::optimizer::{OptimizedExpr, OptimizedRule};
use pest_meta::ast::RuleType;

fn esc(s: &str) -> String {
    let mut o = String::from("\"");
    for c in s.chars() {
        match c {
            '"' => o.push_str("\\\""),
            '\\' => o.push_str("\\\\"),
            '\n' => o.push_str("\\n"),
            '\r' => o.push_str("\\r"),
            '\t' => o.push_str("\\t"),
            c if (c as u32) < 0x20 => o.push_str(&format!("\\u{:04x}", c as u32)),
            c => o.push(c),
        }
    }
    o.push('"');
    o
}

#[allow(unreachable_patterns)]
fn expr(e: &OptimizedExpr) -> String {
    use OptimizedExpr::*;
    match e {
        Str(s) => format!("{{\"k\":\"str\",\"v\":{}}}", esc(s)),
        Insens(s) => format!("{{\"k\":\"insens\",\"v\":{}}}", esc(s)),
        Range(a, b) => format!("{{\"k\":\"range\",\"a\":{},\"b\":{}}}", esc(a), esc(b)),
        Ident(s) => format!("{{\"k\":\"ident\",\"v\":{}}}", esc(s)),
        PeekSlice(a, b) => format!("{{\"k\":\"peekslice\",\"a\":{},\"b\":{}}}", a, b.map(|x| x.to_string()).unwrap_or("null".into())),
        PosPred(x) => format!("{{\"k\":\"pospred\",\"e\":{}}}", expr(x)),
        NegPred(x) => format!("{{\"k\":\"negpred\",\"e\":{}}}", expr(x)),
        Seq(a, b) => format!("{{\"k\":\"seq\",\"a\":{},\"b\":{}}}", expr(a), expr(b)),
        Choice(a, b) => format!("{{\"k\":\"choice\",\"a\":{},\"b\":{}}}", expr(a), expr(b)),
        Opt(x) => format!("{{\"k\":\"opt\",\"e\":{}}}", expr(x)),
        Rep(x) => format!("{{\"k\":\"rep\",\"e\":{}}}", expr(x)),
        Skip(v) => format!("{{\"k\":\"skip\",\"v\":[{}]}}", v.iter().map(|s| esc(s)).collect::<Vec<_>>().join(",")),
        Push(x) => format!("{{\"k\":\"push\",\"e\":{}}}", expr(x)),
        RestoreOnErr(x) => format!("{{\"k\":\"restore\",\"e\":{}}}", expr(x)),
        other => format!("{{\"k\":\"other\",\"v\":{}}}", esc(&format!("{:?}", other))),
    }
}

fn main() {
    let path = std::env::args().nth(1).expect("usage: gramdump <grammar.pest>");
    let src = std::fs::read_to_string(&path).expect("read grammar");
    let (_, rules): (Vec<_>, Vec<OptimizedRule>) = match pest_meta::parse_and_optimize(&src) {
        Ok(r) => r,
        Err(errs) => {
            for e in errs {
                eprintln!("{}", e);
            }
            std::process::exit(2);
        }
    };
    let mut out = String::from("{\"rules\":[");
    for (i, r) in rules.iter().enumerate() {
        if i > 0 {
            out.push(',');
        }
        let ty = match r.ty {
            RuleType::Normal => "normal",
            RuleType::Silent => "silent",
            RuleType::Atomic => "atomic",
            RuleType::CompoundAtomic => "compound",
            RuleType::NonAtomic => "nonatomic",
        };
        out.push_str(&format!("{{\"name\":{},\"ty\":\"{}\",\"expr\":{}}}", esc(&r.name), ty, expr(&r.expr)));
    }
    out.push_str("]}");
    println!("{}", out);
}
