"""R-GRAM part B — typestate analysis of the AST builders against the grammar automata (gram.py).

Abstract values (per MIR local, flow-sensitive, joined at merges):
  ("node", rules)            a pest_consume Node whose rule is one of `rules` (None = unknown)
  ("iter", states)           a Nodes iterator positioned at one of the automaton states
  ("opt", rules, may_none, link)   Option<Node> from next()/last(); link = (iterator local, states if Some, states if None)
  ("res", rules, may_err)    Result<Node, _> from single() / ok_or / map_err ...
  ("cf", inner)              ControlFlow from Try::branch
  ("rule", rules, node_local)      the Rule returned by as_rule()
  ("ref", local)             a reference to a local
  ("pair"/"pairs"/"optpair") the same for pest Pair / Pairs (Pratt callbacks)
  ("bool", kind, ...)        the result of `rule == Rule::X` or Option::is_some
Inter-procedural: the value of a Node / Nodes / Pair parameter is the join over all call sites (worklist to a fixpoint); closures get the
values of their captured variables the same way; Pratt callbacks get the primary / prefix / infix / postfix partition of the token
set of the Pairs given to `parse`, read from the `Op::infix(Rule::X ..)` constants of the PrattParser static they are attached to.
"""
import re
from collections import deque

import mir
import rules as R
from mir import op_local, op_const, op_place

NODE_T = "pest_consume::node::Node<"
NODES_T = "pest_consume::node::Nodes<"
PAIR_T = "pest::iterators::pair::Pair<"
PAIRS_T = "pest::iterators::pairs::Pairs<"
RULE_ADT = "compiler::parser::Rule"

PASS_RES = ("core::result::Result::map_err", "compiler::VecErr::to_err_vec", "compiler::CompilationError::details_lazy_message",
            "compiler::CompilationError::details", "anyhow::Context::context", "anyhow::Context::with_context", "compiler::ast::map_err",
            "compiler::ast::map_err_messages")
OPT_TO_RES = ("core::option::Option::ok_or", "core::option::Option::ok_or_else", "anyhow::Context::context", "anyhow::Context::with_context",
              "compiler::CompilationError::details_lazy_message", "compiler::CompilationError::details")
UNWRAPS = ("core::option::Option::unwrap", "core::option::Option::expect", "core::result::Result::unwrap", "core::result::Result::expect")


def join(a, b):
    if a is None:
        return b
    if b is None:
        return a
    if a == b:
        return a
    if a[0] in ("bconst", "bsplit") and b[0] in ("bconst", "bsplit"):
        da = {a[1]: a[2]} if a[0] == "bconst" else dict(a[1])
        db = {b[1]: b[2]} if b[0] == "bconst" else dict(b[1])
        out = {}
        for k in set(da) | set(db):
            if k in da and k in db:
                out[k] = join_snap(da[k], db[k])
            else:
                out[k] = da.get(k, db.get(k))
        if len(out) == 1:
            k = next(iter(out))
            return ("bconst", k, out[k])
        return ("bsplit", tuple(sorted(out.items())))
    if {a[0], b[0]} == {"opt", "mopt"}:
        x, y = (a, b) if a[0] == "mopt" else (b, a)
        return ("mopt", None if x[1] is None or y[1] is None else x[1] | y[1], x[2] or y[2])
    if a[0] != b[0]:
        return ("top",)
    t = a[0]
    if t in ("node", "pair"):
        la = a[2] if len(a) > 2 else None
        lb = b[2] if len(b) > 2 else None
        rules = None if a[1] is None or b[1] is None else a[1] | b[1]
        return (t, rules, la) if (la is not None and la == lb) else (t, rules)
    if t in ("iter", "pairs", "eiter"):
        pa = a[2] if len(a) > 2 else None
        pb = b[2] if len(b) > 2 else None
        states = None if a[1] is None or b[1] is None else a[1] | b[1]
        return (t, states, pa) if (pa is not None and pa == pb) else (t, states)
    if t in ("opt", "optpair", "opt_t"):
        rules = None if a[1] is None or b[1] is None else a[1] | b[1]
        return (t, rules, a[2] or b[2], a[3] if a[3] == b[3] else None)
    if t in ("res", "mopt"):
        return (t, None if a[1] is None or b[1] is None else a[1] | b[1], a[2] or b[2])
    if t == "resiter":
        return (t, None if a[1] is None or b[1] is None else a[1] | b[1])
    if t == "cf":
        return (t, join(a[1], b[1]))
    if t == "rule":
        return (t, None if a[1] is None or b[1] is None else a[1] | b[1], a[2] if a[2] == b[2] else None)
    if t == "tup":
        if len(a[1]) != len(b[1]):
            return ("top",)
        out = []
        for x, y in zip(a[1], b[1]):
            j = join(x, y) if (x is not None and y is not None) else None
            out.append(None if j is not None and j[0] == "top" else j)
        return ("tup", tuple(out))
    if t == "ref":
        return ("top",)
    return ("top",)


def join_snap(sa, sb):
    da, db = dict(sa), dict(sb)
    out = []
    for k in set(da) & set(db):
        j = join(da[k], db[k])
        if j is not None and j[0] != "top":
            out.append((k, j))
    return tuple(sorted(out, key=lambda x: x[0]))


def snapshot(st):
    return tuple(sorted(((k, v) for k, v in st.items() if v[0] in ("node", "pair", "iter", "pairs", "eiter", "opt", "optpair")), key=lambda x: x[0]))


class Flow:
    def __init__(self, F, G, crate="compiler"):
        self.F = F
        self.G = G
        self.crate = crate
        adt = F.adt(RULE_ADT)
        if adt is None:
            raise KeyError(RULE_ADT)
        self.rule_names = [v["name"] for v in adt["variants"]]
        self.fns = {f.path: f for f in F.crates[crate].fns}
        self.param = {}      # fn path -> {param index: value}
        self.upvar = {}      # closure path -> {upvar index: value}
        self.ret = {}        # fn path -> value
        self.obligations = {}
        self.changed = False
        self.pratt_ops = self._pratt_statics()

    # ---- Pratt parser statics --------------------------------------------------------------------------
    def _pratt_statics(self):
        out = {}
        for p, f in self.fns.items():
            ops = {"infix": set(), "prefix": set(), "postfix": set()}
            n = 0
            for c in f.calls():
                m = re.search(r"pest::pratt_parser::Op::(infix|prefix|postfix)$", mir.strip_generics(c.callee()).replace("::<R>", ""))
                if not m:
                    m = re.search(r"pest::pratt_parser::Op(?:<[^>]*>)?::(infix|prefix|postfix)$", mir.strip_generics(c.callee()))
                if m:
                    k = op_const(c.args[0])
                    if k is not None and "int" in k:
                        ops[m.group(1)].add(self.rule_names[int(k["int"])])
                        n += 1
                    else:
                        l = op_local(c.args[0])
                        for d in (R.defs_of(f, l) if l is not None else []):
                            if d[0] == "assign" and "agg" in d[4] and d[4]["agg"].get("adt") == RULE_ADT:
                                ops[m.group(1)].add(d[4]["agg"]["v"])
                                n += 1
            if n:
                out[re.sub(r"::\{closure#\d+\}$", "", p)] = ops
        return out

    # ---- helpers ----------------------------------------------------------------------------------------
    def ty(self, fn, l):
        return fn.locals[l] if l < len(fn.locals) else ""

    def default_for(self, fn, l):
        t = self.ty(fn, l)
        return None

    def read_place(self, fn, st, pl):
        l = pl["l"]
        v = st.get(l)
        proj = pl.get("p") or []
        i = 0
        # closure environment
        if fn.kind == "Closure" and l == 1 and proj:
            idx = None
            for e in proj:
                if e[0] == "field":
                    idx = e[1]
                    break
            if idx is not None:
                return self.upvar_in.get(fn.path, {}).get(idx)
        while i < len(proj):
            e = proj[i]
            if v is None:
                return None
            if e[0] == "deref":
                if v[0] == "ref":
                    v = st.get(v[1])
                i += 1
                continue
            if e[0] == "field" and v[0] == "tup":
                v = v[1][e[1]] if e[1] < len(v[1]) else None
                i += 1
                continue
            if e[0] == "downcast":
                name = e[1]
                nxt = proj[i + 1] if i + 1 < len(proj) else None
                if nxt is None or nxt[0] != "field":
                    return None
                if v[0] == "mopt" and name == "Some":
                    v = ("node", v[1])
                elif v[0] in ("opt", "optpair") and name == "Some":
                    lk = v[3]
                    if lk is not None and len(lk) > 3 and lk[0] is not None:
                        v = ("node" if v[0] == "opt" else "pair", v[1], (lk[0], lk[3], lk[1]))
                    else:
                        v = ("node" if v[0] == "opt" else "pair", v[1])
                elif v[0] == "opt_t" and name == "Some":
                    v = ("tup", (None, ("node", v[1])))
                elif v[0] == "res" and name == "Ok":
                    v = ("node", v[1])
                elif v[0] == "resiter" and name == "Ok":
                    v = ("iter", v[1])
                elif v[0] == "cf" and name == "Continue":
                    inner = v[1]
                    if inner is None:
                        return None
                    if inner[0] in ("opt", "res"):
                        v = ("node", inner[1])
                    elif inner[0] == "resiter":
                        v = ("iter", inner[1])
                    elif inner[0] == "optpair":
                        v = ("pair", inner[1])
                    else:
                        return None
                else:
                    return None
                i += 2
                continue
            return None
        return v

    def promoted_rule(self, fn, idx):
        try:
            p = fn.d["promoted"][idx]
        except (IndexError, KeyError, TypeError):
            return None
        names = set()
        for blk in p["blocks"]:
            for s in blk["s"]:
                rv = s.get("rv") or {}
                if "agg" in rv and rv["agg"].get("adt") == RULE_ADT:
                    names.add(rv["agg"]["v"])
                for o in mir.rvalue_operands(rv):
                    k = op_const(o)
                    if k is not None and k.get("ty", "").endswith("parser::Rule") and "int" in k and int(k["int"]) < len(self.rule_names):
                        names.add(self.rule_names[int(k["int"])])
        return frozenset(names) if len(names) == 1 else None

    def val_of_operand(self, fn, st, o):
        pl = op_place(o)
        if pl is None:
            k = op_const(o)
            if k is not None and "promoted" in k and "parser::Rule" in k.get("ty", ""):
                r = self.promoted_rule(fn, k["promoted"])
                if r is not None:
                    return ("rule", r, None)
            if k is not None and k.get("ty", "").endswith("parser::Rule") and "int" in k and int(k["int"]) < len(self.rule_names):
                return ("rule", frozenset([self.rule_names[int(k["int"])]]), None)
            return None
        return self.read_place(fn, st, pl)

    def deref(self, st, v, depth=0):
        while v is not None and v[0] == "ref" and depth < 6:
            v = st.get(v[1])
            depth += 1
        return v

    def alias_root(self, st, argval, arglocal):
        """The local whose rule set a clone / re-wrap of this argument shares."""
        l = self.ref_target(st, argval) if argval is not None and argval[0] == "ref" else arglocal
        v = st.get(l) if l is not None else None
        n = 0
        while v is not None and v[0] in ("node", "pair") and len(v) > 2 and v[2] is not None and v[2][0] == "alias" and n < 6:
            l = v[2][1]
            v = st.get(l)
            n += 1
        return l

    def ref_target(self, st, v):
        """local ultimately referenced"""
        n = 0
        last = None
        while v is not None and v[0] == "ref" and n < 6:
            last = v[1]
            v = st.get(v[1])
            n += 1
        return last

    # ---- transfer -----------------------------------------------------------------------------------------
    def assign(self, fn, st, s):
        d = s.get("d")
        rv = s.get("rv")
        if d is None or rv is None:
            return
        if d.get("p"):
            return
        dl = d["l"]
        v = None
        if "use" in rv:
            v = self.val_of_operand(fn, st, rv["use"])
            k = op_const(rv["use"])
            if v is None and k is not None and k.get("ty") == "bool" and "int" in k:
                v = ("bconst", k["int"] != "0", snapshot(st))
        elif "ref" in rv or "rawptr" in rv:
            pl = rv.get("ref") or rv.get("rawptr")
            proj = pl.get("p") or []
            if not proj:
                v = ("ref", pl["l"])
            elif proj == [["deref"]] and st.get(pl["l"], (None,))[0] == "ref":
                v = st.get(pl["l"])
            else:
                inner = self.read_place(fn, st, pl)
                if inner is not None and inner[0] in ("node", "iter", "pair", "pairs", "rule"):
                    # a reference to a projected value: keep the value itself (read-only use)
                    v = inner
        elif "discr" in rv:
            pl = rv["discr"]
            base = self.read_place(fn, st, pl)
            if base is not None:
                if base[0] == "rule":
                    v = ("rdiscr", base[1], base[2], pl["l"])
                elif base[0] in ("opt", "optpair", "opt_t", "mopt"):
                    v = ("odiscr", pl["l"] if not pl.get("p") else None)
                elif base[0] == "cf_break":
                    v = ("breakdiscr",)
        elif "cast" in rv:
            pl = op_place(rv["op"])
            if pl is not None:
                v = self.read_place(fn, st, pl)
        elif "agg" in rv and rv["agg"].get("k") == "adt" and rv["agg"].get("adt") == RULE_ADT:
            v = ("rule", frozenset([rv["agg"]["v"]]), None)
        elif "agg" in rv and rv["agg"].get("k") == "tuple":
            vals = tuple(self.val_of_operand(fn, st, o) for o in rv["ops"])
            if any(x is not None for x in vals):
                v = ("tup", vals)
        elif "agg" in rv and rv["agg"].get("k") == "adt" and rv["agg"].get("adt") == "core::option::Option" and NODE_T in self.ty(fn, dl):
            # an Option<Node> assembled by hand (not the direct result of next()/last()): whether it is Some is a property of the
            # builder's control flow, not of the grammar -> unwrapping it is counted, not judged
            if rv["agg"]["v"] == "Some":
                x = self.val_of_operand(fn, st, rv["ops"][0])
                x = self.deref(st, x)
                v = ("mopt", x[1] if x is not None and x[0] == "node" else None, False)
            else:
                v = ("mopt", frozenset(), True)
        elif "agg" in rv and rv["agg"].get("k") == "closure":
            cd = rv["agg"].get("def")
            up = self.upvar.setdefault(cd, {})     # presence = the closure's creation site has been reached
            for i, o in enumerate(rv["ops"]):
                ov = self.val_of_operand(fn, st, o)
                ov = self.deref(st, ov)
                if ov is not None and ov[0] in ("node", "iter", "pair", "pairs"):
                    if ov[0] in ("node", "pair"):
                        ov = (ov[0], ov[1])
                    nv = join(up.get(i), ov)
                    if nv != up.get(i):
                        up[i] = nv
                        self.changed = True
        if v is None:
            st.pop(dl, None)
        else:
            st[dl] = v

    def record_param(self, path, idx, v, where=None):
        if getattr(self, "trace", None) is not None and (v is None or v[0] == "top" or (len(v) > 1 and v[1] is None)):
            self.trace.append((where, path, idx, v))
        if v is None or v[0] not in ("node", "iter", "pair", "pairs", "rule"):
            v = ("top",)
        if v[0] == "rule":
            v = ("rule", v[1], None)
        if v[0] in ("node", "pair"):
            v = (v[0], v[1])        # links to the caller's iterator do not cross the call
        cur = self.param.setdefault(path, {})
        nv = join(cur.get(idx), v) if idx in cur else v
        if nv != cur.get(idx):
            cur[idx] = nv
            self.changed = True

    def call(self, fn, st, bb, c, record):
        G = self.G
        nm = mir.strip_generics(c.callee())
        dst = c.dst["l"] if c.dst and not c.dst.get("p") else None
        args = [self.val_of_operand(fn, st, a) for a in c.args]
        dargs = [self.deref(st, a) for a in args]
        out = None

        def ob(kind, ok, detail, subject):
            if record:
                self.obligations[(fn.path, bb, kind)] = {"fn": fn.path, "bb": bb, "kind": kind, "ok": ok, "detail": detail, "span": c.span, "subject": subject}

        if c.matches("pest_consume::node::Node::children"):
            v = dargs[0]
            parent = self.ref_target(st, args[0]) if args[0] is not None and args[0][0] == "ref" else op_local(c.args[0])
            if v is not None and v[0] == "node" and v[1] is not None:
                states = set()
                for r in v[1]:
                    if r in G._start:
                        states |= G.start(r)
                out = ("iter", frozenset(states), parent)
            else:
                out = ("iter", None)
        elif c.matches("pest_consume::parser::Parser::parse_with_userdata") or c.matches("pest_consume::parser::Parser::parse"):
            v = dargs[0] if dargs else None
            if v is not None and v[0] == "rule" and v[1] is not None:
                states = set()
                for r in v[1]:
                    states |= G.root(r)
                out = ("resiter", frozenset(states))
            else:
                out = ("resiter", None)
        elif c.matches(PASS_RES) and dargs and dargs[0] is not None and dargs[0][0] == "resiter":
            out = dargs[0]
        elif c.matches(UNWRAPS) and dargs and dargs[0] is not None and dargs[0][0] == "resiter":
            out = ("iter", dargs[0][1])
        elif c.matches("core::ops::try_trait::Try::branch") and dargs and dargs[0] is not None and dargs[0][0] == "resiter":
            out = ("cf", dargs[0])
        elif c.matches(("core::result::Result::and_then", "core::result::Result::map", "core::option::Option::map", "core::option::Option::and_then")) \
                and dargs and dargs[0] is not None and dargs[0][0] in ("resiter", "res", "opt") and len(c.args) > 1:
            cd = R.closure_def_of_arg(fn, c.args[1])
            if cd:
                inner = ("iter", dargs[0][1]) if dargs[0][0] == "resiter" else ("node", dargs[0][1])
                self.record_param(cd, 2, inner)
                out = self.ret_in.get(cd)
                dty = self.ty(fn, dst) if dst is not None else ""
                if out is None and any(t in dty for t in (NODE_T, NODES_T)) and not record:
                    self.halt = True
        elif c.matches("compiler::VerboseLogger::wrap_in_spinner") and len(c.args) >= 3:
            cd = R.closure_def_of_arg(fn, c.args[2])
            if cd:
                out = self.ret_in.get(cd)
                dty = self.ty(fn, dst) if dst is not None else ""
                if out is None and any(t in dty for t in (NODE_T, NODES_T)) and not record:
                    self.halt = True
        elif c.matches("pest_consume::node::Nodes::into_pairs"):
            v = dargs[0]
            out = ("pairs", v[1]) if v is not None and v[0] == "iter" else ("pairs", None)
        elif c.matches("pest::iterators::pair::Pair::into_inner"):
            v = dargs[0]
            if v is not None and v[0] == "pair" and v[1] is not None:
                states = set()
                for r in v[1]:
                    if r in G._start:
                        states |= G.start(r)
                out = ("pairs", frozenset(states))
            else:
                out = ("pairs", None)
        elif c.matches("core::iter::traits::iterator::Iterator::next") and dargs and dargs[0] is not None and dargs[0][0] in ("iter", "pairs"):
            v = dargs[0]
            tgt = self.ref_target(st, args[0]) if args[0] is not None and args[0][0] == "ref" else op_local(c.args[0])
            tag = "opt" if v[0] == "iter" else "optpair"
            if v[1] is None:
                out = (tag, None, True, None)
            else:
                step = G.step(v[1])
                adv = frozenset().union(*step.values()) if step else frozenset()
                may_none = G.accepting(v[1])
                stay = v[1]
                out = (tag, frozenset(step.keys()), may_none, (tgt, adv, stay, tuple(sorted((k, x) for k, x in step.items()))))
                if tgt is not None:
                    st[tgt] = (v[0], adv | (stay if may_none else frozenset())) + ((v[2],) if len(v) > 2 else ())
        elif c.matches("core::iter::traits::iterator::Iterator::last") and dargs and dargs[0] is not None and dargs[0][0] == "iter":
            v = dargs[0]
            if v[1] is None:
                out = ("opt", None, True, None)
            else:
                out = ("opt", frozenset(G.last_symbols(v[1])), G.accepting(v[1]), None)
        elif c.matches("core::iter::traits::collect::IntoIterator::into_iter") and dargs and dargs[0] is not None and dargs[0][0] in ("iter", "pairs", "eiter"):
            out = dargs[0]
        elif c.matches("core::iter::traits::iterator::Iterator::enumerate") and dargs and dargs[0] is not None and dargs[0][0] == "iter":
            out = ("eiter", dargs[0][1])
        elif c.matches("core::iter::traits::iterator::Iterator::next") and dargs and dargs[0] is not None and dargs[0][0] == "eiter":
            v = dargs[0]
            tgt = self.ref_target(st, args[0]) if args[0] is not None and args[0][0] == "ref" else op_local(c.args[0])
            if v[1] is None:
                out = ("opt_t", None, True, None)
            else:
                step = G.step(v[1])
                adv = frozenset().union(*step.values()) if step else frozenset()
                may_none = G.accepting(v[1])
                out = ("opt_t", frozenset(step.keys()), may_none, (tgt, adv, v[1]))
                if tgt is not None:
                    st[tgt] = ("eiter", adv | (v[1] if may_none else frozenset()))
        elif c.matches("pest_consume::node::Nodes::single"):
            v = dargs[0]
            if v is not None and v[0] == "iter" and v[1] is not None:
                out = ("res", frozenset(G.step(v[1]).keys()), not G.exactly_one(v[1]))
            else:
                out = ("res", None, True)
        elif c.matches(UNWRAPS) and dargs and dargs[0] is not None and dargs[0][0] == "mopt":
            if record:
                self.uncounted = getattr(self, "uncounted", 0) + 1
            out = ("node", dargs[0][1])
        elif c.matches(OPT_TO_RES) and dargs and dargs[0] is not None and dargs[0][0] == "mopt":
            out = ("res", dargs[0][1], dargs[0][2])
        elif c.matches(UNWRAPS) and dargs and dargs[0] is not None and dargs[0][0] in ("opt", "optpair", "res"):
            v = dargs[0]
            if v[0] in ("opt", "optpair"):
                if v[1] is None:
                    ob("O2", None, "the iterator's position is not known", "unwrap")
                else:
                    ob("O2", not v[2], "next()/last() can return None here: the grammar allows the child sequence to end" if v[2] else "", "unwrap")
                lk = v[3]
                if lk is not None and len(lk) > 3 and lk[0] is not None:
                    out = ("node" if v[0] == "opt" else "pair", v[1], (lk[0], lk[3], lk[1]))
                else:
                    out = ("node" if v[0] == "opt" else "pair", v[1])
                # past the unwrap the Some edge was taken
                if v[3] is not None and v[3][0] is not None:
                    cur = st.get(v[3][0])
                    if cur is not None and cur[0] in ("iter", "pairs"):
                        st[v[3][0]] = (cur[0], v[3][1]) + ((cur[2],) if len(cur) > 2 else ())
            else:
                if v[1] is None:
                    ob("O3", None, "the iterator's position is not known", "single().unwrap")
                else:
                    ob("O3", not v[2], "single() can fail here: the grammar allows zero or several children" if v[2] else "", "single().unwrap")
                out = ("node", v[1])
        elif c.matches("core::ops::try_trait::Try::branch") and dargs and dargs[0] is not None and dargs[0][0] == "alwayserr":
            out = ("cf_break",)
        elif c.matches("core::ops::try_trait::Try::branch") and dargs and dargs[0] is not None and dargs[0][0] in ("opt", "res", "optpair"):
            out = ("cf", dargs[0])
        elif c.matches(OPT_TO_RES) and dargs and dargs[0] is not None and dargs[0][0] == "opt":
            out = ("res", dargs[0][1], dargs[0][2])
        elif c.matches(PASS_RES) and dargs and dargs[0] is not None and dargs[0][0] == "res":
            out = dargs[0]
        elif c.matches(("pest_consume::node::Node::as_rule", "pest::iterators::pair::Pair::as_rule")):
            v = dargs[0]
            tgt = self.ref_target(st, args[0]) if args[0] is not None and args[0][0] == "ref" else op_local(c.args[0])
            if v is not None and v[0] in ("node", "pair"):
                out = ("rule", v[1], tgt)
            else:
                out = ("rule", None, tgt)
        elif c.matches("pest_consume::node::Node::new_with_user_data"):
            v = dargs[0]
            src = self.alias_root(st, args[0], op_local(c.args[0]))
            out = (("node", v[1], ("alias", src)) if src is not None else ("node", v[1])) if v is not None and v[0] == "pair" else ("node", None)
        elif c.matches("core::clone::Clone::clone") and dargs and dargs[0] is not None and dargs[0][0] in ("node", "pair"):
            src = self.alias_root(st, args[0], op_local(c.args[0]))
            out = (dargs[0][0], dargs[0][1], ("alias", src)) if src is not None else (dargs[0][0], dargs[0][1])
        elif c.matches("core::clone::Clone::clone") and dargs and dargs[0] is not None and dargs[0][0] in ("iter", "pairs"):
            out = dargs[0]
        elif c.matches("core::cmp::PartialEq::eq") or c.matches("core::cmp::PartialEq::ne"):
            a, b = (dargs + [None, None])[:2]
            lit = None
            for o in c.args[1:2]:
                for x in R.literal_of(fn, o):
                    if x[0] == "int":
                        lit = int(x[1])
            name = self.rule_names[lit] if lit is not None and lit < len(self.rule_names) else None
            if name is None and b is not None and b[0] == "rule" and b[1] is not None and len(b[1]) == 1 and b[2] is None:
                name = next(iter(b[1]))
            if name is None and a is not None and a[0] == "rule" and a[1] is not None and len(a[1]) == 1 and a[2] is None and b is not None and b[0] == "rule":
                a, b = b, a
                name = next(iter(b[1]))
            if a is not None and a[0] == "rule" and name is not None:
                out = ("rulecmp", a[2], name, c.matches("core::cmp::PartialEq::eq"))
        elif c.matches("core::option::Option::is_some") or c.matches("core::option::Option::is_none"):
            v = dargs[0] if dargs else None
            if v is not None and v[0] in ("opt", "optpair"):
                out = ("optcmp", v, c.matches("core::option::Option::is_some"))
        elif re.search(r"pest::pratt_parser::PrattParserMap(<.*>)?::parse$", nm) or c.matches("pest::pratt_parser::PrattParserMap::parse"):
            self.pratt_parse(fn, st, c, dargs)
        else:
            callee = self.fns.get(c.callee())
            if callee is None:
                fs = self.F.fn(c.callee())
                callee = fs if fs is not None and fs.path in self.fns else None
            if callee is not None and self.const_bool_fn(callee) is not None:
                out = ("boolconst", self.const_bool_fn(callee))
            elif callee is not None and self.always_err_fn(callee):
                out = ("alwayserr",)
            elif callee is not None:
                dty = self.ty(fn, dst) if dst is not None else ""
                if any(t in dty for t in (NODE_T, NODES_T, PAIR_T, PAIRS_T)) and callee.path not in self.ret_in and not record:
                    # the callee's result is not known yet in this ascending round: this path is not explored further now
                    self.halt = True
                for i, a in enumerate(dargs):
                    ty = self.ty(fn, op_local(c.args[i])) if op_local(c.args[i]) is not None else ""
                    if a is not None and a[0] in ("node", "iter", "pair", "pairs", "rule"):
                        self.record_param(callee.path, i + 1, a, (fn.path, c.span))
                    elif any(t in ty for t in (NODE_T, NODES_T, PAIR_T, PAIRS_T)) or ty.endswith("parser::Rule"):
                        self.record_param(callee.path, i + 1, ("top",), (fn.path, c.span))
                out = self.ret_in.get(callee.path)
            # a mutable reference to an iterator handed to an unmodelled call: position unknown afterwards
            for i, a in enumerate(args):
                if a is not None and a[0] == "ref":
                    t = self.ref_target(st, a)
                    cur = st.get(t)
                    if cur is not None and cur[0] in ("iter", "pairs", "eiter") and "&mut" in self.ty(fn, op_local(c.args[i]) or 0):
                        st[t] = (cur[0], None)
            # closures passed to unmodelled calls get their node arguments as unknown
        if dst is not None:
            if out is None:
                st.pop(dst, None)
            else:
                st[dst] = out

    def pratt_parse(self, fn, st, c, dargs):
        G = self.G
        pairs = dargs[1] if len(dargs) > 1 else None
        if pairs is None or pairs[0] != "pairs" or pairs[1] is None:
            return
        symbols = set(G.symbols_ahead(pairs[1]))
        # walk the builder chain back from the receiver
        closures = {}
        static = None
        cur = op_local(c.args[0])
        seen = set()
        while cur is not None and cur not in seen:
            seen.add(cur)
            nxt = None
            for d in R.defs_of(fn, cur):
                if d[0] == "call":
                    cc = d[4]
                    m = re.search(r"::(map_primary|map_prefix|map_infix|map_postfix)$", mir.strip_generics(cc.callee()))
                    if m:
                        cd = R.closure_def_of_arg(fn, cc.args[1])
                        if cd:
                            closures[m.group(1)] = cd
                        nxt = op_local(cc.args[0])
                    elif cc.matches("core::ops::deref::Deref::deref") or "Lazy" in cc.callee():
                        for lit in R.literal_of(fn, cc.args[0]):
                            if lit[0] in ("static", "named"):
                                static = lit[1]
                        k = op_const(cc.args[0])
                        if k is not None and ("static" in k or "named" in k):
                            static = k.get("static") or k.get("named")
                        nxt = op_local(cc.args[0])
                else:
                    rv = d[4]
                    pl = rv.get("ref") or (op_place(rv["use"]) if "use" in rv else None)
                    if pl is not None:
                        nxt = pl["l"]
                    k = op_const(rv["use"]) if "use" in rv else None
                    if k is not None and ("static" in k or "named" in k):
                        static = k.get("static") or k.get("named")
            cur = nxt
        ops = None
        if static is not None:
            for p, o in self.pratt_ops.items():
                if p == static or static.endswith(p) or p.endswith(static):
                    ops = o
        if ops is None:
            # one Pratt parser per module: the static of the same module as the caller
            mod = fn.path.rsplit("::", 1)[0]
            for p, o in self.pratt_ops.items():
                if p.rsplit("::", 1)[0] in fn.path:
                    ops = o
        if ops is None:
            return
        declared = ops["infix"] | ops["prefix"] | ops["postfix"]
        part = {"map_primary": (2, symbols - declared), "map_prefix": (2, symbols & ops["prefix"]), "map_infix": (3, symbols & ops["infix"]),
                "map_postfix": (3, symbols & ops["postfix"])}
        for k, cd in closures.items():
            idx, rs = part[k]
            self.record_param(cd, idx, ("pair", frozenset(rs)))

    def refine_node(self, st, node_local, nr):
        nv = st.get(node_local)
        if nv is None or nv[0] not in ("node", "pair"):
            return
        if nr is not None:
            # iterators over this node's children can only be inside the automata of the remaining rules
            keep = None
            for l, iv in list(st.items()):
                if iv[0] in ("iter", "pairs", "eiter") and len(iv) > 2 and iv[2] == node_local and iv[1] is not None:
                    if keep is None:
                        keep = set()
                        for r in nr:
                            if r in self.G._start:
                                keep |= self.G.reachable(self.G.start(r))
                    st[l] = (iv[0], frozenset(iv[1] & keep), iv[2])
            lk0 = nv[2] if len(nv) > 2 else None
            if lk0 is not None and lk0[0] == "alias":
                src = st.get(lk0[1])
                if src is not None and src[0] in ("node", "pair") and src[1] is not None:
                    st[lk0[1]] = (src[0], src[1] & nr) + ((src[2],) if len(src) > 2 else ())
                st[node_local] = (nv[0], nr, lk0)
                return
        lk = nv[2] if len(nv) > 2 else None
        if lk is not None and lk[0] == "alias":
            lk = None
        if lk is not None and nr is not None:
            it_local, stepmap, stamp = lk
            cur = st.get(it_local)
            if cur is not None and cur[0] in ("iter", "pairs", "eiter") and cur[1] == stamp:
                ns = frozenset().union(*[x for k, x in stepmap if k in nr]) if any(k in nr for k, _ in stepmap) else frozenset()
                st[it_local] = (cur[0], ns)
                st[node_local] = (nv[0], nr, (it_local, stepmap, ns))
                return
        st[node_local] = (nv[0], nr)

    def refine_edge(self, fn, st, bb, t, tgt_val, is_otherwise, explicit):
        """State on one out-edge of a switch."""
        dl = op_local(t["discr"])
        v = st.get(dl)
        if v is None:
            return st
        st = dict(st)
        if v[0] == "rdiscr":
            rules, node_local, rule_local = v[1], v[2], v[3]
            if rules is not None:
                if is_otherwise:
                    nr = frozenset(r for r in rules if r not in explicit)
                else:
                    name = self.rule_names[int(tgt_val)] if int(tgt_val) < len(self.rule_names) else None
                    nr = frozenset([name]) & rules if name else frozenset()
                if node_local is not None and st.get(node_local) is not None and st[node_local][0] in ("node", "pair"):
                    self.refine_node(st, node_local, nr)
                if rule_local is not None:
                    st[rule_local] = ("rule", nr, node_local)
                st[dl] = ("rdiscr", nr, node_local, rule_local)
        elif v[0] == "odiscr" and v[1] is not None:
            o = st.get(v[1])
            if o is not None and o[0] == "mopt":
                some = (not is_otherwise and tgt_val == "1") or (is_otherwise and "1" not in explicit)
                st[v[1]] = ("mopt", o[1], False) if some else ("mopt", frozenset(), True)
            elif o is not None and o[0] in ("opt", "optpair", "opt_t"):
                some = (not is_otherwise and tgt_val == "1") or (is_otherwise and "1" not in explicit)
                link = o[3]
                if some:
                    st[v[1]] = (o[0], o[1], False, link)
                    if link is not None and link[0] is not None and st.get(link[0]) is not None:
                        st[link[0]] = (st[link[0]][0], link[1])
                else:
                    st[v[1]] = (o[0], frozenset(), True, link)
                    if link is not None and link[0] is not None and st.get(link[0]) is not None:
                        st[link[0]] = (st[link[0]][0], link[2])
        elif v[0] == "rulecmp":
            node_local, name, is_eq = v[1], v[2], v[3]
            truth = (not is_otherwise and tgt_val != "0") or (is_otherwise and "0" in explicit)
            if not is_eq:
                truth = not truth
            nv = st.get(node_local)
            if nv is not None and nv[0] in ("node", "pair") and nv[1] is not None:
                self.refine_node(st, node_local, (nv[1] & frozenset([name])) if truth else (nv[1] - frozenset([name])))
        return st

    # ---- per-function fixpoint ------------------------------------------------------------------------------
    def analyse(self, fn, record=False):
        nb = len(fn.blocks)
        inst = [None] * nb
        init = {}
        for i in range(1, fn.argc + 1):
            v = self.param_in.get(fn.path, {}).get(i)
            if v is not None and v[0] != "top":
                if self.ty(fn, i).startswith("&") and v[0] in ("node", "pair"):
                    # a by-reference parameter: copies of the reference alias one node
                    init[-i] = v
                    init[i] = ("ref", -i)
                else:
                    init[i] = v
        inst[0] = init
        work = deque([0])
        rounds = 0
        while work and rounds < 20000:
            rounds += 1
            b = work.popleft()
            st = dict(inst[b])
            blk = fn.blocks[b]
            for s in blk["s"]:
                self.assign(fn, st, s)
            t = blk["t"]
            outs = []
            if t["k"] == "call":
                c = mir.Call(fn, b, t)
                self.halt = False
                self.call(fn, st, b, c, record)
                if t.get("target") is not None and not self.halt:
                    outs.append((t["target"], st))
            elif t["k"] == "switch":
                explicit_vals = [v for v, _ in t["targets"]]
                dv = st.get(op_local(t["discr"]))
                explicit_names = set()
                if dv is not None and dv[0] == "rdiscr":
                    explicit_names = {self.rule_names[int(v)] for v in explicit_vals if int(v) < len(self.rule_names)}
                    if record:
                        self.switch_obligation(fn, b, t, dv, explicit_names)
                if dv is not None and dv[0] == "rulecmp" and record:
                    self.assert_obligation(fn, b, t, dv, st)
                if dv is not None and dv[0] == "odiscr" and record:
                    self.let_else_obligation(fn, b, t, dv, st)
                if dv is not None and dv[0] == "breakdiscr":
                    tg = dict(t["targets"]).get("1", t["otherwise"])
                    outs.append((tg, st))
                elif dv is not None and dv[0] in ("bconst", "bsplit"):
                    cases = {dv[1]: dv[2]} if dv[0] == "bconst" else dict(dv[1])
                    tmap = dict(t["targets"])
                    for truth, snap in cases.items():
                        tg = tmap.get("1" if truth else "0", t["otherwise"])
                        nst = dict(st)
                        for l, val in snap:
                            cur = nst.get(l)
                            if cur is not None and cur[0] == val[0]:
                                nst[l] = val
                        outs.append((tg, nst))
                elif dv is not None and dv[0] == "boolconst":
                    want = "1" if dv[1] else "0"
                    tg = dict(t["targets"]).get(want, t["otherwise"])
                    outs.append((tg, st))
                else:
                    for val, tg in t["targets"]:
                        outs.append((tg, self.refine_edge(fn, st, b, t, val, False, explicit_names if dv is not None and dv[0] == "rdiscr" else explicit_vals)))
                    outs.append((t["otherwise"], self.refine_edge(fn, st, b, t, None, True, explicit_names if dv is not None and dv[0] == "rdiscr" else explicit_vals)))
            elif t["k"] == "return":
                v = st.get(0)
                if v is not None and v[0] in ("node", "iter", "opt", "res", "pair", "pairs", "resiter"):
                    if v[0] in ("node", "pair"):
                        v = (v[0], v[1])
                    elif v[0] == "opt":
                        v = ("opt", v[1], v[2], None)
                    nv = join(self.ret.get(fn.path), v)
                    if nv != self.ret.get(fn.path):
                        self.ret[fn.path] = nv
                        self.changed = True
            else:
                for s2 in fn.succs(b):
                    if not fn.blocks[s2].get("cleanup"):
                        outs.append((s2, st))
            for tg, ost in outs:
                if tg is None or fn.blocks[tg].get("cleanup"):
                    continue
                if inst[tg] is None:
                    inst[tg] = dict(ost)
                    work.append(tg)
                else:
                    cur = inst[tg]
                    new = {}
                    for k in set(cur) & set(ost):
                        j = join(cur[k], ost[k])
                        if j is not None and j[0] != "top":
                            new[k] = j
                    if new != cur:
                        inst[tg] = new
                        work.append(tg)
        return inst

    def panics_only(self, fn, b, depth=0):
        """Does control from block b necessarily end in a panic (no return reachable)?"""
        reach = fn.reachable(b)
        for x in reach:
            if fn.blocks[x].get("cleanup"):
                continue
            if fn.term(x)["k"] == "return":
                return False
        return True

    def assert_obligation(self, fn, b, t, dv, st):
        """O4: `assert_eq!(node.as_rule(), Rule::X)` (or `if rule != X { panic }`): the edge on which the comparison fails can only panic."""
        node_local, name, is_eq = dv[1], dv[2], dv[3]
        tmap = dict(t["targets"])
        false_tg = tmap.get("0", t["otherwise"])
        true_tg = t["otherwise"] if "0" in tmap else tmap.get("1", t["otherwise"])
        mismatch = false_tg if is_eq else true_tg
        if mismatch is None or not self.panics_only(fn, mismatch):
            return
        if "pest_consume::parser" in (t.get("mc") or []):
            return
        nv = st.get(node_local) if node_local is not None else None
        span = t.get("us") or t.get("sp")
        if nv is None or nv[0] not in ("node", "pair") or nv[1] is None:
            self.obligations[(fn.path, b, "O4")] = {"fn": fn.path, "bb": b, "kind": "O4", "ok": None, "detail": "the node's rule is not known", "span": span,
                                                     "subject": "assert on as_rule()"}
            return
        extra = sorted(r for r in nv[1] if r != name)
        self.obligations[(fn.path, b, "O4")] = {"fn": fn.path, "bb": b, "kind": "O4", "ok": not extra, "span": span, "missing": extra,
                                                 "detail": ("the node can also be %s here, for which the assertion panics" % extra) if extra else "the node is always `%s`" % name,
                                                 "subject": "assert on as_rule()"}

    def let_else_obligation(self, fn, b, t, dv, st):
        """O2 in its `let Some(x) = it.next() else { panic }` / `match .. { None => unreachable!() }` form."""
        o = st.get(dv[1]) if dv[1] is not None else None
        if o is None or o[0] not in ("opt", "optpair"):
            return
        tmap = dict(t["targets"])
        none_tg = tmap.get("0", t["otherwise"] if "1" in tmap else None)
        if none_tg is None or not self.panics_only(fn, none_tg):
            return
        if "pest_consume::parser" in (t.get("mc") or []):
            return
        span = t.get("us") or t.get("sp")
        if o[1] is None:
            self.obligations[(fn.path, b, "O2")] = {"fn": fn.path, "bb": b, "kind": "O2", "ok": None, "detail": "the iterator's position is not known", "span": span,
                                                     "subject": "let-else on next()"}
        else:
            self.obligations[(fn.path, b, "O2")] = {"fn": fn.path, "bb": b, "kind": "O2", "ok": not o[2], "span": span, "subject": "let-else on next()",
                                                     "detail": "next()/last() can return None here and the None arm panics" if o[2] else ""}

    def switch_obligation(self, fn, b, t, dv, explicit_names):
        ow = t["otherwise"]
        if "pest_consume::parser" in (t.get("mc") or []):
            return      # generated by #[pest_consume::parser]: rule/alias bookkeeping, not a builder's assumption
        if fn.term(ow)["k"] == "unreachable" and not fn.blocks[ow]["s"]:
            return      # exhaustive match compiled without a fallback
        if not self.panics_only(fn, ow):
            return
        rules = dv[1]
        if rules is None:
            self.obligations[(fn.path, b, "O1")] = {"fn": fn.path, "bb": b, "kind": "O1", "ok": None, "detail": "the node's rule is not known", "span": t.get("us") or t.get("sp"),
                                                     "subject": "match on as_rule()"}
            return
        missing = sorted(r for r in rules if r not in explicit_names)
        self.obligations[(fn.path, b, "O1")] = {"fn": fn.path, "bb": b, "kind": "O1", "ok": not missing, "span": t.get("us") or t.get("sp"),
                                                 "detail": ("the grammar can produce %s here but the match has no arm for it (falls into a panic)" % missing) if missing else
                                                 "arms cover %s" % sorted(rules), "subject": "match on as_rule()", "missing": missing}

    # ---- whole program ---------------------------------------------------------------------------------------------
    def typed_params(self, f):
        out = []
        for i in range(1, f.argc + 1):
            t = f.locals[i] if i < len(f.locals) else ""
            if any(x in t for x in (NODE_T, NODES_T, PAIR_T, PAIRS_T)) or t.endswith("parser::Rule"):
                out.append(i)
        return out

    def run(self, entries):
        relevant = [f for f in self.fns.values() if self.touches(f)]
        prev = ({}, {}, {})
        for it in range(40):
            # summaries of this round are rebuilt from scratch, reading those of the previous round (ascending from bottom)
            self.param_in, self.upvar_in, self.ret_in = prev
            new_param, new_up, new_ret = {}, {}, {}
            for path, idx, v in entries:
                new_param.setdefault(path, {})[idx] = v
            self.param_out, self.upvar_out, self.ret_out = new_param, new_up, new_ret
            self.param, self.upvar, self.ret = self.param_out, self.upvar_out, self.ret_out
            for f in relevant:
                if not self.ready(f):
                    continue
                self.analyse(f)
            cur = (new_param, new_up, new_ret)
            if getattr(self, "round_hook", None):
                self.round_hook(it, cur)
            if cur == prev:
                break
            prev = cur
        self.rounds = it + 1
        self.param_in, self.upvar_in, self.ret_in = prev
        self.obligations = {}
        self.analysed = []
        for f in relevant:
            if not self.ready(f):
                continue
            self.analysed.append(f)
            self.analyse(f, record=True)
        return relevant

    def ready(self, f):
        """A function is analysed once a value is known for its node-typed parameters (or captured variables)."""
        tp = self.typed_params(f)
        if f.kind == "Closure":
            if tp:
                return f.path in self.param_in
            return f.path in self.param_in or f.path in self.upvar_in
        if not tp:
            return True
        return f.path in self.param_in

    def const_bool_fn(self, f):
        """A local function all of whose returns assign the same boolean literal to _0: that literal, else None."""
        if not hasattr(self, "_cbf"):
            self._cbf = {}
        if f.path in self._cbf:
            return self._cbf[f.path]
        vals = set()
        ok = True
        for bi, si, dst, rv, s in f.assigns():
            if dst["l"] == 0 and not dst.get("p"):
                k = op_const(rv["use"]) if "use" in rv else None
                if k is not None and k.get("ty") == "bool" and "int" in k:
                    vals.add(k["int"] != "0")
                else:
                    ok = False
        if any(c for c in f.calls()):
            ok = False
        r = vals.pop() if ok and len(vals) == 1 else None
        self._cbf[f.path] = r
        return r

    def always_err_fn(self, f):
        """A local function / closure every return of which is an Err (a `bail!` helper): its `?` never continues."""
        if not hasattr(self, "_aef"):
            self._aef = {}
        if f.path in self._aef:
            return self._aef[f.path]
        n = 0
        ok = "core::result::Result<" in (f.locals[0] if f.locals else "")
        for bi, si, dst, rv, s in f.assigns():
            if dst["l"] == 0 and not dst.get("p"):
                if "agg" in rv and rv["agg"].get("adt") == "core::result::Result" and rv["agg"].get("v") == "Err":
                    n += 1
                else:
                    ok = False
        for c in f.calls():
            if c.dst and c.dst["l"] == 0 and not c.dst.get("p"):
                if c.matches("core::ops::try_trait::FromResidual::from_residual"):
                    n += 1
                else:
                    ok = False
        r = bool(ok and n)
        self._aef[f.path] = r
        return r

    def touches(self, f):
        for t in f.locals:
            if NODE_T in t or NODES_T in t or PAIR_T in t or PAIRS_T in t:
                return True
        return False
