"""debug helper: python3 analysis/dump.py <crate> <fn path substring> [config]"""
import sys, glob, json, os
sys.path.insert(0, os.path.dirname(os.path.abspath(__file__)))
import mir, extract
def show(f):
    print("==", f.path, f.kind, "argc", f.argc)
    print("   names", f.names)
    for i, b in enumerate(f.blocks):
        if b['cleanup']: continue
        for s in b['s']:
            if 'd' in s:
                print(i, '  ', json.dumps(s['d']), '=', json.dumps(s['rv'])[:260], ('  @' + ','.join(s['mc'])) if s.get('mc') else '')
        t = b['t']
        if t['k'] == 'call':
            fn = t['func']
            print(i, 'CALL', fn.get('res') or fn.get('def') or fn, [json.dumps(a)[:120] for a in t['args']], '->', json.dumps(t['dst']), 'next', t['target'], t.get('mc') or '', t.get('us') or t.get('sp'))
        else:
            print(i, json.dumps({k: v for k, v in t.items() if k not in ('sp', 'mc', 'us', 'mops')})[:300])
if __name__ == '__main__':
    cfg = sys.argv[3] if len(sys.argv) > 3 else 'default'
    F = mir.Facts(extract.ensure(cfg), [sys.argv[1]])
    for f in F.all_fns():
        if sys.argv[2] in f.path:
            show(f)
