"""Fact extraction and caching.

Runs the mscan driver (rustc_private) and the grammar dumper over /repo's
*current working tree* and caches the result under /verif/.cache/<hash>/<config>.
The hash covers every tracked or untracked source/manifest file, so an edited
tree is always re-analysed and an unchanged tree is analysed once.
"""
import fcntl
import hashlib
import json
import os
import shutil
import subprocess
import sys
import tempfile
import time

VERIF = os.path.dirname(os.path.dirname(os.path.abspath(__file__)))
REPO = os.environ.get("MSCRIPT_REPO", "/repo")
CACHE = os.path.join(VERIF, ".cache")
WORK = os.path.join(VERIF, ".work")
MSCAN = os.path.join(VERIF, "engine", "mscan", "target", "release", "mscan")
GRAMDUMP = os.path.join(VERIF, "engine", "gramdump", "target", "release", "gramdump")

# analysed configurations: name -> (cargo args, manifest path relative to repo)
CONFIGS = {
    "default": (["--workspace"], None),
    "bytecode_debug": (["--workspace", "--features", "debug_runtime"], None),
    "output_hr": (["--workspace", "--features", "output_hr"], None),
    "nil_eq": (["-p", "compiler", "--features", "compiler/allow_nil_through_eq"], None),
    "ffi": ([], "ffi/Cargo.toml"),
}


def _source_files(repo):
    keep = []
    for root, dirs, files in os.walk(repo):
        dirs[:] = [d for d in dirs if d not in ("target", ".git", "out", "node_modules")]
        for fn in files:
            if fn.endswith((".rs", ".pest")) or fn in ("Cargo.toml", "Cargo.lock", "config.toml", "rust-toolchain", "rust-toolchain.toml", "build.rs"):
                keep.append(os.path.relpath(os.path.join(root, fn), repo))
    keep.sort()
    return keep


def tree_hash(repo=REPO):
    h = hashlib.sha256()
    for f in _source_files(repo):
        p = os.path.join(repo, f)
        try:
            with open(p, "rb") as fh:
                data = fh.read()
        except OSError:
            continue
        h.update(f.encode() + b"\0" + hashlib.sha256(data).digest())
    # the engines are part of the key: a rebuilt extractor invalidates the cache
    for eng in (MSCAN, GRAMDUMP):
        try:
            st = os.stat(eng)
            h.update(("%s:%d:%d" % (eng, st.st_size, int(st.st_mtime))).encode())
        except OSError:
            h.update(b"missing-engine")
    return h.hexdigest()[:24]


def _sysroot():
    return subprocess.run(["rustc", "+nightly", "--print", "sysroot"],
                          capture_output=True, text=True, check=True).stdout.strip()


def _prune(keep=6):
    try:
        ents = [os.path.join(CACHE, d) for d in os.listdir(CACHE) if not d.startswith(".")]
    except OSError:
        return
    ents = [e for e in ents if os.path.isdir(e)]
    ents.sort(key=lambda e: os.stat(e).st_mtime, reverse=True)
    for e in ents[keep:]:
        shutil.rmtree(e, ignore_errors=True)


def run_mscan(repo, config, outdir, target_dir=None):
    """Run the driver over `repo` for `config`, writing <crate>.json into outdir."""
    args, manifest = CONFIGS[config]
    env = dict(os.environ)
    env["LD_LIBRARY_PATH"] = _sysroot() + "/lib"
    env["RUSTFLAGS"] = "-Zmir-opt-level=0 -Awarnings"
    env["RUSTC_WORKSPACE_WRAPPER"] = MSCAN
    env["MSCAN_OUT"] = outdir
    env["CARGO_NET_OFFLINE"] = "true"
    own_target = target_dir is None
    if own_target:
        os.makedirs(WORK, exist_ok=True)
        target_dir = tempfile.mkdtemp(prefix="tgt.", dir=WORK)
    env["CARGO_TARGET_DIR"] = target_dir
    cmd = ["cargo", "+nightly", "check", "--offline"] + args
    cwd = repo
    if manifest:
        cmd += ["--manifest-path", os.path.join(repo, manifest)]
    try:
        r = subprocess.run(cmd, cwd=cwd, env=env, capture_output=True, text=True)
    finally:
        if own_target:
            shutil.rmtree(target_dir, ignore_errors=True)
    return r


def run_gramdump(repo, outdir):
    g = os.path.join(repo, "compiler", "src", "grammar.pest")
    r = subprocess.run([GRAMDUMP, g], capture_output=True, text=True)
    if r.returncode != 0:
        return r
    with open(os.path.join(outdir, "grammar.json"), "w") as fh:
        fh.write(r.stdout)
    return r


class ExtractionError(Exception):
    pass


def ensure(config="default", repo=REPO, verbose=True):
    """Return the directory holding the facts of `config` for the current tree."""
    os.makedirs(CACHE, exist_ok=True)
    h = tree_hash(repo)
    final = os.path.join(CACHE, h, config)
    if os.path.exists(os.path.join(final, "OK")):
        try:
            os.utime(os.path.join(CACHE, h))
        except OSError:
            pass
        return final
    lock = open(os.path.join(CACHE, ".lock"), "w")
    fcntl.flock(lock, fcntl.LOCK_EX)
    try:
        if os.path.exists(os.path.join(final, "OK")):
            return final
        t0 = time.time()
        os.makedirs(os.path.join(CACHE, h), exist_ok=True)
        tmp = tempfile.mkdtemp(prefix=".tmp-" + config + "-", dir=os.path.join(CACHE, h))
        if verbose:
            print("[extract] analysing %s (config %s, tree %s)" % (repo, config, h), file=sys.stderr)
        r = run_mscan(repo, config, tmp)
        if r.returncode != 0:
            shutil.rmtree(tmp, ignore_errors=True)
            raise ExtractionError("cargo check failed for config %s:\n%s" % (config, r.stderr[-4000:]))
        if config != "ffi":
            g = run_gramdump(repo, tmp)
            if g.returncode != 0:
                shutil.rmtree(tmp, ignore_errors=True)
                raise ExtractionError("gramdump failed:\n" + g.stderr[-2000:])
        expected = ["ffi.json"] if config == "ffi" else (
            ["compiler.json"] if config == "nil_eq" else
            ["bytecode.json", "compiler.json", "bytecode_dev_transpiler.json", "mscript-bin.json"])
        for e in expected:
            if not os.path.exists(os.path.join(tmp, e)):
                shutil.rmtree(tmp, ignore_errors=True)
                raise ExtractionError("fact file %s was not produced (config %s)" % (e, config))
        with open(os.path.join(tmp, "OK"), "w") as fh:
            json.dump({"wall_s": round(time.time() - t0, 1), "tree": h, "config": config}, fh)
        if os.path.exists(final):
            shutil.rmtree(final, ignore_errors=True)
        os.rename(tmp, final)
        _prune()
        return final
    finally:
        fcntl.flock(lock, fcntl.LOCK_UN)
        lock.close()


if __name__ == "__main__":
    cfg = sys.argv[1] if len(sys.argv) > 1 else "default"
    print(ensure(cfg))
