"""Shared types of the runner and the property modules."""
import json
import os

import extract
import mir

VERIF = os.path.dirname(os.path.dirname(os.path.abspath(__file__)))


class AnchorMissing(Exception):
    """An anchor of a rule could not be resolved: a checker fault, not a violation."""


class Report:
    def __init__(self, prop, tier):
        self.prop = prop
        self.tier = tier
        self.obligations = []   # dicts
        self.explanation = []
        self.assumptions = []
        self.extra = {}
        self.floors = []        # (name, count, floor)
        self.analysed_fns = set()

    def ob(self, rule, instance, status, detail="", where=None, key=None, fn=None, sample=None):
        """Record one obligation.  status: ok | violated | undecided | exempt."""
        assert status in ("ok", "violated", "undecided", "exempt"), status
        if key is None:
            key = "%s|%s|%s" % (rule, mir.short(fn) if fn else "-", instance)
        o = {"rule": rule, "instance": instance, "status": status, "detail": detail,
             "where": where, "key": key}
        if fn:
            o["fn"] = fn
            self.analysed_fns.add(fn)
        if sample is not None:
            o["sample"] = sample
        self.obligations.append(o)
        return o

    def floor(self, name, count, floor):
        """Fail closed when a rule matched fewer instances than were confirmed by hand."""
        self.floors.append((name, count, floor))

    def explain(self, text):
        self.explanation.append(text)

    def assume(self, text):
        if text not in self.assumptions:
            self.assumptions.append(text)

    def touched(self, fn_path):
        self.analysed_fns.add(fn_path)


class Ctx:
    def __init__(self, tier, config=None):
        self.tier = tier
        self._facts = {}
        self.config = config        # thorough tier: the build configuration that stands in for "default"

    def facts(self, config="default", names=None):
        if config == "default" and self.config:
            config = self.config
        k = (config, tuple(names) if names else None)
        if k not in self._facts:
            d = os.environ.get("VERIF_FACTS_DIR") if config == "default" else None
            if not d:
                d = extract.ensure(config)
            fb = None
            if config not in ("default", "ffi") and not os.environ.get("VERIF_FACTS_DIR"):
                fb = extract.ensure("default")      # configurations that build one package only borrow the other crates from the default build
            self._facts[k] = mir.Facts(d, names, fallback=fb)
        return self._facts[k]

    def rules(self, name):
        with open(os.path.join(VERIF, "rules", name)) as fh:
            return json.load(fh)


