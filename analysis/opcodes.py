"""T-opcode: the three hand-aligned opcode tables (ids, names, handlers) and the
`instruction!` literal uses of the compiler."""
import mir
import rules
from mir import op_local, op_const
from core import AnchorMissing

TO_BYTE = "bytecode::compilation_bridge::string_instruction_representation_to_byte"


def tables(F):
    b = F.crates["bytecode"]
    ids = {}
    for f in b.fns:
        if f.kind.startswith("Const") and f.path.startswith("bytecode::instruction_constants::id::"):
            for bi, si, dst, rv, s in f.assigns():
                if dst["l"] == 0 and "use" in rv and op_const(rv["use"]) and "int" in op_const(rv["use"]):
                    ids[f.path.split("::")[-1]] = int(op_const(rv["use"])["int"])
    st = F.fn("bytecode::instruction_constants::BIN_TO_REPR")
    if st is None:
        raise AnchorMissing("static BIN_TO_REPR")
    names = []
    for p in st.d.get("promoted", []):
        for blk in p["blocks"]:
            for s in blk["s"]:
                if "rv" in s and "agg" in s["rv"] and s["rv"]["agg"]["k"] == "array":
                    names = [op_const(o).get("str") for o in s["rv"]["ops"]]
    run = F.fn("bytecode::function::Function::run")
    if run is None:
        raise AnchorMissing("Function::run")
    handlers = {}
    sw_bb = None
    for bi, blk in enumerate(run.blocks):
        t = blk["t"]
        if t["k"] == "switch" and t.get("dty") == "u8" and len(t["targets"]) >= 20:
            sw_bb = bi
            for v, tgt in t["targets"]:
                # follow to the first handler call
                b2 = tgt
                for _ in range(6):
                    tt = run.blocks[b2]["t"]
                    if tt["k"] == "call":
                        cal = (tt["func"].get("res") or tt["func"].get("def") or "")
                        if cal.startswith("bytecode::instruction::implementations::"):
                            handlers[int(v)] = cal.split("::")[-1]
                            break
                        b2 = tt["target"]
                        if b2 is None:
                            break
                    elif tt["k"] == "goto":
                        b2 = tt["target"]
                    else:
                        break
            otherwise = t["otherwise"]
    return {"ids": ids, "names": names, "handlers": handlers, "switch_bb": sw_bb}


def instruction_literals(F, crate="compiler"):
    """(fn, name literal, span, call) for every instruction!(name ..) use: a call of
    string_instruction_representation_to_byte with a literal argument."""
    out = []
    for f in F.crates[crate].fns:
        for c in f.calls_to(TO_BYTE):
            lits = [x[1] for x in rules.literal_of(f, c.args[0]) if x[0] == "str"]
            out.append((f, lits[0] if len(lits) == 1 else None, c.span, c))
    return out


def id_const_uses(F, crate="compiler"):
    """Uses of bytecode id constants as instruction ids (CompiledItem::Instruction { id: CONST, .. })."""
    out = []
    for f in F.crates[crate].fns:
        for bi, si, dst, rv, s in f.assigns():
            if "agg" in rv and rv["agg"].get("adt") == "compiler::ast::CompiledItem" and rv["agg"].get("v") == "Instruction":
                k = op_const(rv["ops"][0])
                if k is None:
                    l = op_local(rv["ops"][0])
                    for d in rules.defs_of(f, l) if l is not None else []:
                        if d[0] == "assign" and "use" in d[4] and op_const(d[4]["use"]):
                            k = op_const(d[4]["use"])
                if k is not None:
                    out.append((f, k, s.get("us") or s.get("sp")))
    return out
