"""R-TABLE instances: the static operator table (TypeLayout::get_output_type), the
run-time operator table (impl ops for &Primitive, PartialOrd, equals,
runtime_addr_check, negate), the constant folder's table (impl ops for &Number),
all read off the MIR by abstract interpretation (absint)."""
import re
import absint
import mir
from absint import Interp, Int, Flt, Str, Variant, Opaque, Tup, TRUE, FALSE
from core import AnchorMissing

PRIM = "bytecode::variables::primitive::Primitive"
TL = "compiler::ast::r#type::TypeLayout"
NT = "compiler::ast::r#type::NativeType"
OP = "compiler::ast::math_expr::Op"
NUM = "compiler::ast::number::Number"

NATIVE = ["Bool", "Str", "Int", "BigInt", "Float", "Byte"]
NUMERIC = ["Int", "BigInt", "Float", "Byte"]

# which trait method implements which operator (read from bin_op by `dispatch`)
TRAITS = {
    "Add": ("core::ops::arith::Add", "add"), "Sub": ("core::ops::arith::Sub", "sub"), "Mul": ("core::ops::arith::Mul", "mul"),
    "Div": ("core::ops::arith::Div", "div"), "Rem": ("core::ops::arith::Rem", "rem"),
    "BitAnd": ("core::ops::bit::BitAnd", "bitand"), "BitOr": ("core::ops::bit::BitOr", "bitor"), "BitXor": ("core::ops::bit::BitXor", "bitxor"),
    "Shl": ("core::ops::bit::Shl", "shl"), "Shr": ("core::ops::bit::Shr", "shr"),
}


def _float_eq(it, p, fid, fn, t, args):
    a, b = args[0], args[1]
    n = 0
    while isinstance(a, absint.Ptr) and n < 6:
        a = it.deref(p, a)
        n += 1
    n = 0
    while isinstance(b, absint.Ptr) and n < 6:
        b = it.deref(p, b)
        n += 1
    if isinstance(a, Flt) and isinstance(b, Flt):
        return absint.mkbool(a.v == b.v)
    return absint._str_eq(it, p, fid, fn, t, args)


def _opaque_ok(tag):
    def m(it, p, fid, fn, t, args):
        return Opaque(tag)
    return m


def _result_map(it, p, fid, fn, t, args):
    a = args[0]
    if isinstance(a, Variant) and a.adt == "core::result::Result":
        if a.name == "Err":
            return a
        f = args[1]
        if isinstance(f, absint.FnItem) and f.path.startswith(PRIM + "::"):
            # a tuple-variant constructor used as a function: build the variant
            name = f.path.split("::")[-1]
            prim = it.F.adt(PRIM)
            names = [v["name"] for v in prim["variants"]]
            if name in names:
                return absint.ok(Variant(PRIM, names.index(name), name, [a.fields[0]]))
        return absint.ok(Opaque("mapped"))
    return NotImplemented


_RANGE = {"i32": (-2**31, 2**31 - 1), "i128": (-2**127, 2**127 - 1), "u8": (0, 255), "i64": (-2**63, 2**63 - 1), "u32": (0, 2**32 - 1)}


def _int_divrem(which):
    """`<iN as Div>::div` / `<iN as Rem>::rem` (and the by-reference forms) on two known integers: Rust's semantics, including the two
    panics (zero divisor; MIN / -1 and MIN % -1 overflow).  Anything not concrete stays opaque."""
    def m(it, p, fid, fn, t, args):
        a, b = args[0], args[1]
        n = 0
        while isinstance(a, absint.Ptr) and n < 4:
            a = it.deref(p, a)
            n += 1
        n = 0
        while isinstance(b, absint.Ptr) and n < 4:
            b = it.deref(p, b)
            n += 1
        if not (isinstance(a, Int) and isinstance(b, Int) and a.ty == b.ty and a.ty in _RANGE):
            return NotImplemented
        lo, hi = _RANGE[a.ty]
        if b.v == 0:
            return ("panic", "assert:DivisionByZero" if which == "div" else "assert:RemainderByZero")
        if a.v == lo and b.v == -1:
            return ("panic", "assert:Overflow(%s)" % ("Div" if which == "div" else "Rem"))
        q = abs(a.v) // abs(b.v)
        if (a.v < 0) != (b.v < 0):
            q = -q
        return Int(q if which == "div" else a.v - q * b.v, a.ty)
    return m


def _int_unary(name):
    """exact integer helpers on a known value (bit counts, magnitude); anything else stays opaque"""
    def m(it, p, fid, fn, t, args):
        a = args[0]
        n = 0
        while isinstance(a, absint.Ptr) and n < 4:
            a = it.deref(p, a)
            n += 1
        if not (isinstance(a, Int) and a.ty in ("i32", "i128", "u8", "u32", "u128", "u64", "i64")):
            return NotImplemented
        bits = int(a.ty[1:])
        if name == "unsigned_abs":
            return Int(abs(a.v), "u" + a.ty[1:])
        if name == "checked_abs":
            return absint.NONE if a.v == -(1 << (bits - 1)) else absint.some(Int(abs(a.v), a.ty))
        v = a.v % (1 << bits)
        if name == "leading_zeros":
            return Int(bits - v.bit_length(), "u32")
        if name == "trailing_zeros":
            return Int(bits if v == 0 else (v & -v).bit_length() - 1, "u32")
        return NotImplemented
    return m


def _int_try_from(it, p, fid, fn, t, args):
    """`<iN as TryFrom<iM>>::try_from` / try_into on a known integer: Ok in range, Err outside"""
    a = args[0]
    n = 0
    while isinstance(a, absint.Ptr) and n < 4:
        a = it.deref(p, a)
        n += 1
    if not isinstance(a, Int):
        return NotImplemented
    dst = fn.locals[t["dst"]["l"]] if not t["dst"].get("p") else ""
    m = re.match(r"core::result::Result<(i8|i16|i32|i64|i128|isize|u8|u16|u32|u64|u128|usize), ", dst)
    if not m:
        return NotImplemented
    ty = m.group(1)
    bits = 64 if ty.endswith("size") else int(ty[1:])
    lo, hi = (-(1 << (bits - 1)), (1 << (bits - 1)) - 1) if ty[0] == "i" else (0, (1 << bits) - 1)
    if lo <= a.v <= hi:
        return absint.ok(Int(a.v, ty))
    return absint.err(Opaque("TryFromIntError"))


def _u32_saturating_add(it, p, fid, fn, t, args):
    a, b = args[0], args[1]
    if isinstance(a, Int) and isinstance(b, Int) and a.ty == b.ty == "u32":
        return Int(min(a.v + b.v, 2**32 - 1), "u32")
    return NotImplemented


def _concrete_ord(name):
    """`a < b` etc. through the std impls for references (`<&&A as PartialOrd<&B>>::lt`) on two known numbers of one type"""
    def m(it, p, fid, fn, t, args):
        a, b = args[0], args[1]
        for _ in range(6):
            if isinstance(a, absint.Ptr):
                a = it.deref(p, a)
            if isinstance(b, absint.Ptr):
                b = it.deref(p, b)
        if (isinstance(a, Int) and isinstance(b, Int) and a.ty == b.ty) or (isinstance(a, Flt) and isinstance(b, Flt)):
            x, y = a.v, b.v
            return absint.mkbool({"lt": x < y, "le": x <= y, "gt": x > y, "ge": x >= y}[name])
        if isinstance(a, Variant) and isinstance(b, Variant) and a.adt == PRIM and b.adt == PRIM:
            # std's impl for references hands over to the impl for the referents: the interpreter's own PartialOrd for Primitive
            g = it.F.fn("bytecode::variables::ops::ord::<impl core::cmp::PartialOrd for bytecode::variables::primitive::Primitive>::" + name)
            if g is not None:
                pa, pb = args[0], args[1]
                # peel references down to a pointer to the value itself
                for _ in range(6):
                    na = it.deref(p, pa) if isinstance(pa, absint.Ptr) else pa
                    if isinstance(na, absint.Ptr):
                        pa = na
                    nb = it.deref(p, pb) if isinstance(pb, absint.Ptr) else pb
                    if isinstance(nb, absint.Ptr):
                        pb = nb
                if isinstance(pa, absint.Ptr) and isinstance(pb, absint.Ptr):
                    return ("enter", g, [pa, pb], None)
        return NotImplemented
    return m


def _u8_is_ascii(it, p, fid, fn, t, args):
    a = args[0]
    n = 0
    while isinstance(a, absint.Ptr) and n < 4:
        a = it.deref(p, a)
        n += 1
    if isinstance(a, Int) and a.ty == "u8":
        return absint.mkbool(a.v < 128)
    return NotImplemented


MODELS = {
    "core::num::<impl u8>::is_ascii": _u8_is_ascii,
    "core::cmp::PartialOrd::lt": _concrete_ord("lt"),
    "core::cmp::PartialOrd::le": _concrete_ord("le"),
    "core::cmp::PartialOrd::gt": _concrete_ord("gt"),
    "core::cmp::PartialOrd::ge": _concrete_ord("ge"),
    "core::num::<impl u32>::saturating_add": _u32_saturating_add,
    "core::num::<impl i128>::checked_abs": _int_unary("checked_abs"),
    "core::num::<impl i32>::checked_abs": _int_unary("checked_abs"),
    "core::num::<impl i128>::unsigned_abs": _int_unary("unsigned_abs"),
    "core::num::<impl i32>::unsigned_abs": _int_unary("unsigned_abs"),
    "core::num::<impl u128>::leading_zeros": _int_unary("leading_zeros"),
    "core::num::<impl u128>::trailing_zeros": _int_unary("trailing_zeros"),
    "core::num::<impl u32>::leading_zeros": _int_unary("leading_zeros"),
    "core::num::<impl u32>::trailing_zeros": _int_unary("trailing_zeros"),
    "core::convert::TryFrom::try_from": _int_try_from,
    "core::convert::TryInto::try_into": _int_try_from,
    "core::cmp::PartialEq::eq": _float_eq,
    "core::result::Result::map": _result_map,
    "core::ops::arith::Div::div": _int_divrem("div"),
    "core::ops::arith::Rem::rem": _int_divrem("rem"),
}


class Tables:
    def __init__(self, F):
        self.F = F
        self.prim = F.adt(PRIM)
        if self.prim is None:
            raise AnchorMissing(PRIM)
        self.prim_names = [v["name"] for v in self.prim["variants"]]
        self._rt = {}
        self._st = {}
        self._fold = {}
        self.evals = 0

    # ---- value builders -----------------------------------------------------------
    def prim_value(self, kind, tag, payload=None):
        """kind: a Primitive variant name, or ('Opt', K) for Optional(Some(Box(K))), or 'Nil'."""
        if kind == "Nil":
            return Variant(PRIM, self.prim_names.index("Optional"), "Optional", [absint.NONE])
        if isinstance(kind, tuple) and kind[0] == "Opt":
            return Variant(PRIM, self.prim_names.index("Optional"), "Optional", [absint.some(self.prim_value(kind[1], tag + ".some"))])
        vi = self.prim_names.index(kind)
        n = len(self.prim["variants"][vi]["fields"])
        fields = [Opaque("%s.%d" % (tag, i)) for i in range(n)]
        if payload is not None:
            fields[0] = payload
        return Variant(PRIM, vi, kind, fields)

    def kind_of(self, v):
        if isinstance(v, Variant) and v.adt == PRIM:
            if v.name == "Optional":
                inner = v.fields[0] if v.fields else None
                if isinstance(inner, Variant) and inner.name == "None":
                    return "Nil"
                if isinstance(inner, Variant) and inner.name == "Some":
                    return ("Opt", self.kind_of(inner.fields[0]))
                return "Optional"
            return v.name
        return None

    # ---- run-time -----------------------------------------------------------------------
    def rt_fn(self, opname):
        """MIR function implementing a run-time operator on Primitive."""
        F = self.F
        if opname in TRAITS:
            tr, m = TRAITS[opname]
            c = F.find("<&%s as %s>::%s" % (PRIM, tr, m))
            if len(c) != 1:
                raise AnchorMissing("impl %s for &Primitive" % tr)
            return c[0]
        if opname in ("lt", "le", "gt", "ge"):
            c = F.find("<%s as core::cmp::PartialOrd>::%s" % (PRIM, opname))
            if len(c) != 1:
                raise AnchorMissing("PartialOrd::%s for Primitive" % opname)
            return c[0]
        path = {"equals": PRIM + "::equals", "is": PRIM + "::runtime_addr_check", "negate": PRIM + "::negate"}[opname]
        f = F.fn(path)
        if f is None:
            raise AnchorMissing(path)
        return f

    def classify_rt(self, outs, exhausted, result_local_kind=None):
        res = set()
        for o in outs:
            dd = o.data_dep
            if o.kind == "return":
                v = o.value
                if isinstance(v, Variant) and v.adt == "core::result::Result":
                    if v.name == "Ok":
                        k = self.kind_of(v.fields[0]) if v.fields else None
                        if k is None and v.fields and isinstance(v.fields[0], Int) and v.fields[0].ty == "bool":
                            k = "Bool"
                        if k is None and v.fields and isinstance(v.fields[0], Opaque):
                            k = "?" + str(v.fields[0].ty or v.fields[0].tag)
                        res.add(("Ok", k, dd))
                    else:
                        res.add(("Err", None, dd))
                elif isinstance(v, Int) and v.ty == "bool":
                    res.add(("Ok", "Bool", dd))
                elif isinstance(v, Opaque):
                    res.add(("Ok", "?" + str(v.ty or v.tag), dd))
                else:
                    res.add(("Ok", repr(v), dd))
            elif o.kind == "panic":
                res.add(("Panic", str(o.value), dd))
            else:
                res.add(("Undecided", str(o.value), dd))
        if exhausted:
            res.add(("Undecided", "path bound", True))
        return frozenset(res)

    def runtime(self, opname, lk, rk, lpayload=None, rpayload=None):
        key = (opname, lk, rk, repr(lpayload), repr(rpayload))
        if key in self._rt:
            return self._rt[key]
        f = self.rt_fn(opname)
        it = Interp(self.F, models=MODELS, max_depth=5, max_paths=512)
        a = self.prim_value(lk, "l", lpayload)
        if opname == "negate":
            outs = it.run(f, [a])
            self.evals += 1
            r = self.classify_rt(outs, it.exhausted)
            self._rt[key] = r
            return r
        b = self.prim_value(rk, "r", rpayload)
        outs = it.run(f, [a, b])
        self.evals += 1
        r = self.classify_rt(outs, it.exhausted)
        if opname in ("lt", "le", "gt", "ge", "equals"):
            # these return bool / Result<bool>: normalise Ok(bool) to kind Bool
            r = frozenset((k, ("Bool" if (k == "Ok" and (x is None or str(x).startswith("?") or x == "Bool")) else x), dd) for (k, x, dd) in r)
        self._rt[key] = r
        return r

    # ---- static ---------------------------------------------------------------------------
    def static_fn(self):
        c = self.F.find("compiler::ast::r#type::TypeLayout::get_output_type")
        if len(c) != 1:
            raise AnchorMissing("TypeLayout::get_output_type")
        return c[0]

    def tl_value(self, kind, tag):
        F = self.F
        tl = F.adt(TL)
        nt = F.adt(NT)
        tln = [v["name"] for v in tl["variants"]]
        ntn = [v["name"] for v in nt["variants"]]
        if isinstance(kind, tuple) and kind[0] == "Opt":
            inner = self.tl_value(kind[1], tag + ".some")
            return Variant(TL, tln.index("Optional"), "Optional", [absint.some(inner)])
        if kind == "Nil":
            return Variant(TL, tln.index("Optional"), "Optional", [absint.NONE])
        if isinstance(kind, tuple) and kind[0] == "Cb":
            return Variant(TL, tln.index("CallbackVariable"), "CallbackVariable", [self.tl_value(kind[1], tag + ".cb")])
        if isinstance(kind, tuple) and kind[0] == "Alias":
            return Variant(TL, tln.index("Alias"), "Alias", [Opaque(tag + ".alias-name"), self.tl_value(kind[1], tag + ".alias")])
        if kind in ntn:
            vi = ntn.index(kind)
            n = len(nt["variants"][vi]["fields"])
            return Variant(TL, tln.index("Native"), "Native", [Variant(NT, vi, kind, [Opaque("%s.%d" % (tag, i)) for i in range(n)])])
        if kind == "List":
            # a list type stands for "[int...]": whether a list has `==` depends on what it can hold (C13.element-equality decides the other element types)
            lt = F.adt("compiler::ast::list::ListType")
            if lt is not None and "Int" in ntn:
                ltn = [v["name"] for v in lt["variants"]]
                if "Open" in ltn:
                    elem = Variant("alloc::borrow::Cow", 1, "Owned", [self.tl_value("Int", tag + ".elem")])
                    return Variant(TL, tln.index("List"), "List", [Variant("compiler::ast::list::ListType", ltn.index("Open"), "Open", [elem])])
        vi = tln.index(kind)
        n = len(tl["variants"][vi]["fields"])
        return Variant(TL, vi, kind, [Opaque("%s.%s.%d" % (tag, kind, i)) for i in range(n)])

    def op_names(self):
        a = self.F.adt(OP)
        if a is None:
            raise AnchorMissing(OP)
        return [v["name"] for v in a["variants"]]

    def static(self, op, lk, rk, config_F=None):
        key = (op, lk, rk)
        if key in self._st:
            return self._st[key]
        f = self.static_fn()
        opn = self.op_names()
        r = self._static_once(f, opn, op, lk, rk, Opaque("flags"))
        if any(x[0] == "Undecided" for x in r):
            # the flags decide a branch the evaluation cannot fold with an unknown value (eq_complex recursing through optionals): evaluate
            # under every setting of the boolean flags instead (no executing class) and take the union
            fl = self.F.adt("compiler::ast::r#type::TypecheckFlags")
            if fl is not None:
                import itertools
                fields = fl["variants"][0]["fields"]
                bools = [x["name"] for x in fields if x["ty"].strip() == "bool"]
                dom = self._flag_domains(fields, bools)
                u = set()
                for combo in itertools.product(*[sorted(dom[b]) for b in bools]):
                    vals = dict(zip(bools, (absint.TRUE if b else absint.FALSE for b in combo)))
                    fv = Variant("compiler::ast::r#type::TypecheckFlags", 0, "TypecheckFlags", [vals.get(x["name"], absint.NONE) for x in fields])
                    # with known flags the paths are few; the small helpers (disregard_distractors ..) are called many times along one path
                    u |= self._static_once(f, opn, op, lk, rk, fv, loop_bound=24)
                if not any(x[0] == "Undecided" for x in u):
                    r = frozenset((tag, k, True) for (tag, k, dd) in u)
        self._st[key] = r
        return r

    def _flag_domains(self, fields, bools):
        """The values each boolean field of TypecheckFlags can have anywhere in the compiler: the constants its constructors write, plus both
        values when the field's setter (a method of the same name) is called at all or a construction writes a non-constant."""
        if getattr(self, "_fd", None) is not None:
            return self._fd
        idx = {x["name"]: i for i, x in enumerate(fields)}
        dom = {b: set() for b in bools}
        for g in self.F.crates["compiler"].fns:
            for bi, si, dst, rv, st in g.assigns():
                if "agg" in rv and str(rv["agg"].get("adt", "")).endswith("TypecheckFlags") and len(rv["ops"]) == len(fields):
                    for b in bools:
                        k = mir.op_const(rv["ops"][idx[b]])
                        if k is not None and "int" in k:
                            dom[b].add(k["int"] != "0")
                        else:
                            dom[b] |= {False, True}
        # setters: methods of TypecheckFlags that write a parameter into a field of self
        setters = {}
        for g in self.F.crates["compiler"].fns:
            if "TypecheckFlags" not in g.path or g.kind == "Closure":
                continue
            for bi, si, dst, rv, st in g.assigns():
                pr = dst.get("p") or []
                if dst["l"] == 1 and len(pr) == 1 and pr[0][0] == "field" and pr[0][2] in dom and "use" in rv:
                    src = mir.op_local(rv["use"])
                    for _ in range(4):      # `_3 = copy _2; self.field = move _3`
                        if src is None or 1 <= src <= g.argc:
                            break
                        ds = [rv2 for b2, s2, d2, rv2, st2 in g.assigns() if d2["l"] == src and not d2.get("p")]
                        src = mir.op_local(ds[0]["use"]) if len(ds) == 1 and "use" in ds[0] else None
                    if src is not None and 2 <= src <= g.argc:
                        setters[g.path] = (pr[0][2], src - 1)
                    else:
                        k = mir.op_const(rv["use"])
                        dom[pr[0][2]] |= ({k["int"] != "0"} if (k is not None and "int" in k) else {False, True})
        for g in self.F.crates["compiler"].fns:
            for c in g.calls():
                hit = setters.get(c.callee())
                if hit is None:
                    continue
                b, ai = hit
                k = mir.op_const(c.args[ai]) if len(c.args) > ai else None
                dom[b] |= ({k["int"] != "0"} if (k is not None and "int" in k) else {False, True})
        self.flag_setters = setters
        for b in bools:
            if not dom[b]:
                dom[b] = {False, True}
        self._fd = dom
        return dom

    def _static_once(self, f, opn, op, lk, rk, flags, loop_bound=3):
        it = Interp(self.F, models=MODELS, max_depth=6, max_paths=512, loop_bound=loop_bound)
        outs = it.run(f, [self.tl_value(lk, "l"), self.tl_value(rk, "r"), Variant(OP, opn.index(op), op, []), flags])
        self.evals += 1
        res = set()
        for o in outs:
            if o.kind == "return" and isinstance(o.value, Variant) and o.value.adt == "core::option::Option":
                if o.value.name == "Some":
                    x = o.value.fields[0]
                    k = None
                    if isinstance(x, Variant) and x.name == "Native" and x.fields and isinstance(x.fields[0], Variant):
                        k = x.fields[0].name
                    elif isinstance(x, Variant):
                        k = x.name
                    else:
                        k = "?" + repr(x)
                    res.add(("Some", k, o.data_dep))
                else:
                    res.add(("None", None, o.data_dep))
            elif o.kind == "panic":
                res.add(("Panic", str(o.value), o.data_dep))
            else:
                res.add(("Undecided", "%s %r" % (o.kind, o.value), o.data_dep))
        if it.exhausted:
            res.add(("Undecided", "path bound", True))
        return frozenset(res)

    # ---- constant folder --------------------------------------------------------------------
    def num_value(self, kind, tag, payload=None):
        a = self.F.adt(NUM)
        if a is None:
            raise AnchorMissing(NUM)
        names = [v["name"] for v in a["variants"]]
        vi = names.index(kind)
        n = len(a["variants"][vi]["fields"])
        fields = [Opaque("%s.%d" % (tag, i)) for i in range(n)]
        if payload is not None:
            fields[0] = payload
        return Variant(NUM, vi, kind, fields)

    def fold_fn(self, opname):
        tr, m = TRAITS[opname]
        c = self.F.find("<&%s as %s>::%s" % (NUM, tr, m))
        if len(c) != 1:
            raise AnchorMissing("impl %s for &Number" % tr)
        return c[0]
