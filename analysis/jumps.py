"""Jump arithmetic of the control-flow generators, decided on symbolic instruction words (no execution, no solver).

seqgen.py reads what a generator emits as a word over code(child) and instruction names.  Here the same abstract interpretation keeps
  * lengths as *linear expressions* (absint.Lin) over the opaque block lengths |cond|, |body|, ... -- `body.len() + 2` is the value
    (|body| + 2), and the operand of `if_stmt` / `jmp` / `jmp_pop` / `while_loop` is read as such an expression;
  * the loop generators' rewriting pass over the already compiled body: the body is split as  body[<i]  X  body[>i]  with X a generic
    element at the opaque index i -- a `Break(f)` / `Continue(f)` placeholder with opaque frame count f -- and the pass
    (`for .. in body.into_iter().enumerate()` or `iter_mut().enumerate().for_each(closure)`) is run over that script.
The result is the emitted word with every jump operand a Lin.  `machine()` then walks the word as a control-flow graph whose nodes are
item boundaries (positions are prefix sums, again Lin), with the frame depth as state, children being balanced black boxes.

Because positions and offsets are exact normal forms, "the jump lands on boundary k" is a syntactic equality.  An offset that is off by
one gives a position equal to no boundary (or to the wrong one), for every value of the block lengths.
"""
import absint
import mir
import seqgen
from absint import Interp, Variant, Opaque, Ptr, Tup, Str, Int, Lin, V, ok, some, NONE, UNIT
from seqgen import Seq, deref_all, CI

NUMSTR = "jumps::NumStr"


class SIter(V):
    """a scripted iterator over a symbolic code sequence"""
    __slots__ = ("kind", "src", "script", "pos", "enum")

    def __init__(self, kind, src, script, pos=0, enum=False):
        self.kind, self.src, self.script, self.pos, self.enum = kind, src, tuple(script), pos, enum

    def __repr__(self):
        return "SIter(%s@%d/%d%s)" % (self.kind, self.pos, len(self.script), ",enum" if self.enum else "")

    def __eq__(self, o):
        return isinstance(o, SIter) and (o.kind, o.src, o.script, o.pos, o.enum) == (self.kind, self.src, self.script, self.pos, self.enum)

    def __hash__(self):
        return hash(("SIter", self.kind, self.pos, self.enum))


# ---- lengths ---------------------------------------------------------------------------------------------------------------------

def base(tag):
    return tag.split(".")[0].split("[")[0]


def item_len(item):
    """length (in instructions) of one item of a word, as a Lin / Int"""
    if item[0] == "code":
        tag = item[1]
        b = base(tag)
        if tag.endswith("[<i]"):
            return Lin({"i": 1}, 0)
        if tag.endswith("[>i]"):
            return Lin({"|%s|" % b: 1, "i": -1}, -1)
        return Lin({"|%s|" % b: 1}, 0)
    return Int(1, "usize")


def add(a, b):
    la, lb = Lin.of(a), Lin.of(b)
    return la.add(lb)


def positions(word):
    """start position of every item and the end position (len(word)+1 entries)"""
    out = [Int(0, "usize")]
    for it in word:
        out.append(add(out[-1], item_len(it)))
    return out


def show_item(x):
    if x[0] == "code":
        return "<%s>" % x[1]
    if x[0] == "ins":
        a = x[3] if len(x) > 3 and x[3] else ()
        return x[1] + "".join(" " + show_arg(v) for v in a)
    return "!" + str(x[1])


def show_arg(v):
    if isinstance(v, (Lin, Int)):
        return repr(v).rstrip("usizeint") if isinstance(v, Int) else repr(v)
    if isinstance(v, Str):
        return repr(v.s)
    if isinstance(v, Opaque) and v.tag.startswith("str:"):
        t = v.tag[4:]
        return "$" + (t.split("#")[-1] if t.startswith("loopreg#") else ("name" if "Named" in t else t[:12]))
    return "_"


def show(word):
    return " ".join(show_item(x) for x in word)


# ---- values <-> items --------------------------------------------------------------------------------------------------------------

def _reg(it, item):
    r = it.__dict__.setdefault("jreg", [])
    r.append(item)
    return len(r) - 1


def _ins_vi(it):
    vs = it.variant_names(CI)
    return vs.index("Instruction")


def value_of_item(it, item):
    """an abstract CompiledItem value standing for an already emitted item (instruction or code chunk): matches as `Instruction`"""
    return Variant(CI, _ins_vi(it), "Instruction", [Opaque("item:%d" % _reg(it, item)), Opaque("item-args")])


def arg_value(it, p, v):
    v = deref_all(it, p, v)
    if isinstance(v, Variant) and v.adt == NUMSTR:
        return v.fields[0]
    if isinstance(v, (Str, Int, Lin)):
        return v
    if isinstance(v, Opaque) and v.tag.startswith("str:"):
        return v
    return Opaque("arg")


def item_of(it, p, v):
    v = deref_all(it, p, v)
    if isinstance(v, Variant) and v.adt == CI:
        if v.name == "Instruction":
            idv = deref_all(it, p, v.fields[0]) if v.fields else None
            if isinstance(idv, Opaque) and idv.tag.startswith("item:"):
                return it.jreg[int(idv.tag[5:])]
            nm = idv.tag[3:].split(".")[0] if isinstance(idv, Opaque) and idv.tag.startswith("op:") else ("#%s" % idv.v if isinstance(idv, Int) else "?")
            args = ()
            if len(v.fields) > 1:
                a = deref_all(it, p, v.fields[1])
                if isinstance(a, Tup):
                    args = tuple(arg_value(it, p, x) for x in a.fields)
                elif isinstance(a, Seq):
                    args = tuple(x[1] if (isinstance(x, tuple) and x and x[0] == "val") else Opaque("arg") for x in a.items)
            return ("ins", nm, len(args), args)
        if v.name in ("Break", "Continue"):
            f = deref_all(it, p, v.fields[0]) if v.fields else Opaque("f")
            return ("item", v.name, f)
        return ("item", v.name)
    if isinstance(v, Variant) and v.adt == NUMSTR:
        return ("val", v.fields[0])
    if isinstance(v, (Str, Lin, Int)):
        return ("val", v)
    return ("?", seqgen.tag_of(it, p, v))


def as_seq(it, p, v):
    v = deref_all(it, p, v)
    if isinstance(v, Seq):
        return v
    if isinstance(v, Tup):
        return Seq([item_of(it, p, x) for x in v.fields])
    return None


# ---- models ------------------------------------------------------------------------------------------------------------------------

def _compile_model(it, p, fid, fn, t, args):
    recv = deref_all(it, p, args[0])
    if isinstance(recv, Opaque):
        p.events.append(("compile", recv.tag))
        return ok(Seq([("code", recv.tag)]))
    return NotImplemented


def _vec_push(it, p, fid, fn, t, args):
    cur = as_seq(it, p, args[0])
    if cur is None:
        return NotImplemented
    seqgen._write_back(it, p, args[0], Seq(cur.items + (item_of(it, p, args[1]),)))
    return UNIT


def _vec_extend_slice(it, p, fid, fn, t, args):
    """`v.extend_from_slice(&[a, b])` with this module's items (operands kept), not seqgen's (operands dropped)"""
    cur, add = as_seq(it, p, args[0]), as_seq(it, p, args[1])
    if cur is None or add is None:
        return NotImplemented
    seqgen._write_back(it, p, args[0], Seq(tuple(cur.items) + tuple(add.items)))
    return UNIT


def _poll_register(it, p, fid, fn, t, args):
    """every poll is a different register: number them per path"""
    n = sum(1 for e in p.events if e[0] == "poll")
    p.events.append(("poll", n))
    return Opaque("reg@%d" % n)


def _vec_insert(it, p, fid, fn, t, args):
    cur = as_seq(it, p, args[0])
    idx = deref_all(it, p, args[1])
    if cur is None or not isinstance(idx, Int) or idx.v > len(cur.items):
        return NotImplemented
    items = list(cur.items)
    items.insert(idx.v, item_of(it, p, args[2]))
    seqgen._write_back(it, p, args[0], Seq(items))
    return UNIT


def _vec_append(it, p, fid, fn, t, args):
    sa, sb = as_seq(it, p, args[0]), as_seq(it, p, args[1])
    if sa is None or sb is None:
        return NotImplemented
    seqgen._write_back(it, p, args[0], Seq(sa.items + sb.items))
    seqgen._write_back(it, p, args[1], Seq(()))
    return UNIT


def _vec_len(it, p, fid, fn, t, args):
    s = as_seq(it, p, args[0])
    if s is None:
        return NotImplemented
    n = Int(0, "usize")
    for x in s.items:
        n = add(n, item_len(x))
    return n


def _to_string(it, p, fid, fn, t, args):
    v = deref_all(it, p, args[0])
    if isinstance(v, (Lin, Int)) and getattr(v, "ty", "") not in ("bool", "char"):
        return Variant(NUMSTR, 0, "NumStr", [v])
    if isinstance(v, Str):
        return v
    # the text of something opaque (a register, a name): keep its identity so that two uses of the same thing can be told to be the same
    return Opaque("str:" + (v.tag if isinstance(v, Opaque) else repr(v))[:80])


def _try_into(it, p, fid, fn, t, args):
    v = deref_all(it, p, args[0])
    if isinstance(v, (Lin, Int)):
        return ok(v)
    return NotImplemented


def _arith(sign):
    def model(it, p, fid, fn, t, args):
        a, b = Lin.of(deref_all(it, p, args[0])), Lin.of(deref_all(it, p, args[1]))
        if a is None or b is None:
            return NotImplemented
        return a.add(b, sign)
    return model


def _num_from(v):
    """usize::from(bool) / isize::from(u8) ...: the number itself"""
    if isinstance(v, Int):
        return Int(int(v.v), "usize") if v.ty == "bool" else v
    if isinstance(v, Lin):
        return v
    return NotImplemented


def _unit(it, p, fid, fn, t, args):
    return UNIT


def _script_for(it, items):
    """split the sequence into scripted elements [(start index, abstract value)]"""
    cfg = getattr(it, "jcfg", None) or {}
    expand, x = cfg.get("expand", "body"), cfg.get("x")
    out = []
    pos = Int(0, "usize")
    for item in items:
        if item[0] == "code" and base(item[1]) == expand and x is not None and "[" not in item[1]:
            a = ("code", item[1] + "[<i]")
            b = ("code", item[1] + "[>i]")
            out.append((pos, value_of_item(it, a)))
            pos = add(pos, item_len(a))
            vs = it.variant_names(CI)
            out.append((pos, Variant(CI, vs.index(x), x, [Lin({"f": 1}, 0)])))
            pos = add(pos, Int(1, "usize"))
            out.append((pos, value_of_item(it, b)))
            pos = add(pos, item_len(b))
        elif item[0] == "item" and item[1] in ("Break", "Continue"):
            vs = it.variant_names(CI)
            out.append((pos, Variant(CI, vs.index(item[1]), item[1], [item[2]])))
            pos = add(pos, Int(1, "usize"))
        else:
            out.append((pos, value_of_item(it, item)))
            pos = add(pos, item_len(item))
    return out


def _into_iter(it, p, fid, fn, t, args):
    v = deref_all(it, p, args[0])
    if isinstance(v, SIter):
        return v
    s = as_seq(it, p, args[0])
    if s is None:
        return NotImplemented
    return SIter("into", None, _script_for(it, s.items))


def _iter_mut(it, p, fid, fn, t, args):
    a = args[0]
    s = as_seq(it, p, a)
    if s is None or not isinstance(a, Ptr):
        return NotImplemented
    # the pointer may be the result of deref_mut (a copy of the &mut Vec): keep the innermost pointer that holds the Seq
    q = a
    while isinstance(q, Ptr):
        nxt = it.deref(p, q)
        if isinstance(nxt, Ptr):
            q = nxt
        else:
            break
    return SIter("mut", q, _script_for(it, s.items))


def _slice_iter(it, p, fid, fn, t, args):
    """slice::iter over a collection given as a tuple of abstract elements: a script of (index, element)"""
    v = deref_all(it, p, args[0])
    if isinstance(v, Tup):
        return SIter("into", None, [(Int(k, "usize"), x) for k, x in enumerate(v.fields)])
    return NotImplemented


def _rev(it, p, fid, fn, t, args):
    v = deref_all(it, p, args[0])
    if not isinstance(v, SIter) or v.pos != 0:
        return NotImplemented
    if v.enum:
        return SIter(v.kind, v.src, tuple(reversed(v.script)), 0, True)
    if all(isinstance(i, Int) for i, _ in v.script):     # indices are handed out by a later enumerate(): renumber
        vals = [x for _, x in reversed(v.script)]
        return SIter(v.kind, v.src, [(Int(k, "usize"), x) for k, x in enumerate(vals)], 0, False)
    return NotImplemented


def _enumerate(it, p, fid, fn, t, args):
    v = deref_all(it, p, args[0])
    if isinstance(v, SIter):
        return SIter(v.kind, v.src, v.script, v.pos, True)
    return NotImplemented


def _next(it, p, fid, fn, t, args):
    v = deref_all(it, p, args[0])
    if not isinstance(v, SIter) or v.kind != "into":
        return NotImplemented
    if v.pos >= len(v.script):
        return NONE
    idx, val = v.script[v.pos]
    seqgen._write_back(it, p, args[0], SIter(v.kind, v.src, v.script, v.pos + 1, v.enum))
    return some(Tup([idx, val]) if v.enum else val)


def _for_each(it, p, fid, fn, t, args):
    v = deref_all(it, p, args[0])
    cl = deref_all(it, p, args[1])
    if not isinstance(v, SIter) or not isinstance(cl, absint.Closure) or v.kind != "mut":
        return NotImplemented
    g = it.lookup_fn(cl.defn)
    if g is None:
        return NotImplemented
    slots = []
    arglists = []
    for k, (idx, val) in enumerate(v.script[v.pos:]):
        loc = -1000 - k
        p.frames[fid][loc] = val
        slots.append(loc)
        ptr = Ptr(fid, loc, ())
        arglists.append([cl, Tup([idx, ptr]) if v.enum else ptr])
    src = v.src

    def fin(it2, p2):
        items = tuple(item_of(it2, p2, p2.frames[fid].get(l)) for l in slots)
        if isinstance(src, Ptr):
            it2.write_place(p2, src.fid, {"l": src.local, "p": [list(x) for x in src.proj]}, Seq(items))
        return UNIT
    return ("enter_seq", g, arglists, fin)


def _fresh_loop_register(it, p, fid, fn, t, args):
    st = p.frames.setdefault(-1, {})
    k = st.get("loopreg", 0)
    st["loopreg"] = k + 1
    return Opaque("loopreg#%d" % k)


MODELS = {
    "compiler::ast::CompilationState::poll_loop_register": _fresh_loop_register,
    "compiler::ast::Compile::compile": _compile_model,
    "alloc::vec::Vec::push": _vec_push,
    "alloc::vec::Vec::extend_from_slice": _vec_extend_slice,
    "compiler::ast::CompilationState::poll_temporary_register": _poll_register,
    "alloc::vec::Vec::insert": _vec_insert,
    "alloc::vec::Vec::append": _vec_append,
    "alloc::vec::Vec::len": _vec_len,
    "alloc::vec::Vec::reserve_exact": _unit,
    "alloc::vec::Vec::reserve": _unit,
    "alloc::string::ToString::to_string": _to_string,
    "core::convert::TryInto::try_into": _try_into,
    "core::convert::TryFrom::try_from": _try_into,
    "core::convert::Into::into": lambda it, p, fid, fn, t, args: (deref_all(it, p, args[0]) if isinstance(deref_all(it, p, args[0]), (Lin, Int)) else NotImplemented),
    "core::convert::From::from": lambda it, p, fid, fn, t, args: _num_from(deref_all(it, p, args[0])),
    "core::ops::arith::Sub::sub": _arith(-1),
    "core::ops::arith::Add::add": _arith(1),
    "core::iter::traits::collect::IntoIterator::into_iter": _into_iter,
    "core::slice::<impl [T]>::iter_mut": _iter_mut,
    "core::slice::<impl [T]>::iter": _slice_iter,
    "core::iter::traits::iterator::Iterator::enumerate": _enumerate,
    "core::iter::traits::iterator::Iterator::rev": _rev,
    "core::iter::traits::iterator::Iterator::next": _next,
    "core::iter::traits::iterator::Iterator::for_each": _for_each,
}


def words(F, fn, args, x=None, expand="body", max_paths=4096, extra_models=None):
    """[{word, kind, assume}] for every path of the generator fn(args); x in (None, 'Break', 'Continue') picks the generic element."""
    models = dict(absint.DEFAULT_MODELS)
    models.update(seqgen.MODELS)
    models.update(MODELS)
    if extra_models:
        models.update(extra_models)
    it = Interp(F, models=models, max_depth=5, max_paths=max_paths, loop_bound=16)
    it.jcfg = {"expand": expand, "x": x}
    it.jreg = []
    outs = it.run(fn, args)
    rows = []
    for o in outs:
        v = o.value
        word = None
        if o.kind == "return" and isinstance(v, Variant) and v.adt == "core::result::Result" and v.name == "Ok":
            inner = v.fields[0]
            if isinstance(inner, Seq):
                word = inner.items
            elif isinstance(inner, Tup):       # `Ok(vec![..])` returned directly
                word = tuple(item_of(it, None, x) if not isinstance(x, Ptr) else ("?", "ptr") for x in inner.fields)
        rows.append({"word": word, "kind": o.kind, "value": v, "assume": o.assume, "data_dep": o.data_dep})
    return rows, it.exhausted


# ---- the word as a control-flow graph ------------------------------------------------------------------------------------------------

OPEN = {"else_stmt": 1}
CLOSE = {"done": 1}


def find_boundary(pos, target):
    for k, q in enumerate(pos):
        d = Lin.of(target).add(Lin.of(q), -1)
        if isinstance(d, Int) and d.v == 0:
            return k
    return None


def machine(word, x_index=None, x_depth=None):
    """Walk the word.  Returns (edges, problems, end_depths).
    state: (boundary index, depth Lin).  code chunks are balanced black boxes, except that the generic element X sits `x_depth` frames deep
    relative to the start of the chunk it was cut from (x_depth = f - 1: the contract of scopes_since_loop)."""
    pos = positions(word)
    n = len(word)
    problems = []
    seen = {}
    edges = []
    end_depths = set()
    work = [(0, Int(0, "isize"))]

    def dep_add(d, k):
        return Lin.of(d).add(Lin.of(k))
    while work:
        k, d = work.pop()
        if k in seen:
            if seen[k] != d:
                problems.append(("depth", k, "position %s is reached with frame depth %s and %s" % (pos[k], seen[k], d)))
            continue
        seen[k] = d
        if k == n:
            end_depths.add(d)
            continue
        x = word[k]
        succ = []
        if x[0] == "code":
            nd = d
            if x[1].endswith("[<i]") and x_depth is not None:
                nd = dep_add(d, x_depth)        # from the chunk start down to X
            succ.append((k + 1, nd, "seq"))
        elif x[0] == "item":
            problems.append(("placeholder", k, "an unrewritten %s placeholder is left in the word" % x[1]))
            continue
        elif x[0] == "ins":
            nm = x[1]
            a = x[3] if len(x) > 3 else ()
            nd = d
            if k == x_index and x_depth is not None and nm not in ("jmp_pop", "jmp"):
                nd = dep_add(d, Lin.of(x_depth).scale(-1))   # a normal X: the rest of the chunk climbs back up
            if nm in ("if_stmt", "while_loop"):
                tgt = jump_target(pos, k, a, 0, problems, nm)
                if tgt is not None:
                    succ.append((tgt, d, "false"))
                succ.append((k + 1, dep_add(d, Int(1)), "true"))
            elif nm == "jmp":
                tgt = jump_target(pos, k, a, 0, problems, nm)
                if tgt is not None:
                    succ.append((tgt, d, "jump"))
            elif nm == "jmp_pop":
                tgt = jump_target(pos, k, a, 0, problems, nm)
                pops = a[1] if len(a) > 1 else Int(1)
                if Lin.of(pops) is None:
                    problems.append(("operand", k, "jmp_pop frame count is not a number: %r" % (pops,)))
                    pops = Int(1)
                if tgt is not None:
                    succ.append((tgt, dep_add(d, Lin.of(pops).scale(-1)), "jump"))
            elif nm in OPEN:
                succ.append((k + 1, dep_add(d, Int(1)), "seq"))
            elif nm in CLOSE:
                succ.append((k + 1, dep_add(d, Int(-1)), "seq"))
            else:
                succ.append((k + 1, nd, "seq"))
        else:
            problems.append(("unknown", k, "item %r" % (x,)))
            continue
        for (k2, d2, how) in succ:
            edges.append((k, k2, how, d2))
            work.append((k2, d2))
    return pos, edges, problems, end_depths, seen


def jump_target(pos, k, args, ai, problems, nm):
    if len(args) <= ai or Lin.of(args[ai]) is None:
        problems.append(("operand", k, "%s at position %s has no numeric offset operand" % (nm, pos[k])))
        return None
    tgt = Lin.of(pos[k]).add(Lin.of(args[ai]))
    b = find_boundary(pos, tgt)
    if b is None:
        problems.append(("landing", k, "%s at position %s jumps by %s to %s, which is not the start of an item of this word nor its end "
                         "(inside a sub-block, or outside the code)" % (nm, pos[k], args[ai], tgt)))
    return b
