"""Mutation self-test: apply each canned edit in mutants/<ID>/*.patch to a scratch
copy of the current tree (outside /repo and /verif), re-extract facts with a
dependency-primed target directory, run the property's analysis and require
that it reports a *new* violation whose key contains the `# expect:` string.

usage: python3 analysis/selftest.py [ID ...] [--keep]
"""
import glob
import json
import os
import shutil
import subprocess
import sys
import time

HERE = os.path.dirname(os.path.abspath(__file__))
VERIF = os.path.dirname(HERE)
sys.path.insert(0, HERE)

SCRATCH = os.environ.get("VERIF_SCRATCH", "/tmp/mscript-selftest")


def sh(cmd, **kw):
    return subprocess.run(cmd, capture_output=True, text=True, **kw)


def header(patch):
    h = {"expect": [], "property": None, "configs": ["default"], "silent": False}
    for line in open(patch):
        if not line.startswith("#"):
            break
        line = line[1:].strip()
        if line.startswith("expect:"):
            h["expect"].append(line[len("expect:"):].strip())
        elif line.startswith("expect-silent"):
            h["silent"] = True
        elif line.startswith("expect-fail-closed"):
            h["fail_closed"] = True          # the check has to stop with exit 2 (a floor / missing anchor), without a VIOLATION line
        elif line.startswith("property:"):
            h["property"] = line[len("property:"):].strip()
        elif line.startswith("what:"):
            h["what"] = line[len("what:"):].strip()
        elif line.startswith("tier:"):
            h["tier"] = line[len("tier:"):].strip()
    return h


def sync_repo(repo_src, dst):
    os.makedirs(dst, exist_ok=True)
    r = sh(["rsync", "-a", "--delete", "--exclude", "target", "--exclude", ".git", "--exclude", "out",
            repo_src.rstrip("/") + "/", dst + "/"])
    if r.returncode != 0:
        raise RuntimeError(r.stderr)


def main(argv):
    import extract
    ids = [a for a in argv if not a.startswith("--")]
    patches = []
    for d in sorted(glob.glob(os.path.join(VERIF, "mutants", "*"))):
        pid = os.path.basename(d)
        if ids and pid not in ids:
            continue
        for p in sorted(glob.glob(os.path.join(d, "*.patch"))):
            patches.append((pid, p))
    if not patches:
        print("no mutants selected")
        return 0
    repo_src = os.environ.get("MSCRIPT_REPO", "/repo")
    scratch_repo = os.path.join(SCRATCH, "repo")
    target = os.path.join(SCRATCH, "target")
    facts0 = os.path.join(SCRATCH, "facts0")
    shutil.rmtree(SCRATCH, ignore_errors=True)
    os.makedirs(facts0)
    results = []
    try:
        t0 = time.time()
        sync_repo(repo_src, scratch_repo)
        r = extract.run_mscan(scratch_repo, "default", facts0, target_dir=target)
        if r.returncode != 0:
            print("selftest: priming build failed\n" + r.stderr[-2000:])
            return 2
        extract.run_gramdump(scratch_repo, facts0)
        print("selftest: primed in %.1fs" % (time.time() - t0))
        for pid, p in patches:
            h = header(p)
            name = os.path.relpath(p, os.path.join(VERIF, "mutants"))
            if h.get("tier", "quick") != "quick":
                # decided by a non-default build configuration: `MUT_TIER=thorough bin/mutcheck <patch> <ID>`
                results.append({"mutant": name, "status": "skipped", "why": "%s-tier mutant (this self-test runs the quick tier)" % h["tier"]})
                print("  %-45s %-12s %s" % (name, "skipped", results[-1]["why"]), flush=True)
                continue
            t1 = time.time()
            ap = sh(["patch", "-p1", "-s", "--no-backup-if-mismatch", "-i", p], cwd=scratch_repo)
            if ap.returncode != 0:
                results.append({"mutant": name, "status": "skipped", "why": "patch does not apply: " + (ap.stdout + ap.stderr)[-300:]})
                print("  %-45s %-12s %s" % (name, "skipped", results[-1]["why"][:200].replace("\n", " ")), flush=True)
                sync_repo(repo_src, scratch_repo)
                continue
            facts = os.path.join(SCRATCH, "facts")
            shutil.rmtree(facts, ignore_errors=True)
            shutil.copytree(facts0, facts)
            r = extract.run_mscan(scratch_repo, "default", facts, target_dir=target)
            status = None
            why = ""
            if r.returncode != 0:
                status, why = "skipped", "mutant does not compile: " + r.stderr[-400:]
            else:
                extract.run_gramdump(scratch_repo, facts)
                with open(os.path.join(facts, "OK"), "w") as fh:
                    fh.write("{}")
                env = dict(os.environ)
                env["VERIF_FACTS_DIR"] = facts
                env["VERIF_EVIDENCE_DIR"] = os.path.join(SCRATCH, "evidence")
                env["MSCRIPT_REPO"] = scratch_repo
                props = [h["property"] or pid]
                out = ""
                try:
                    os.remove(os.path.join(SCRATCH, "evidence", props[0] + ".json"))
                except OSError:
                    pass
                rcs = []
                for prop in props:
                    rr = sh([sys.executable, os.path.join(HERE, "runner.py"), prop, "--tier", "quick"], env=env)
                    out += rr.stdout + rr.stderr
                    rcs.append(rr.returncode)
                try:
                    ev = json.load(open(os.path.join(SCRATCH, "evidence", props[0] + ".json")))
                    newv = ev["coverage"].get("new_violations", [])
                except Exception as e:  # noqa: BLE001
                    newv = []
                    why = "no evidence: %s %s" % (e, out[-300:])
                hit = [k for k in newv if any(x in k for x in h["expect"])] if h["expect"] else newv
                if h.get("fail_closed"):
                    if newv:
                        status, why = "fired", newv[0]
                    elif any(rc == 2 for rc in rcs):
                        status, why = "fired", "failed closed (exit 2): " + " ".join(l for l in out.split("\n") if "FLOOR-NOT-MET" in l or "ANCHOR-MISSING" in l)[:160]
                    else:
                        status, why = "MISSED", out[-300:]
                elif h["silent"]:
                    if newv:
                        status, why = "MISSED", "FALSE ALARM on a behaviour-preserving change: %s" % newv[:3]
                    else:
                        status, why = "fired", "silent on a behaviour-preserving change (as required)"
                elif hit:
                    status, why = "fired", hit[0]
                elif newv:
                    status, why = "fired-other", "expected %s, got %s" % (h["expect"], newv[:3])
                else:
                    status = "MISSED"
                    why = why or out[-300:]
            # revert (updates mtimes so the crate is rebuilt next time)
            rv = sh(["patch", "-R", "-p1", "-s", "--no-backup-if-mismatch", "-i", p], cwd=scratch_repo)
            if rv.returncode != 0:
                sync_repo(repo_src, scratch_repo)
            results.append({"mutant": name, "status": status, "why": why, "wall_s": round(time.time() - t1, 1)})
            print("  %-45s %-12s %s" % (name, status, why[:150]))
    finally:
        if "--keep" not in argv:
            shutil.rmtree(SCRATCH, ignore_errors=True)
    n_f = sum(1 for r in results if r["status"] == "fired")
    n_o = sum(1 for r in results if r["status"] == "fired-other")
    n_m = sum(1 for r in results if r["status"] == "MISSED")
    n_s = sum(1 for r in results if r["status"] == "skipped")
    print("selftest: %d mutants: %d fired, %d fired on another rule, %d missed, %d skipped" % (len(results), n_f, n_o, n_m, n_s))
    out = os.environ.get("VERIF_SELFTEST_OUT")
    if out:
        with open(out, "w") as fh:
            json.dump(results, fh, indent=1)
    return 1 if n_m else 0


if __name__ == "__main__":
    sys.exit(main(sys.argv[1:]))
