"""Record a repaired defect: known_findings.json `fixed`, DESIGN §9.2 row, mkmanifest FIX_COMMITS, regression mutant (the reverted commit).

usage: python3 analysis/recordfix.py < spec.json
spec: {"property","commit","key","what","witness","expect","mutant","title","design","paths"(optional list limiting the reverted diff)}
"""
import json, os, re, subprocess, sys
VERIF = os.path.dirname(os.path.dirname(os.path.abspath(__file__)))
sp = json.load(sys.stdin)
h = sp["commit"]
p = os.path.join(VERIF, "known_findings.json")
k = json.load(open(p))
k["fixed"].append({"property": sp["property"], "commit": h, "key": sp["key"], "what": sp["what"], "witness": sp["witness"]})
json.dump(k, open(p, "w"), indent=1)
d = os.path.join(VERIF, "DESIGN.md")
s = open(d).read()
rows = [l for l in s.split("\n") if re.match(r"^\| \d+ \| ", l)]
last = rows[-1]
n = int(re.match(r"^\| (\d+) \|", last).group(1)) + 1
s = s.replace(last, last + "\n| %d | %s | %s | fix %s |" % (n, sp["title"], sp["design"], h))
open(d, "w").write(s)
m = os.path.join(VERIF, "analysis", "mkmanifest.py")
s = open(m).read()
mm = re.search(r'FIX_COMMITS = \[(.*)\]', s)
s = s.replace(mm.group(0), 'FIX_COMMITS = [' + mm.group(1) + ', "%s"]' % h)
open(m, "w").write(s)
diff = subprocess.run(["git", "-C", "/repo", "diff", h, h + "~1", "--"] + sp.get("paths", []), capture_output=True, text=True).stdout
mp = os.path.join(VERIF, "mutants", sp["property"], sp["mutant"])
open(mp, "w").write("# property: %s\n# what: (regression of fix %s) %s\n# expect: %s\n" % (sp["property"], h, sp["mutant_what"], sp["expect"]) + diff)
print("defect #%d recorded; mutant %s" % (n, mp))
