"""R-GRAM part A — the grammar as child-sequence automata.

From the pest_meta dump (engine/gramdump) build, for every token-producing rule R, an NFA over the names of token-producing rules
that accepts exactly the sequences `Node::children()` can yield for a node of rule R:

  * silent rules (`_{..}`) are inlined; built-ins other than EOI produce no token; strings, ranges and predicates produce no token;
  * an atomic rule (`@{..}`) has no children: every rule called inside it is atomic too, unless it is explicitly non-atomic (`!{..}`);
    compound-atomic (`${..}`) and normal rules produce their inner tokens;
  * PEG ordered choice is treated as unordered and repetition as unbounded: every alternative is assumed reachable (stated assumption: a
    completely shadowed alternative would be reported although it cannot be produced).

States are global integers.  API: Grammar(path).start(rule) -> frozenset(states); step(states) -> {symbol: frozenset(states)};
accepting(states) -> bool; symbols_ahead(states) -> all symbols on any path; last_symbols(states); exactly_one(states).
"""
import json

BUILTIN_NO_TOKEN = {"ANY", "SOI", "NEWLINE", "ASCII_DIGIT", "ASCII_HEX_DIGIT", "ASCII_BIN_DIGIT", "ASCII_ALPHANUMERIC", "ASCII_ALPHA", "ASCII",
                    "ASCII_NONZERO_DIGIT", "ASCII_OCT_DIGIT", "ASCII_ALPHA_LOWER", "ASCII_ALPHA_UPPER", "PEEK", "POP", "DROP", "PEEK_ALL", "POP_ALL"}


class Grammar:
    def __init__(self, path):
        with open(path) as fh:
            d = json.load(fh)
        self.rules = {r["name"]: r for r in d["rules"]}
        self.trans = {}      # state -> [(symbol|None, state)]
        self.n = 0
        self._start = {}
        self._accept = {}
        self._closure = {}
        for name, r in self.rules.items():
            if r["ty"] == "silent":
                continue
            s, e = self._new(), self._new()
            if r["ty"] == "atomic":
                self._eps(s, e)
            else:
                self._build(r["expr"], s, e, atomic=False, stack=(name,))
            self._start[name] = s
            self._accept[name] = e

    # ---- construction --------------------------------------------------------------------------
    def _new(self):
        self.n += 1
        self.trans[self.n] = []
        return self.n

    def _eps(self, a, b):
        self.trans[a].append((None, b))

    def _build(self, e, s, t, atomic, stack):
        k = e["k"]
        if k in ("str", "insens", "range", "negpred", "pospred", "push", "skip"):
            self._eps(s, t)
        elif k == "ident":
            v = e["v"]
            if v == "EOI":
                self.trans[s].append(("EOI", t))
            elif v in BUILTIN_NO_TOKEN or v not in self.rules:
                self._eps(s, t)
            else:
                r = self.rules[v]
                if r["ty"] == "silent":
                    if stack.count(v) >= 2:
                        self._eps(s, t)      # recursive silent rule: cut (does not occur in this grammar)
                    else:
                        self._build(r["expr"], s, t, atomic, stack + (v,))
                elif atomic and r["ty"] != "nonatomic":
                    self._eps(s, t)
                else:
                    self.trans[s].append((v, t))
        elif k == "seq":
            m = self._new()
            self._build(e["a"], s, m, atomic, stack)
            self._build(e["b"], m, t, atomic, stack)
        elif k == "choice":
            self._build(e["a"], s, t, atomic, stack)
            self._build(e["b"], s, t, atomic, stack)
        elif k == "opt":
            self._eps(s, t)
            self._build(e["e"], s, t, atomic, stack)
        elif k in ("rep", "rep_once", "rep_min", "rep_max", "rep_min_max", "rep_exact"):
            m = self._new()
            self._eps(s, m)
            self._build(e["e"], m, m, atomic, stack)
            self._eps(m, t)
        else:
            raise ValueError("unknown grammar expression kind %r" % k)

    # ---- queries -----------------------------------------------------------------------------------
    def closure(self, states):
        key = frozenset(states)
        if key in self._closure:
            return self._closure[key]
        seen = set(key)
        st = list(key)
        while st:
            x = st.pop()
            for sym, y in self.trans[x]:
                if sym is None and y not in seen:
                    seen.add(y)
                    st.append(y)
        r = frozenset(seen)
        self._closure[key] = r
        return r

    def token_rules(self):
        return set(self._start)

    def start(self, rule):
        return self.closure([self._start[rule]])

    def accept_state(self, rule):
        return self._accept[rule]

    def accepting(self, states):
        acc = set(self._accept.values())
        return any(s in acc for s in self.closure(states))

    def step(self, states):
        out = {}
        for s in self.closure(states):
            for sym, y in self.trans[s]:
                if sym is not None:
                    out.setdefault(sym, set()).add(y)
        return {k: self.closure(v) for k, v in out.items()}

    def reachable(self, states):
        seen = set(self.closure(states))
        st = list(seen)
        while st:
            x = st.pop()
            for sym, y in self.trans[x]:
                if y not in seen:
                    seen.add(y)
                    st.append(y)
        return frozenset(seen)

    def symbols_ahead(self, states):
        out = set()
        for s in self.reachable(states):
            for sym, y in self.trans[s]:
                if sym is not None:
                    out.add(sym)
        return out

    def last_symbols(self, states):
        """Symbols that can be the last element of a sequence accepted from `states`."""
        out = set()
        for s in self.reachable(states):
            for sym, y in self.trans[s]:
                if sym is not None and self.accepting([y]):
                    out.add(sym)
        return out

    def exactly_one(self, states):
        """Every sequence accepted from `states` has exactly one element."""
        if self.accepting(states):
            return False
        for sym, nxt in self.step(states).items():
            if self.step(nxt):
                # a second element is possible -- unless no accepting state is reachable that way
                for s2, n2 in self.step(nxt).items():
                    if any(self.accepting([x]) for x in self.reachable(n2)):
                        return False
            if not self.accepting(nxt):
                # after one element the sequence cannot end here; ok only if it cannot end at all (dead)
                if any(self.accepting([x]) for x in self.reachable(nxt)):
                    return False
        return True

    def root(self, rule):
        """States of a synthetic parent whose only child is one `rule` node (what Parser::parse(rule, ..) yields)."""
        key = "<root:%s>" % rule
        if key not in self._start:
            a, b = self._new(), self._new()
            self.trans[a].append((rule, b))
            self._start[key] = a
            self._accept[key] = b
            self._closure = {}
        return self.closure([self._start[key]])

    def children_of(self, rule):
        return self.symbols_ahead(self.start(rule))
