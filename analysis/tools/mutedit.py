"""Make or rebase a mutant patch from string edits against /repo's HEAD files (no scratch build; scratch dir removed).

  python3 analysis/tools/mutedit.py new <out.patch> <property> <expect-rule | expect-silent> <what>   < edits.py
  python3 analysis/tools/mutedit.py rebase <existing.patch>                                           < edits.py

edits.py defines  edits = [dict(file=..., old=..., new=..., n=1), ...]  (python literals; raw triple-quoted strings are fine).
`rebase` keeps the `# ` header lines of the existing patch and replaces its body.
"""
import os, shutil, subprocess, sys, tempfile
mode = sys.argv[1]
ns = {}
exec(sys.stdin.read(), ns)
edits = ns["edits"]
if mode == "new":
    out, prop, expect, what = sys.argv[2:6]
    hdr = "# property: %s\n# what: %s\n%s\n" % (prop, what, "# expect-silent" if expect == "expect-silent" else "# expect: " + expect)
else:
    out = sys.argv[2]
    hdr = "\n".join(l for l in open(out).read().split("\n") if l.startswith("# ")) + "\n"
d = tempfile.mkdtemp(prefix="/tmp/mutedit.")
try:
    for f in sorted(set(e["file"] for e in edits)):
        a = open("/repo/" + f).read()
        b = a
        for e in edits:
            if e["file"] != f:
                continue
            assert b.count(e["old"]) == e.get("n", 1), (f, e["old"][:60], b.count(e["old"]))
            b = b.replace(e["old"], e["new"])
        for side, txt in (("a", a), ("b", b)):
            os.makedirs(os.path.dirname(os.path.join(d, side, f)), exist_ok=True)
            open(os.path.join(d, side, f), "w").write(txt)
    r = subprocess.run(["diff", "-ruN", "a", "b"], cwd=d, capture_output=True, text=True).stdout
    r = "\n".join(l for l in r.split("\n") if not l.startswith("diff -ruN"))
    open(out, "w").write(hdr + r)
    print("wrote", out)
finally:
    shutil.rmtree(d)
