import sys; sys.path.insert(0,'/verif/analysis')
import core, importlib
pid=sys.argv[1]; pat=sys.argv[2] if len(sys.argv)>2 else ''
mod=importlib.import_module('props.'+pid)
c=core.Ctx('quick'); r=core.Report(pid,'quick')
mod.run(c,r)
for o in r.obligations:
    if pat in o['rule'] or pat in o['key']:
        print(o['status'],'|',o['key'],'|',o['instance'][:110],'|',str(o['detail'])[:230])
print(r.floors)
