"""Views over the MIR facts emitted by engine/mscan (resolved callees, CFG,
dominators, def-use, derivation).  No property logic here."""
import json
import os
import re
from collections import defaultdict, deque


def strip_generics(s):
    """Remove `::<...>` turbofish segments and lifetimes from a def path."""
    out = []
    depth = 0
    i = 0
    n = len(s)
    while i < n:
        if s.startswith("::<", i) and not s.startswith("::<impl ", i):
            # skip balanced <...>
            j = i + 3
            d = 1
            while j < n and d > 0:
                if s[j] == "<":
                    d += 1
                elif s[j] == ">" and s[j - 1] != "-":
                    d -= 1
                j += 1
            i = j
            continue
        out.append(s[i])
        i += 1
    return "".join(out)


_IMPL_RE = re.compile(r"^<(.+) as ([^<>]+(?:<.*>)?)>::([A-Za-z0-9_]+)$")
_INHERENT_IMPL_RE = re.compile(r"^(.*)::<impl ([^<>]+)>::([A-Za-z0-9_#]+)(.*)$")
_LOCAL_IMPL_RE = re.compile(r"^(.*)::<impl (.+) for (.+)>::([A-Za-z0-9_]+)(.*)$")


def name_forms(path):
    """All normalised spellings under which a callee path may be matched."""
    forms = set()
    if not path:
        return forms
    forms.add(path)
    p = strip_generics(path)
    forms.add(p)
    if "r#" in p:
        forms.add(p.replace("r#", ""))
    m = _IMPL_RE.match(path)
    if m:
        selfty, trait, meth = m.group(1), m.group(2), m.group(3)
        trait_ng = re.sub(r"<.*>$", "", trait)
        forms.add("%s::%s" % (trait_ng, meth))
        forms.add("<%s as %s>::%s" % (selfty, trait_ng, meth))
        forms.add("%s::%s" % (strip_generics(selfty).lstrip("&").replace("mut ", ""), meth))
    mi = _INHERENT_IMPL_RE.match(p)
    if mi and " for " not in mi.group(2):
        forms.add("%s::%s%s" % (mi.group(2), mi.group(3), mi.group(4)))
    m = _LOCAL_IMPL_RE.match(path)
    if m:
        trait, selfty, meth, rest = m.group(2), m.group(3), m.group(4), m.group(5)
        trait_ng = re.sub(r"<.*>$", "", trait)
        forms.add("<%s as %s>::%s%s" % (selfty, trait_ng, meth, rest))
        if not rest:
            forms.add("%s::%s" % (trait_ng, meth))
    return forms


def short(path):
    """Human-readable short form: last two segments, generics stripped."""
    p = strip_generics(path)
    mi = _INHERENT_IMPL_RE.match(p)
    if mi and " for " not in mi.group(2):
        return "%s::%s%s" % (mi.group(2).split("::")[-1], mi.group(3), mi.group(4))
    m = _LOCAL_IMPL_RE.match(p)
    if m:
        tr = m.group(2).split("::")[-1]
        st = m.group(3).split("::")[-1]
        amp = "&" if m.group(3).startswith("&") else ""
        return "<%s%s as %s>::%s%s" % (amp, st, tr, m.group(4), m.group(5))
    m = re.match(r"^<(.+) as (.+)>::(.+)$", p)
    if m:
        a = m.group(1)
        amp = "&" if a.startswith("&") else ""
        return "<%s%s as %s>::%s" % (amp, a.split("::")[-1], m.group(2).split("::")[-1], m.group(3))
    segs = p.split("::")
    return "::".join(segs[-2:]) if len(segs) >= 2 else p


class Call:
    __slots__ = ("fn", "bb", "t", "names", "args", "dst", "target", "defn", "res")

    def __init__(self, fn, bb, t):
        self.fn = fn
        self.bb = bb
        self.t = t
        f = t["func"]
        self.defn = f.get("def")
        self.res = f.get("res")
        self.names = name_forms(self.defn) | name_forms(self.res)
        self.args = t["args"]
        self.dst = t["dst"]
        self.target = t["target"]

    @property
    def is_ptr(self):
        return "ptr" in self.t["func"]

    @property
    def macros(self):
        return self.t.get("mc") or []

    @property
    def span(self):
        return self.t.get("us") or self.t.get("sp")

    def callee(self):
        """Best (most resolved) callee path."""
        return self.res or self.defn or "<fnptr>"

    def matches(self, pats):
        if isinstance(pats, str):
            pats = (pats,)
        for p in pats:
            if p in self.names:
                return True
        return False

    def __repr__(self):
        return "Call(bb%d %s)" % (self.bb, short(self.callee()))


def op_place(op):
    if op is None:
        return None
    if "copy" in op:
        return op["copy"]
    if "move" in op:
        return op["move"]
    return None


def op_local(op):
    p = op_place(op)
    return p["l"] if p else None


def op_const(op):
    return op.get("const") if op else None


def place_has_deref(p):
    return any(e[0] == "deref" for e in p.get("p", []))


def rvalue_operands(rv):
    """Yield (operand-or-place, is_place) mentioned by an rvalue."""
    if "use" in rv:
        yield rv["use"]
    elif "repeat" in rv:
        yield rv["repeat"]
    elif "ref" in rv:
        yield {"copy": rv["ref"]}
    elif "rawptr" in rv:
        yield {"copy": rv["rawptr"]}
    elif "cast" in rv:
        yield rv["op"]
    elif "bin" in rv:
        yield rv["l"]
        yield rv["r"]
    elif "un" in rv:
        yield rv["op"]
    elif "discr" in rv:
        yield {"copy": rv["discr"]}
    elif "agg" in rv:
        for o in rv["ops"]:
            yield o


class Fn:
    def __init__(self, d, crate):
        self.d = d
        self.crate = crate
        self.path = d["path"]
        self.kind = d["kind"]
        self.blocks = d["blocks"]
        self.locals = d["locals"]
        self.argc = d["argc"]
        self.names = {int(k): v for k, v in d.get("names", {}).items()}
        self._succ = None
        self._pred = None
        self._dom = None
        self._calls = None
        self._cj = None
        self.forms = name_forms(self.path)

    @property
    def span(self):
        return self.d.get("span")

    # ---- CFG ------------------------------------------------------------
    def term(self, b):
        return self.blocks[b]["t"]

    def succs(self, b):
        if self._succ is None:
            self._succ = []
            for blk in self.blocks:
                t = blk["t"]
                k = t["k"]
                if k == "goto":
                    s = [t["target"]]
                elif k == "switch":
                    s = [x[1] for x in t["targets"]] + [t["otherwise"]]
                elif k in ("call",):
                    s = [t["target"]] if t["target"] is not None else []
                elif k in ("drop", "assert"):
                    s = [t["target"]]
                else:
                    s = []
                self._succ.append(s)
        return self._succ[b]

    def preds(self, b):
        if self._pred is None:
            self._pred = [[] for _ in self.blocks]
            for i in range(len(self.blocks)):
                for s in self.succs(i):
                    self._pred[s].append(i)
        return self._pred[b]

    def _const_jump(self, b):
        """If block b assigns a constant to a bool local and falls (goto) into a block that only
        switches on that local, return (switch_block, taken_successor): the `matches!`/`&&`/`||`
        lowering `_x = const; goto s; s: switchInt(_x)` is followed precisely."""
        if self._cj is None:
            self._cj = {}
            for i, blk in enumerate(self.blocks):
                t = blk["t"]
                if t["k"] != "goto":
                    continue
                s = t["target"]
                sb = self.blocks[s]
                st = sb["t"]
                if st["k"] != "switch" or sb["s"]:
                    continue
                d = op_local(st["discr"])
                if d is None:
                    continue
                val = None
                for stt in blk["s"]:
                    if "d" in stt and stt["d"]["l"] == d and not stt["d"].get("p"):
                        k = op_const(stt["rv"].get("use")) if "use" in stt["rv"] else None
                        val = k.get("int") if k and "int" in k else None
                if val is None:
                    continue
                tgt = dict(st["targets"]).get(val, st["otherwise"])
                self._cj[i] = (s, tgt)
        return self._cj.get(b)

    def reachable(self, start=0, removed_edges=(), removed_blocks=()):
        """Blocks reachable from `start` avoiding the given edges/blocks."""
        removed_edges = set(removed_edges)
        removed_blocks = set(removed_blocks)
        seen = set()
        starts = [start] if isinstance(start, int) else list(start)
        dq = deque(s for s in starts if s not in removed_blocks)
        seen.update(dq)
        while dq:
            b = dq.popleft()
            cj = self._const_jump(b)
            if cj is not None and (b, cj[0]) not in removed_edges and cj[0] not in removed_blocks:
                sw, tgt = cj
                if (sw, tgt) not in removed_edges and tgt not in removed_blocks and tgt not in seen:
                    seen.add(tgt)
                    dq.append(tgt)
                continue
            for s in self.succs(b):
                if (b, s) in removed_edges or s in removed_blocks or s in seen:
                    continue
                seen.add(s)
                dq.append(s)
        return seen

    def can_reach(self, targets, removed_edges=(), removed_blocks=()):
        """Blocks from which some block in `targets` is reachable."""
        targets = set(targets)
        removed_edges = set(removed_edges)
        removed_blocks = set(removed_blocks)
        seen = set(t for t in targets if t not in removed_blocks)
        dq = deque(seen)
        while dq:
            b = dq.popleft()
            for p in self.preds(b):
                if (p, b) in removed_edges or p in removed_blocks or p in seen:
                    continue
                seen.add(p)
                dq.append(p)
        return seen

    def dominators(self):
        """dom[b] = set of blocks dominating b (reachable blocks only)."""
        if self._dom is None:
            reach = self.reachable(0)
            order = sorted(reach)
            dom = {b: set(order) for b in order}
            dom[0] = {0}
            changed = True
            while changed:
                changed = False
                for b in order:
                    if b == 0:
                        continue
                    ps = [p for p in self.preds(b) if p in reach]
                    if not ps:
                        continue
                    new = set.intersection(*(dom[p] for p in ps)) | {b}
                    if new != dom[b]:
                        dom[b] = new
                        changed = True
            self._dom = dom
        return self._dom

    def dominates(self, a, b):
        d = self.dominators()
        return b in d and a in d[b]

    # ---- calls ----------------------------------------------------------
    def calls(self):
        if self._calls is None:
            self._calls = []
            for i, blk in enumerate(self.blocks):
                t = blk["t"]
                if t["k"] == "call":
                    self._calls.append(Call(self, i, t))
        return self._calls

    def calls_to(self, pats):
        return [c for c in self.calls() if c.matches(pats)]

    def return_blocks(self):
        return [i for i, b in enumerate(self.blocks) if b["t"]["k"] == "return"]

    def panic_blocks(self):
        """Blocks ending in a diverging call (panic) or `unreachable`."""
        out = []
        for i, b in enumerate(self.blocks):
            t = b["t"]
            if t["k"] == "call" and t["target"] is None:
                out.append(i)
        return out

    # ---- statements -------------------------------------------------------
    def stmts(self):
        for bi, blk in enumerate(self.blocks):
            for si, s in enumerate(blk["s"]):
                yield bi, si, s

    def assigns(self):
        for bi, si, s in self.stmts():
            if "d" in s:
                yield bi, si, s["d"], s["rv"], s

    # ---- derivation (forward) ---------------------------------------------
    def derived(self, seeds, through_call=None, field_sensitive=False):
        """Forward closure of locals whose value derives from `seeds`.

        seeds: iterable of local indices.  A local becomes derived when it is
        assigned an rvalue mentioning a derived local, or is the destination
        of a call accepted by `through_call(call, derived_arg_indices)`.
        Returns dict local -> parity (True = same polarity, False = negated,
        None = not boolean-tracked)."""
        der = {}
        for s in seeds:
            der[s] = True
        changed = True
        assigns = list(self.assigns())
        calls = self.calls()
        while changed:
            changed = False
            for bi, si, dst, rv, s in assigns:
                dl = dst["l"]
                srcs = [op_local(o) for o in rvalue_operands(rv)]
                hit = [x for x in srcs if x is not None and x in der]
                if not hit:
                    continue
                pol = der[hit[0]]
                if "un" in rv and rv["un"] == "Not":
                    pol = (not pol) if pol is not None else None
                if "bin" in rv:
                    # comparison with a constant keeps track: Eq with false flips
                    pol = None if rv["bin"] not in ("Eq", "Ne") else pol
                    c = op_const(rv["r"]) or op_const(rv["l"])
                    if pol is not None and c is not None and "int" in c:
                        v = c["int"] not in ("0",)
                        if rv["bin"] == "Eq":
                            pol = pol if v else (not pol)
                        else:
                            pol = (not pol) if v else pol
                    else:
                        pol = None
                if dl not in der:
                    der[dl] = pol
                    changed = True
            for c in calls:
                idx = [i for i, a in enumerate(c.args) if op_local(a) in der]
                if not idx:
                    continue
                dl = c.dst["l"]
                if dl in der:
                    continue
                r = through_call(c, idx) if through_call else None
                if r is None or r is False:
                    continue
                pol = der[op_local(c.args[idx[0]])]
                if r == "not":
                    pol = (not pol) if pol is not None else None
                der[dl] = pol
                changed = True
        return der

    def local_name(self, l):
        return self.names.get(l, "_%d" % l)


class Crate:
    def __init__(self, d):
        self.d = d
        self.name = d["crate"]
        self.fns = [Fn(f, self.name) for f in d["fns"]]
        self.by_path = {}
        for f in self.fns:
            self.by_path[f.path] = f
        self.adts = {a["path"]: a for a in d["adts"]}
        self.impls = d["impls"]


class Facts:
    def __init__(self, directory, names=None, fallback=None):
        self.dir = directory
        self.crates = {}
        for d in ([directory] + ([fallback] if fallback else [])):
            for fn in sorted(os.listdir(d)):
                if not fn.endswith(".json") or fn == "grammar.json":
                    continue
                key = fn[:-5]
                if names is not None and key not in names:
                    continue
                if key in self.crates:
                    continue        # a crate built in this configuration wins over the default build
                with open(os.path.join(d, fn)) as fh:
                    self.crates[key] = Crate(json.load(fh))
        self._callers = None

    def grammar(self):
        with open(os.path.join(self.dir, "grammar.json")) as fh:
            return json.load(fh)

    def all_fns(self):
        for c in self.crates.values():
            for f in c.fns:
                yield f

    def fn(self, path, crate=None):
        """Exact def-path lookup; returns None when absent."""
        for k, c in self.crates.items():
            if crate and k != crate:
                continue
            f = c.by_path.get(path)
            if f:
                return f
        cands = self.find(path, crate)
        if len(cands) == 1:
            return cands[0]
        return None

    def find(self, pat, crate=None):
        """All functions one of whose name forms equals `pat`."""
        out = []
        for k, c in self.crates.items():
            if crate and k != crate:
                continue
            for f in c.fns:
                if pat in f.forms:
                    out.append(f)
        return out

    def adt(self, path):
        for c in self.crates.values():
            if path in c.adts:
                return c.adts[path]
        return None

    def closures_of(self, f):
        out = []
        for g in self.crates[self._crate_key(f)].fns:
            if g.kind == "Closure" and g.path.startswith(f.path + "::{closure"):
                out.append(g)
        return out

    def _crate_key(self, f):
        for k, c in self.crates.items():
            if f in c.fns:
                return k
        raise KeyError(f.path)

    def callers_of(self, pats):
        """All (fn, call) pairs in the analysed crates whose callee matches."""
        if isinstance(pats, str):
            pats = (pats,)
        out = []
        for f in self.all_fns():
            for c in f.calls():
                if c.matches(pats):
                    out.append((f, c))
        return out

    def fn_item_refs(self, pats):
        """Places where a function is mentioned as a value (fn item constant)
        rather than called: it may then be called through a pointer."""
        if isinstance(pats, str):
            pats = (pats,)
        out = []
        for f in self.all_fns():
            for bi, si, s in f.stmts():
                txt = json.dumps(s)
                for p in pats:
                    if '"fn": "%s' % p in txt:
                        out.append((f, bi, p))
            for c in f.calls():
                for a in c.args:
                    k = op_const(a)
                    if k and "fn" in k and (name_forms(k["fn"]) & set(pats)):
                        out.append((f, c.bb, k["fn"]))
        return out

    def call_graph(self):
        """path -> set of callee paths (resolved where possible), local and foreign;
        closures constructed in a body are edges too."""
        if self._callers is None:
            g = defaultdict(set)
            for f in self.all_fns():
                for c in f.calls():
                    if c.res:
                        g[f.path].add(c.res)
                    if c.defn:
                        g[f.path].add(c.defn)
                    for a in c.args:
                        k = op_const(a)
                        if k and "fn" in k:
                            g[f.path].add(k["fn"])
                for bi, si, dst, rv, s in f.assigns():
                    if "agg" in rv and rv["agg"]["k"] in ("closure", "coroutine"):
                        g[f.path].add(rv["agg"]["def"])
                    for o in rvalue_operands(rv):
                        k = op_const(o)
                        if k and "fn" in k:
                            g[f.path].add(k["fn"])
            self._callers = g
        return self._callers

    def reach(self, entry_paths):
        g = self.call_graph()
        seen = set(entry_paths)
        dq = deque(entry_paths)
        while dq:
            p = dq.popleft()
            for q in g.get(p, ()):
                if q not in seen:
                    seen.add(q)
                    dq.append(q)
        return seen
