"""Rule primitives over MIR facts: R-GUARD, R-DOM, R-FLOW (origins), Try handling."""
from collections import deque

import mir
from mir import op_local, op_const, op_place, rvalue_operands

TRY_BRANCH = "core::ops::try_trait::Try::branch"
FROM_RESIDUAL = "core::ops::try_trait::FromResidual::from_residual"

# calls through which a value keeps its identity for the purpose of origin tracking
TRANSPARENT = {
    "core::ops::deref::Deref::deref",
    "core::ops::deref::DerefMut::deref_mut",
    "core::convert::AsRef::as_ref",
    "core::convert::AsMut::as_mut",
    "core::borrow::Borrow::borrow",
    "core::convert::Into::into",
    "core::convert::From::from",
    "core::clone::Clone::clone",
    "alloc::borrow::ToOwned::to_owned",
    "std::path::Path::new",
    "core::option::Option::as_ref",
    "core::option::Option::as_mut",
    "core::option::Option::as_deref",
    "core::result::Result::as_ref",
    "alloc::rc::Rc::new",
    "alloc::boxed::Box::new",
}


def defs_of(fn, local):
    """All definitions of `local` (whole-local or through a projection)."""
    out = []
    for bi, si, dst, rv, s in fn.assigns():
        if dst["l"] == local:
            out.append(("assign", bi, si, dst, rv))
    for c in fn.calls():
        if c.dst["l"] == local:
            out.append(("call", c.bb, None, c.dst, c))
    return out


def origins(fn, local, transparent=TRANSPARENT, _seen=None, follow_fields=True):
    """Backward slice of `local` to its sources.

    Returns a set of tuples: ('arg', i) | ('call', bb) | ('const', repr) |
    ('agg', bb, si) | ('other', bb, si).  Copies, moves, borrows, derefs,
    casts and calls in `transparent` are looked through."""
    if _seen is None:
        _seen = set()
    if local in _seen:
        return set()
    _seen.add(local)
    res = set()
    ds = defs_of(fn, local)
    if not ds:
        if 1 <= local <= fn.argc:
            return {("arg", local)}
        return {("undef", local)}
    if 1 <= local <= fn.argc:
        res.add(("arg", local))
    for d in ds:
        if d[0] == "call":
            c = d[4]
            if c.matches(tuple(transparent)) and c.args:
                l = op_local(c.args[0])
                if l is not None:
                    res |= origins(fn, l, transparent, _seen)
                else:
                    k = op_const(c.args[0])
                    res.add(("const", repr(sorted(k.items())) if k else "?"))
            else:
                res.add(("call", c.bb))
        else:
            _, bi, si, dst, rv = d
            if "use" in rv or "ref" in rv or "rawptr" in rv or "cast" in rv:
                op = rv.get("use") or rv.get("op")
                if "ref" in rv:
                    pl = rv["ref"]
                elif "rawptr" in rv:
                    pl = rv["rawptr"]
                else:
                    pl = op_place(op)
                l = pl["l"] if pl else None
                if l is not None:
                    sub = _agg_component(fn, pl)
                    if sub is not None:
                        sl = op_local(sub)
                        if sl is not None:
                            res |= origins(fn, sl, transparent, _seen)
                        else:
                            k = op_const(sub)
                            res.add(("const", k.get("str", k.get("int", k.get("fn", k.get("txt", "?")))) if k else "?"))
                    else:
                        res |= origins(fn, l, transparent, _seen)
                else:
                    k = op_const(op)
                    res.add(("const", k.get("str", k.get("int", k.get("fn", k.get("txt", "?")))) if k else "?"))
            elif "agg" in rv:
                res.add(("agg", bi, si))
            else:
                res.add(("other", bi, si))
    return res


def _agg_component(fn, place):
    """If `place` is `base.<field i>...` and `base` is defined once by a tuple
    aggregate, return the operand stored in component i (field-sensitive step)."""
    proj = place.get("p") or []
    if not proj or proj[0][0] != "field":
        return None
    ds = defs_of(fn, place["l"])
    if len(ds) != 1 or ds[0][0] != "assign":
        return None
    rv = ds[0][4]
    if "agg" in rv and rv["agg"]["k"] == "tuple":
        i = proj[0][1]
        if i < len(rv["ops"]):
            return rv["ops"][i]
    return None


def blocks_calling(fn, pred, start_blocks, removed_blocks=()):
    """Calls satisfying pred reachable from start_blocks (R-DOM NoCallAfterFailure)."""
    reach = fn.reachable(list(start_blocks), removed_blocks=removed_blocks)
    return [c for c in fn.calls() if c.bb in reach and pred(c)]


def origin_calls(fn, local, transparent=TRANSPARENT):
    """The Call objects among the origins of `local`."""
    by_bb = {c.bb: c for c in fn.calls()}
    return [by_bb[o[1]] for o in origins(fn, local, transparent) if o[0] == "call"]


def try_edges(fn, call):
    """For `r = call(..)?`: return (continue_block, break_block) of the
    `Try::branch` + discriminant switch consuming the call's destination, or
    None if the result is not consumed by `?` directly."""
    dl = call.dst["l"]
    for c in fn.calls():
        if c.matches(TRY_BRANCH) and c.args and op_local(c.args[0]) == dl and c.target is not None:
            # next: _d = discriminant(dst); switch
            sw = find_discr_switch(fn, c.target, c.dst["l"])
            if sw is None:
                return None
            t = fn.term(sw)
            cont = brk = None
            for v, tgt in t["targets"]:
                if v == "0":
                    cont = tgt
                elif v == "1":
                    brk = tgt
            return (cont, brk, sw)
    return None


def find_discr_switch(fn, start_bb, local):
    """Follow gotos from start_bb to the switch on discriminant(local)."""
    b = start_bb
    for _ in range(4):
        blk = fn.blocks[b]
        t = blk["t"]
        if t["k"] == "switch":
            dl = op_local(t["discr"])
            for s in blk["s"]:
                if "d" in s and s["d"]["l"] == dl and "discr" in s["rv"] and s["rv"]["discr"]["l"] == local:
                    return b
            return None
        if t["k"] == "goto":
            b = t["target"]
            continue
        return None
    return None


def discr_switches(fn, derived):
    """Switch blocks whose operand is discriminant(p) with p's base local in `derived`.
    Returns list of (bb, local, {variant_index(str): target}, otherwise)."""
    out = []
    for bi, blk in enumerate(fn.blocks):
        t = blk["t"]
        if t["k"] != "switch":
            continue
        dl = op_local(t["discr"])
        if dl is None:
            continue
        for s in blk["s"]:
            if "d" in s and s["d"]["l"] == dl and not s["d"].get("p") and "discr" in s["rv"]:
                base = s["rv"]["discr"]["l"]
                if base in derived:
                    out.append((bi, base, {v: tg for v, tg in t["targets"]}, t["otherwise"]))
    return out


def bool_switches(fn, derived):
    """Switch blocks on a bool local in `derived` (dict local->polarity).
    Returns list of (bb, true_target, false_target, polarity)."""
    out = []
    for bi, blk in enumerate(fn.blocks):
        t = blk["t"]
        if t["k"] != "switch" or t.get("dty") != "bool":
            continue
        dl = op_local(t["discr"])
        if dl is None or dl not in derived:
            continue
        f_t = None
        for v, tg in t["targets"]:
            if v == "0":
                f_t = tg
        t_t = t["otherwise"]
        if f_t is None:
            continue
        out.append((bi, t_t, f_t, derived[dl]))
    return out


def guarded_by_bool(fn, target_blocks, source_locals, want=True, through_call=None):
    """R-GUARD (plain form).  Every path from entry to any block in
    `target_blocks` crosses a bool switch on a value derived from
    `source_locals`, on the edge where the source predicate == `want`.

    Returns (verdict, info): verdict in {'ok','violated','undecided'}."""
    der = fn.derived(source_locals, through_call=through_call)
    sws = bool_switches(fn, der)
    if not sws:
        return "violated", {"reason": "no branch on a value derived from the predicate", "switches": []}
    removed = set()
    undec = False
    for bb, t_t, f_t, pol in sws:
        if pol is None:
            undec = True
            continue
        passing_is_true = (pol == want)
        passing = t_t if passing_is_true else f_t
        removed.add((bb, passing))
    if not removed:
        return "undecided", {"reason": "polarity of the derived test could not be tracked"}
    reach = fn.reachable(0, removed_edges=removed)
    bad = [b for b in target_blocks if b in reach]
    info = {"switches": [s[0] for s in sws], "unguarded_targets": bad}
    if bad:
        if undec:
            return "undecided", info
        return "violated", info
    return "ok", info


def edge_dominated(fn, block, edges):
    """True if every path from entry to `block` uses one of `edges`."""
    reach = fn.reachable(0, removed_edges=set(edges))
    return block not in reach


def call_dominates(fn, a_calls, b_block):
    """Some call in a_calls is on every path from entry to b_block
    (strictly: the call's *continuation* edge)."""
    edges = set()
    for c in a_calls:
        if c.target is not None:
            edges.add((c.bb, c.target))
    return edge_dominated(fn, b_block, edges)


def place_base_chain(fn, local, depth=12):
    """Follow `x = &y` / `x = copy y` / `x = move y` back to the root local
    (no calls)."""
    cur = local
    for _ in range(depth):
        ds = defs_of(fn, cur)
        if len(ds) != 1 or ds[0][0] != "assign":
            return cur
        rv = ds[0][4]
        if "ref" in rv:
            cur = rv["ref"]["l"]
        elif "use" in rv and op_local(rv["use"]) is not None:
            cur = op_local(rv["use"])
        else:
            return cur
    return cur


def closure_def_of_arg(fn, op):
    """If the operand is a closure value built in this body, return its def path."""
    l = op_local(op)
    if l is None:
        return None
    l = place_base_chain(fn, l)
    for d in defs_of(fn, l):
        if d[0] == "assign" and "agg" in d[4] and d[4]["agg"]["k"] == "closure":
            return d[4]["agg"]["def"]
    # zero-sized closures may appear as constants
    k = op_const(op)
    if k and "closure" in k.get("ty", ""):
        return k["ty"]
    return None


def promoted_literals(fn, idx):
    """String / int literals appearing in promoted body `idx` of `fn`."""
    out = []
    try:
        p = fn.d["promoted"][idx]
    except (IndexError, KeyError):
        return out
    for blk in p["blocks"]:
        for s in blk["s"]:
            if "rv" not in s:
                continue
            for o in rvalue_operands(s["rv"]):
                k = op_const(o)
                if k:
                    if "str" in k:
                        out.append(("str", k["str"]))
                    elif "int" in k:
                        out.append(("int", k["int"], k["ty"]))
    return out


def literal_of(fn, op, depth=6):
    """Resolve an operand to the literals it denotes (through refs, derefs and
    promoted constants).  Returns list of ('str', s) | ('int', v, ty)."""
    k = op_const(op)
    if k is not None:
        if "str" in k:
            return [("str", k["str"])]
        if "int" in k:
            return [("int", k["int"], k["ty"])]
        if "promoted" in k:
            return promoted_literals(fn, k["promoted"])
        return []
    l = op_local(op)
    if l is None or depth == 0:
        return []
    out = []
    for d in defs_of(fn, l):
        if d[0] != "assign":
            continue
        rv = d[4]
        if "use" in rv:
            out += literal_of(fn, rv["use"], depth - 1)
        elif "ref" in rv:
            out += literal_of(fn, {"copy": {"l": rv["ref"]["l"]}}, depth - 1)
        elif "cast" in rv:
            out += literal_of(fn, rv["op"], depth - 1)
    return out


def trace_paths(fn, local, transparent=TRANSPARENT, _depth=0, _seen=None):
    """Like origins(), but also records the field names projected on the way:
    returns a set of (origin, (field, ...)) with fields outermost-first."""
    if _seen is None:
        _seen = set()
    if local in _seen or _depth > 24:
        return set()
    _seen = _seen | {local}
    out = set()
    ds = defs_of(fn, local)
    if 1 <= local <= fn.argc:
        out.add((("arg", local), ()))
    if not ds and not (1 <= local <= fn.argc):
        return {(("undef", local), ())}
    for d in ds:
        if d[0] == "call":
            c = d[4]
            if c.matches(tuple(transparent)) and c.args and op_local(c.args[0]) is not None:
                out |= trace_paths(fn, op_local(c.args[0]), transparent, _depth + 1, _seen)
            else:
                out.add((("call", c.bb), ()))
            continue
        rv = d[4]
        pl = None
        if "ref" in rv:
            pl = rv["ref"]
        elif "rawptr" in rv:
            pl = rv["rawptr"]
        elif "use" in rv:
            pl = op_place(rv["use"])
        elif "cast" in rv:
            pl = op_place(rv["op"])
        if pl is None:
            if "agg" in rv:
                out.add((("agg", d[1], d[2]), ()))
            elif "use" in rv or "cast" in rv:
                k = op_const(rv.get("use") or rv.get("op")) or {}
                out.add((("const", k.get("str", k.get("int", k.get("fn", k.get("txt", "?"))))), ()))
            else:
                out.add((("other", d[1], d[2]), ()))
            continue
        fields = tuple(e[2] if e[0] == "field" else ("@" + e[1]) for e in (pl.get("p") or []) if e[0] in ("field", "downcast"))
        sub = _agg_component(fn, pl)
        if sub is not None and op_local(sub) is not None:
            inner = trace_paths(fn, op_local(sub), transparent, _depth + 1, _seen)
            fields = fields[1:]
        else:
            inner = trace_paths(fn, pl["l"], transparent, _depth + 1, _seen)
        for (o, fs) in inner:
            out.add((o, fs + fields))
    return out


def find_try_dst(fn, call):
    """Destination local of the Try::branch that consumes `call`'s result."""
    dl = call.dst["l"]
    for c in fn.calls():
        if c.matches(TRY_BRANCH) and c.args and op_local(c.args[0]) == dl:
            return c.dst["l"]
    return None


def chain_locals(fn, local, depth=12):
    """All locals on the single-definition copy/move/borrow chain ending at `local`."""
    out = [local]
    cur = local
    for _ in range(depth):
        ds = defs_of(fn, cur)
        if len(ds) != 1 or ds[0][0] != "assign":
            break
        rv = ds[0][4]
        if "ref" in rv:
            cur = rv["ref"]["l"]
        elif "use" in rv and op_local(rv["use"]) is not None:
            cur = op_local(rv["use"])
        else:
            break
        out.append(cur)
    return out


def fmt_template_pieces(txt):
    """Decode a core::fmt template constant (as printed by rustc: b"...") into
    a list of literal pieces and '{}' placeholders.  Returns None if `txt` is
    not such a constant."""
    import ast
    if not (txt.startswith('b"') or txt.startswith("b'")):
        return None
    try:
        raw = ast.literal_eval(txt)
    except Exception:  # noqa: BLE001
        return None
    out = []
    i = 0
    n = len(raw)
    while i < n:
        b = raw[i]
        i += 1
        if b == 0:
            break
        if b < 0x80:
            out.append(raw[i:i + b].decode("utf-8", "replace"))
            i += b
        elif b == 0x80:
            ln = raw[i] | (raw[i + 1] << 8)
            out.append(raw[i + 2:i + 2 + ln].decode("utf-8", "replace"))
            i += 2 + ln
        else:
            skip = (4 if b & 1 else 0) + (2 if b & 2 else 0) + (2 if b & 4 else 0) + (2 if b & 8 else 0)
            i += skip
            out.append("{}")
    return out


def string_literals(fn, include_promoted=True):
    """All string-ish literals in a body: ('str', s, where) and ('fmt', [pieces], where)."""
    out = []

    def scan_body(blocks):
        for blk in blocks:
            for s in blk["s"]:
                if "rv" not in s:
                    continue
                for o in rvalue_operands(s["rv"]):
                    k = op_const(o)
                    if not k:
                        continue
                    if "str" in k:
                        out.append(("str", k["str"], s.get("us") or s.get("sp")))
                    elif "txt" in k and k["ty"].startswith("&[u8;"):
                        p = fmt_template_pieces(k["txt"])
                        if p is not None:
                            out.append(("fmt", p, s.get("us") or s.get("sp")))
            t = blk["t"]
            if t["k"] == "call":
                for a in t["args"]:
                    k = op_const(a)
                    if k and "str" in k:
                        out.append(("str", k["str"], t.get("us") or t.get("sp")))
    scan_body(fn.blocks)
    if include_promoted:
        for p in fn.d.get("promoted", []):
            scan_body(p["blocks"])
    return out


def conditional_guard(fn, cond_type_pred, guard_pats, passing_value, target_blocks, extra_transparent=()):
    """R-GUARD, conditional form.

    `cond_type_pred(ty)` selects the locals holding the looked-up value L (e.g. Option<Ident>).
    Assume L is Some on every discriminant / is_some test of such a local (the other edges are
    removed: paths mixing Some and None on the same looked-up value are infeasible).  A guard is a
    call matching `guard_pats` whose receiver derives from L; its boolean result must equal
    `passing_value` to pass.  Verdict 'violated' if a target is reachable from entry without
    crossing a passing guard edge.

    Returns (verdict, info)."""
    C = {l for l, ty in enumerate(fn.locals) if cond_type_pred(ty)}
    if not C:
        return "undecided", {"reason": "no local of the looked-up type"}
    removed = set()
    n_some = 0

    def place_ty(pl):
        ty = fn.locals[pl["l"]]
        for e in pl.get("p", []):
            if e[0] == "field":
                ty = e[3] if len(e) > 3 else ""
            elif e[0] == "deref":
                ty = ty.lstrip("&").strip()
                if ty.startswith("mut "):
                    ty = ty[4:]
        return ty
    # discriminant tests
    for bi, blk in enumerate(fn.blocks):
        t = blk["t"]
        if t["k"] != "switch":
            continue
        dl = op_local(t["discr"])
        if dl is None:
            continue
        for s in blk["s"]:
            if "d" in s and s["d"]["l"] == dl and not s["d"].get("p") and "discr" in s["rv"]:
                pl = s["rv"]["discr"]
                pty = place_ty(pl)
                if pl["l"] in C and pty.startswith("core::option::Option<") and cond_type_pred(pty) and "(" not in pty.split("<", 1)[0]:
                    some_t = dict(t["targets"]).get("1", t["otherwise"])
                    n_some += 1
                    for tg in set(x[1] for x in t["targets"]) | {t["otherwise"]}:
                        if tg != some_t:
                            removed.add((bi, tg))
    # is_some / is_none tests
    seeds_true = []
    seeds_false = []
    for c in fn.calls():
        if c.args and op_local(c.args[0]) is not None and (set(chain_locals(fn, op_local(c.args[0]))) & C):
            if c.matches("core::option::Option::is_some"):
                seeds_true.append(c.dst["l"])
            elif c.matches("core::option::Option::is_none"):
                seeds_false.append(c.dst["l"])
    for seeds, val in ((seeds_true, True), (seeds_false, False)):
        if not seeds:
            continue
        der = fn.derived(seeds)
        for bb, t_t, f_t, pol in bool_switches(fn, der):
            if pol is None:
                continue
            n_some += 1
            # the test's value is `val` (xor polarity)
            truth = val if pol else (not val)
            removed.add((bb, f_t if truth else t_t))
    # guards
    transparent = set(TRANSPARENT) | {"core::option::Option::unwrap", "core::option::Option::expect", TRY_BRANCH} | set(extra_transparent)
    guard_seeds = []
    for c in fn.calls():
        if not c.matches(tuple(guard_pats)) or not c.args:
            continue
        l = op_local(c.args[0])
        if l is None:
            continue
        tp = trace_locals(fn, l, transparent)
        if tp & C:
            guard_seeds.append(c)
    if not guard_seeds:
        reach = fn.reachable(0, removed_edges=removed)
        bad = [b for b in target_blocks if b in reach]
        return ("violated" if bad and n_some else "undecided"), {"reason": "no guard call on the looked-up value", "some_tests": n_some}
    der = fn.derived([c.dst["l"] for c in guard_seeds])
    n_guard = 0
    for bb, t_t, f_t, pol in bool_switches(fn, der):
        if pol is None:
            continue
        n_guard += 1
        value_on_true = pol      # switch true edge <=> guard result == pol
        passing = t_t if value_on_true == passing_value else f_t
        removed.add((bb, passing))
    # repeated evaluations of the same pure test (e.g. `x.idents.len() == 1` written twice) take the same value:
    # enumerate consistent valuations instead of mixing their edges
    groups = correlated_tests(fn)
    import itertools
    bad = None
    combos = list(itertools.product((True, False), repeat=len(groups))) if len(groups) <= 4 else [()]
    for combo in combos:
        extra = set()
        for val, grp in zip(combo, groups):
            for (bb, t_t, f_t) in grp:
                extra.add((bb, f_t if val else t_t))
        reach = fn.reachable(0, removed_edges=removed | extra)
        b = [x for x in target_blocks if x in reach]
        if b:
            bad = b
            break
    bad = bad or []
    info = {"some_tests": n_some, "guards": [c.bb for c in guard_seeds], "guard_switches": n_guard, "unguarded_targets": bad,
            "correlated_test_groups": len(groups)}
    if not n_some:
        return "undecided", info
    return ("violated" if bad else "ok"), info


def correlated_tests(fn):
    """Groups of bool switches whose condition is `f(recv) == const` for the same pure f, receiver path and constant."""
    sig = {}
    by_dst = {}
    for c in fn.calls():
        by_dst.setdefault(c.dst["l"], []).append(c)
    for bi, blk in enumerate(fn.blocks):
        t = blk["t"]
        if t["k"] != "switch" or t.get("dty") != "bool":
            continue
        dl = op_local(t["discr"])
        f_t = dict(t["targets"]).get("0")
        if dl is None or f_t is None:
            continue
        for d in defs_of(fn, dl):
            if d[0] != "assign" or "bin" not in d[4] or d[4]["bin"] != "Eq":
                continue
            rv = d[4]
            k = op_const(rv["r"]) or op_const(rv["l"])
            o = op_local(rv["l"]) if op_const(rv["r"]) else op_local(rv["r"])
            if k is None or "int" not in k or o is None:
                continue
            cs = by_dst.get(o, [])
            if len(cs) != 1 or not cs[0].matches(("core::slice::<impl [T]>::len", "alloc::vec::Vec::len")) or not cs[0].args:
                continue
            recv = frozenset(trace_paths(fn, op_local(cs[0].args[0]))) if op_local(cs[0].args[0]) is not None else frozenset()
            sig.setdefault((mir.strip_generics(cs[0].callee()), recv, k["int"]), []).append((bi, t["otherwise"], f_t))
    return [g for g in sig.values() if len(g) >= 2]


def trace_locals(fn, local, transparent=TRANSPARENT, _seen=None, _depth=0):
    """All locals on the backward copy/borrow/transparent-call chains of `local` (multi-definition aware)."""
    if _seen is None:
        _seen = set()
    if local in _seen or _depth > 30:
        return _seen
    _seen.add(local)
    for d in defs_of(fn, local):
        if d[0] == "call":
            c = d[4]
            if c.matches(tuple(transparent)) and c.args and op_local(c.args[0]) is not None:
                trace_locals(fn, op_local(c.args[0]), transparent, _seen, _depth + 1)
        else:
            rv = d[4]
            pl = rv.get("ref") or rv.get("rawptr") or (op_place(rv["use"]) if "use" in rv else None) or (op_place(rv["op"]) if "cast" in rv else None)
            if pl is not None:
                trace_locals(fn, pl["l"], transparent, _seen, _depth + 1)
    return _seen


def ok_return_blocks(fn):
    """Blocks that assign `_0 = Ok(..)`."""
    return sorted({bi for bi, si, dst, rv, s in fn.assigns()
                   if dst["l"] == 0 and not dst.get("p") and "agg" in rv and rv["agg"].get("v") == "Ok"})


def fmt_calls(fn):
    """Every `format_args!` with arguments in the body: [(call of Arguments::new, pieces, [arg local of each new_display/new_debug, in order])].

    The template is the byte-string constant reaching args[0]; the arguments are the `[Argument; N]` array aggregate reaching args[1]."""
    out = []
    for c in fn.calls():
        if not c.matches(("core::fmt::Arguments::new",)) or len(c.args) < 2:
            continue
        pieces = None
        for l in chain_locals(fn, op_local(c.args[0])):
            for d in defs_of(fn, l):
                if d[0] == "assign" and "use" in d[4]:
                    k = op_const(d[4]["use"])
                    if k and "txt" in k:
                        pieces = fmt_template_pieces(k["txt"])
        arr = None
        for l in chain_locals(fn, op_local(c.args[1])):
            for d in defs_of(fn, l):
                if d[0] == "assign" and "agg" in d[4] and d[4]["agg"].get("k") == "array":
                    arr = d[4]["ops"]
        if arr is None:
            continue
        args = []
        for o in arr:
            l = op_local(o)
            src = None
            for d in defs_of(fn, l):
                if d[0] == "call" and d[4].args:
                    src = (d[4], op_local(d[4].args[0]))
            args.append(src)
        out.append((c, pieces, args))
    return out


def plain_chain(fn, local, limit=20):
    """Follow copies backwards (uses, reborrows, Try::branch, conversions that keep the number): ('len', call) when the value is the length of a
    list, ('value', None) when it is a plain value nothing was added to, ('computed', what) when arithmetic went into it."""
    KEEP = ("core::ops::try_trait::Try::branch", "anyhow::Context::with_context", "anyhow::Context::context", "core::convert::TryInto::try_into",
            "core::convert::TryFrom::try_from", "core::convert::Into::into", "core::convert::From::from", "core::ops::deref::Deref::deref",
            "core::clone::Clone::clone", "core::result::Result::unwrap", "core::option::Option::unwrap")
    cur = local
    for _ in range(limit):
        ds = defs_of(fn, cur)
        if len(ds) != 1:
            return ("value", None)          # a parameter, or joined from several places: not arithmetic on the spot
        d = ds[0]
        if d[0] == "call":
            c = d[4]
            nm = mir.strip_generics(c.callee())
            if nm.endswith(("Vec::len", "<impl [T]>::len", "VecDeque::len")):
                return ("len", c)
            if c.matches(KEEP) and c.args and op_local(c.args[0]) is not None:
                cur = op_local(c.args[0])
                continue
            return ("value", c)
        rv = d[4]
        if "use" in rv:
            nxt = op_local(rv["use"])
        elif "ref" in rv:
            nxt = rv["ref"]["l"]
        elif "cast" in rv:
            nxt = op_local(rv["op"])
        elif "bin" in rv or "un" in rv:
            return ("computed", rv.get("bin") or rv.get("un"))
        else:
            return ("value", None)
        if nxt is None:
            return ("value", None)
        cur = nxt
    return ("value", None)


def in_range_edges(fn, blocks=None):
    """Edges that are taken only when `index < len` holds for a plain index value and the length of a list: [(bb, target)], and the
    comparisons they belong to."""
    edges, cmps = set(), []
    for bi, si, dst, rv, st in fn.assigns():
        if blocks is not None and bi not in blocks:
            continue
        if rv.get("bin") not in ("Lt", "Le", "Gt", "Ge"):
            continue
        l, r = op_local(rv["l"]), op_local(rv["r"])
        if l is None or r is None:
            continue
        kl, kr = plain_chain(fn, l), plain_chain(fn, r)
        # which edge says index < len
        passing = None
        if kl[0] == "value" and kr[0] == "len":       # index OP len
            passing = {"Lt": True, "Ge": False}.get(rv["bin"])
        elif kl[0] == "len" and kr[0] == "value":     # len OP index
            passing = {"Gt": True, "Le": False}.get(rv["bin"])
        if passing is None:
            continue
        cmps.append((bi, rv["bin"], st.get("sp")))
        for bb, t_t, f_t, pol in bool_switches(fn, fn.derived([dst["l"]])):
            if pol is None:
                continue
            edges.add((bb, t_t if (pol == passing) else f_t))
    return edges, cmps




OP_ADT = "compiler::ast::math_expr::Op"


def _opt_truth(c, idx):
    n = c.callee()
    if n.startswith("core::option::Option::<") and n.endswith(">::is_some"):
        return True
    if n.startswith("core::option::Option::<") and n.endswith(">::is_none"):
        return "not"
    return None


def op_predicate_value(F, name, variant_name):
    """Truth of an Op method on one variant, by evaluation: True / False for a bool, Some / None for an Option; None when not decided."""
    from absint import Interp, Int, Variant
    oa = F.adt(OP_ADT)
    pf = F.fn(name)
    on = [v["name"] for v in oa["variants"]]
    if pf is None or variant_name not in on:
        return None
    outs = Interp(F, max_depth=3, max_paths=64).run(pf, [Variant(OP_ADT, on.index(variant_name), variant_name, [])])
    vals = set()
    for o in outs:
        if o.kind != "return":
            vals.add(None)
        elif isinstance(o.value, Int):
            vals.add(bool(o.value.v))
        elif isinstance(o.value, Variant) and o.value.name in ("Some", "None"):
            vals.add(o.value.name == "Some")
        else:
            vals.add(None)
    return vals.pop() if len(vals) == 1 else None


def storing_operator_conditions(F, ft):
    """How Expr::for_type asks whether the operator of `a op b` stores into a: the calls of methods of Op on the operator (today
    Op::is_op_assign; a helper such as `applied_op().is_some()` is the same question) whose answer a branch is taken on.
    Returns (calls, derived) where `derived` maps each bool local computed from an answer to its polarity."""
    calls = []
    for c in ft.calls():
        n = mir.strip_generics(c.callee())
        if n.startswith(OP_ADT + "::") and c.dst is not None and c.args and op_local(c.args[0]) is not None \
                and "math_expr::Op" in ft.locals[op_local(c.args[0])]:
            der = ft.derived([c.dst["l"]], through_call=_opt_truth)
            # ... and the question is that one: yes for `+=`, no for `+`
            if bool_switches(ft, der) and op_predicate_value(F, n, "AddAssign") is True and op_predicate_value(F, n, "Add") is False:
                calls.append(c)
    der = ft.derived([c.dst["l"] for c in calls], through_call=_opt_truth) if calls else {}
    return calls, der
