"""Runner: loads facts for the current tree, runs the property module, matches
violations against known_findings.json, writes evidence, prints the verdict."""
import importlib
import json
import os
import sys
import time

HERE = os.path.dirname(os.path.abspath(__file__))
VERIF = os.path.dirname(HERE)
sys.path.insert(0, HERE)

import extract  # noqa: E402
import mir  # noqa: E402


from core import AnchorMissing, Report, Ctx  # noqa: E402


def load_known():
    p = os.path.join(VERIF, "known_findings.json")
    if not os.path.exists(p):
        return {"findings": [], "fixed": []}
    with open(p) as fh:
        return json.load(fh)


def run_property(prop, tier):
    t0 = time.time()
    seed = int(os.environ.get("VERIF_SEED", "0") or 0)
    rep = Report(prop, tier)
    ctx = Ctx(tier)
    mod = importlib.import_module("props." + prop)
    status = 0
    fault = None

    def run_one(c, r):
        try:
            mod.run(c, r)
        except AnchorMissing as e:
            return "ANCHOR-MISSING: %s" % e
        except extract.ExtractionError as e:
            return "EXTRACTION-FAILED: %s" % e
        except Exception as e:  # noqa: BLE001  -- an analyser bug is a checker fault, never a property violation
            import traceback
            return "CHECKER-FAULT: %s: %s\n%s" % (type(e).__name__, e, traceback.format_exc()[-1500:])
        return None
    fault = run_one(ctx, rep)
    if tier == "thorough" and not os.environ.get("VERIF_FACTS_DIR"):
        # the same analysis over the other build configurations of the workspace (cargo features change which code exists:
        # checked goto arithmetic in the interpreter, human-readable output in the compiler ...)
        configs = getattr(mod, "THOROUGH_CONFIGS", ["bytecode_debug", "output_hr", "nil_eq"])
        rep.extra["configurations"] = ["default"] + list(configs)
        for cfg in configs:
            r2 = Report(prop, tier)
            f2 = run_one(Ctx(tier, config=cfg), r2)
            if f2 and not fault:
                fault = "[%s] %s" % (cfg, f2)
            for o in r2.obligations:
                o = dict(o)
                # a violation that also exists in the default configuration keeps its key (known findings apply); one that only exists here is new
                base_keys = {x["key"] for x in rep.obligations}
                if o["key"] not in base_keys:
                    o["key"] = "[%s] %s" % (cfg, o["key"])
                    o["instance"] = "[%s] %s" % (cfg, o["instance"])
                    rep.obligations.append(o)
                elif o["status"] == "violated" and not any(x["key"] == o["key"] and x["status"] == "violated" for x in rep.obligations):
                    o["key"] = "[%s] %s" % (cfg, o["key"])
                    o["instance"] = "[%s] %s" % (cfg, o["instance"])
                    rep.obligations.append(o)
            for (n, c, f) in r2.floors:
                rep.floors.append(("[%s] %s" % (cfg, n), c, f))
            rep.analysed_fns |= r2.analysed_fns

    known = load_known()
    known_keys = {}
    for k in known.get("findings", []):
        if k["property"] == prop:
            known_keys[k["key"]] = k
    viol = [o for o in rep.obligations if o["status"] == "violated"]
    new_viol = [o for o in viol if o["key"] not in known_keys]
    matched = [o for o in viol if o["key"] in known_keys]
    floor_fail = [(n, c, f) for (n, c, f) in rep.floors if c < f]

    evdir = os.environ.get("VERIF_EVIDENCE_DIR") or os.path.join(VERIF, "evidence")
    os.makedirs(os.path.join(evdir, "replay"), exist_ok=True)
    lines = []
    seen_known = set()
    for o in matched:
        if o["key"] in seen_known:
            continue
        seen_known.add(o["key"])
        lines.append("KNOWN-FINDING: property=%s %s [%s]" % (prop, known_keys[o["key"]]["what"], o["key"]))
    for i, o in enumerate(new_viol):
        rp = os.path.join("evidence", "replay", "%s-%d.json" % (prop, i))
        with open(os.path.join(evdir, "replay", "%s-%d.json" % (prop, i)), "w") as fh:
            json.dump(o, fh, indent=1)
        lines.append("VIOLATION property=%s replay=%s" % (prop, rp))
        lines.append("  rule=%s instance=%s at %s: %s" % (o["rule"], o["instance"], o.get("where"), o["detail"]))
    if new_viol:
        status = 1
    if fault:
        lines.append(fault)
        status = status or 2
    for (n, c, f) in floor_fail:
        lines.append("FLOOR-NOT-MET: rule %s matched %d instances, expected at least %d (checker fault: the rule has gone blind)" % (n, c, f))
        status = status or 2

    counts = {"ok": 0, "violated": 0, "undecided": 0, "exempt": 0}
    for o in rep.obligations:
        counts[o["status"]] += 1
    decided = counts["ok"] + counts["violated"]
    samples = []
    for st in ("ok", "violated", "undecided", "exempt"):
        for o in [x for x in rep.obligations if x["status"] == st][:4]:
            samples.append({k: o[k] for k in ("rule", "instance", "status", "detail", "where") if o.get(k) is not None})
    distinct = len({o["key"] for o in rep.obligations if o["status"] in ("ok", "violated")})
    ev = {
        "property_id": prop,
        "tier": tier,
        "seed": seed,
        "level": "other",
        "coverage": {
            "explanation": " ".join(rep.explanation) or "static analysis of /repo's MIR",
            "evaluations": len(rep.obligations),
            "distinct_nontrivial": distinct,
            "rule": "one evaluation per rule instance (obligation) enumerated from the resolved program; "
                    "non-trivial = decided ok/violated by the analysis (undecided and exempt instances are not counted); "
                    "distinct = distinct obligation keys",
            "samples": samples,
            "obligations": len(rep.obligations),
            "discharged": counts["ok"],
            "obligation_status": counts,
            "functions_analysed": len(rep.analysed_fns),
            "floors": [{"rule": n, "matched": c, "floor": f} for (n, c, f) in rep.floors],
            "known_findings_matched": sorted(seen_known),
            "new_violations": [o["key"] for o in new_viol],
            "undecided": [o["key"] for o in rep.obligations if o["status"] == "undecided"][:200],
            "exempt": [{"key": o["key"], "reason": o["detail"]} for o in rep.obligations if o["status"] == "exempt"][:200],
            "exhaustive": False,
            "tree": extract.tree_hash(),
        },
        "assumptions": rep.assumptions,
        "wall_s": round(time.time() - t0, 2),
        "violations": len(new_viol),
    }
    ev["coverage"].update(rep.extra)
    if fault:
        ev["coverage"]["fault"] = fault
    with open(os.path.join(evdir, prop + ".json"), "w") as fh:
        json.dump(ev, fh, indent=1)
    for l in lines:
        print(l)
    print("%s: %d obligations: %d ok, %d violated (%d known), %d undecided, %d exempt; %.1fs" % (
        prop, len(rep.obligations), counts["ok"], counts["violated"], len(matched),
        counts["undecided"], counts["exempt"], time.time() - t0))
    return status


def main(argv):
    if len(argv) >= 2 and argv[0] == "--explain":
        with open(os.path.join(VERIF, argv[1]) if not os.path.isabs(argv[1]) else argv[1]) as fh:
            o = json.load(fh)
        print(json.dumps(o, indent=1))
        return 0
    prop = argv[0]
    tier = os.environ.get("VERIF_TIER", "quick")
    if "--tier" in argv:
        tier = argv[argv.index("--tier") + 1]
    return run_property(prop, tier)


if __name__ == "__main__":
    sys.exit(main(sys.argv[1:]))
