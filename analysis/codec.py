"""Codec analysis: read a writer's per-argument output expression and a reader's
per-character transition table out of the MIR by abstract interpretation, then
decide by finite composition whether reading back what was written is the
identity for every argument string over the character classes the code
distinguishes."""
import itertools

import absint
import mir
import rules
from absint import Interp, Int, Str, SStr, Variant, Opaque, Tup, Ptr, TRUE, FALSE, UNIT, some, NONE, sexpr
from mir import op_local, op_const

NEXT = "core::iter::traits::iterator::Iterator::next"


class ShapeChanged(Exception):
    """The writer/reader is no longer in a form the extractor understands (undecided, not a violation)."""


# ---- scripted iterator -------------------------------------------------------------------------
def scripted_next(items):
    def model(it, p, fid, fn, t, args):
        st = p.frames.setdefault(-1, {})
        n = st.get("n", 0)
        st["n"] = n + 1
        if n < len(items):
            return some(items[n])
        return NONE
    return model


def _vec_new(it, p, fid, fn, t, args):
    return Tup(())


def _vec_push(it, p, fid, fn, t, args):
    tgt = args[0] if isinstance(args[0], Ptr) else None
    e = sexpr(it, p, args[1])
    p.events.append(("vecpush", (tgt.fid, tgt.local) if tgt else None, e if e is not None else ("unknown", repr(args[1]))))
    return UNIT


def _len_opaque(it, p, fid, fn, t, args):
    return Opaque("len", "usize")


def _index_ident(it, p, fid, fn, t, args):
    return args[0]


def _arg_iter(kind):
    def model(it, p, fid, fn, t, args):
        e = sexpr(it, p, args[0])
        if e is not None and mentions_arg(e):
            st = p.frames.setdefault(-1, {})
            reg = dict(st.get("iters", {}))
            k = len(reg)
            reg[k] = e
            st = dict(st)
            st["iters"] = reg
            p.frames[-1] = st
            return Opaque("ARGITER:%s:%d" % (kind, k))
        return NotImplemented
    return model


def _iter_quant(which):
    def model(it, p, fid, fn, t, args):
        a = args[0]
        n = 0
        while isinstance(a, Ptr) and n < 6:
            a = it.deref(p, a)
            n += 1
        if isinstance(a, Opaque) and str(a.tag).startswith("ARGITER:") and isinstance(args[1], absint.Closure):
            _, unit, k = a.tag.split(":")
            expr = p.frames.get(-1, {}).get("iters", {}).get(int(k))
            tag = ("quant", which, unit, args[1].defn, expr)
            return ("fork", [(TRUE, (tag, ("value", 1))), (FALSE, (tag, ("value", 0)))])
        return NotImplemented
    return model


def _byte_pred(f):
    def model(it, p, fid, fn, t, args):
        a = args[0]
        n = 0
        while isinstance(a, Ptr) and n < 6:
            a = it.deref(p, a)
            n += 1
        if isinstance(a, Int):
            return absint.mkbool(f(a.v))
        return NotImplemented
    return model


CHAR_PREDICATES = {
    "core::num::<impl u8>::is_ascii_whitespace": _byte_pred(lambda b: b in (0x20, 0x09, 0x0a, 0x0c, 0x0d)),
    "core::char::methods::<impl char>::is_ascii_whitespace": _byte_pred(lambda b: b in (0x20, 0x09, 0x0a, 0x0c, 0x0d)),
    "core::char::methods::<impl char>::is_whitespace": _byte_pred(lambda b: chr(b).isspace() and b not in (0x1c, 0x1d, 0x1e, 0x1f)),
    "core::char::methods::<impl char>::is_ascii": _byte_pred(lambda b: b < 128),
    "core::num::<impl u8>::is_ascii": _byte_pred(lambda b: b < 128),
    "core::char::methods::<impl char>::is_control": _byte_pred(lambda b: b < 0x20 or 0x7f <= b < 0xa0),
    "core::num::<impl u8>::is_ascii_control": _byte_pred(lambda b: b < 0x20 or b == 0x7f),
    "core::char::methods::<impl char>::is_ascii_control": _byte_pred(lambda b: b < 0x20 or b == 0x7f),
    "core::num::<impl u8>::is_ascii_graphic": _byte_pred(lambda b: 0x21 <= b <= 0x7e),
    "core::char::methods::<impl char>::is_ascii_graphic": _byte_pred(lambda b: 0x21 <= b <= 0x7e),
    "core::char::methods::<impl char>::is_alphanumeric": _byte_pred(lambda b: chr(b).isalnum()),
    "core::char::methods::<impl char>::is_ascii_alphanumeric": _byte_pred(lambda b: b < 128 and chr(b).isalnum()),
    "core::num::<impl u8>::is_ascii_alphanumeric": _byte_pred(lambda b: b < 128 and chr(b).isalnum()),
}


def closure_predicate(F, closure_def, unit):
    """Evaluate a `|c| ..` predicate closure on one character (unit 'chars') or one byte ('bytes'): returns f(str_char)->bool."""
    g = F.fn(closure_def)
    if g is None:
        raise ShapeChanged("predicate closure %s not found" % closure_def)
    cache = {}

    def on_unit(v, ty):
        if (v, ty) in cache:
            return cache[(v, ty)]
        it = Interp(F, models=CHAR_PREDICATES, max_depth=2, max_paths=8)
        outs = it.run(g, [absint.Closure(closure_def), Int(v, ty)])
        vals = {o.value.v for o in outs if o.kind == "return" and isinstance(o.value, Int)}
        if len(outs) != 1 or len(vals) != 1:
            raise ShapeChanged("predicate closure is not a decidable function of the character: %r" % (outs,))
        cache[(v, ty)] = bool(vals.pop())
        return cache[(v, ty)]

    def pred(ch):
        if unit == "bytes":
            return any(on_unit(b, "u8") for b in ch.encode("utf-8"))
        return on_unit(ord(ch), "char")
    return pred


COMMON = dict(absint.STRING_MODELS)
COMMON.update({
    "alloc::vec::Vec::new": _vec_new,
    "alloc::vec::Vec::push": _vec_push,
    "core::iter::traits::collect::IntoIterator::into_iter": absint._ident,
    "core::ops::index::Index::index": _index_ident,
    "core::str::<impl str>::chars": absint._ident,
})

def _fmt_arg(kind):
    def model(it, p, fid, fn, t, args):
        e = sexpr(it, p, args[0])
        if e is None:
            v = args[0]
            n = 0
            while isinstance(v, Ptr) and n < 6:
                v = it.deref(p, v)
                n += 1
            e = ("unknown", repr(v)[:40])
        return SStr(("debug", e) if kind == "debug" else e)
    return model


def _fmt_arguments_new(it, p, fid, fn, t, args):
    """core::fmt::Arguments::new(template, &[Argument; N]) -> symbolic concatenation"""
    tv = args[0]
    n = 0
    while isinstance(tv, Ptr) and n < 6:
        tv = it.deref(p, tv)
        n += 1
    txt = None
    if isinstance(tv, Opaque) and str(tv.tag).startswith("const:"):
        txt = tv.tag[len("const:"):]
    pieces = rules_fmt(txt) if txt else None
    av = args[1] if len(args) > 1 else None
    n = 0
    while isinstance(av, Ptr) and n < 6:
        av = it.deref(p, av)
        n += 1
    if pieces is None or not isinstance(av, Tup):
        return NotImplemented
    vals = list(av.fields)
    parts = []
    k = 0
    for pc in pieces:
        if pc == "{}":
            if k >= len(vals):
                return NotImplemented
            e = sexpr(it, p, vals[k])
            parts.append(e if e is not None else ("unknown", repr(vals[k])[:40]))
            k += 1
        else:
            parts.append(("lit", pc))
    return SStr(absint.scat(*parts) if parts else ("lit", ""))


def rules_fmt(txt):
    import rules
    return rules.fmt_template_pieces(txt)


def _fmt_format(it, p, fid, fn, t, args):
    e = sexpr(it, p, args[0])
    return SStr(e) if e is not None else NotImplemented


def _slice_iter(it, p, fid, fn, t, args):
    return Opaque("SLICEITER")


def _iter_map(it, p, fid, fn, t, args):
    a = args[0]
    if isinstance(args[1], absint.Closure):
        st = dict(p.frames.get(-1, {}))
        reg = dict(st.get("maps", {}))
        k = len(reg)
        reg[k] = args[1]
        st["maps"] = reg
        p.frames[-1] = st
        return Opaque("MAPITER:%d" % k)
    return NotImplemented


def _iter_collect(it, p, fid, fn, t, args):
    a = args[0]
    if isinstance(a, Opaque) and str(a.tag).startswith("MAPITER:"):
        cl = p.frames.get(-1, {}).get("maps", {}).get(int(a.tag.split(":")[1]))
        g = it.lookup_fn(cl.defn) if cl is not None else None
        if g is not None:
            # one symbolic element: collect::<String>() of a single mapped element is that element's image
            return ("enter", g, [cl, SStr(("arg", "ARG"))], lambda v: v)
    return NotImplemented


WRITER_MODELS = {
    "core::fmt::rt::Argument::new_display": _fmt_arg("display"),
    "core::fmt::rt::Argument::new_debug": _fmt_arg("debug"),
    "core::fmt::Arguments::new": _fmt_arguments_new,
    "alloc::fmt::format": _fmt_format,
    "core::slice::<impl [T]>::iter": _slice_iter,
    "core::iter::traits::iterator::Iterator::map": _iter_map,
    "core::iter::traits::iterator::Iterator::collect": _iter_collect,
    "core::str::<impl str>::bytes": _arg_iter("bytes"),
    "core::str::<impl str>::chars": _arg_iter("chars"),
    "core::iter::traits::iterator::Iterator::any": _iter_quant("any"),
    "core::iter::traits::iterator::Iterator::all": _iter_quant("all"),
}


# ---- writer ---------------------------------------------------------------------------------------
def writer_table(F, fn, args, acc_hint=None):
    """Abstractly evaluate `fn(args)` with every iterator yielding exactly one
    symbolic element ARG.  Returns list of dicts {assume, appended:[expr], outcome}.

    `appended` is the sequence of expressions appended (String::push/push_str)
    to any accumulator during the path."""
    models = dict(COMMON)
    models.update(WRITER_MODELS)
    models[NEXT] = scripted_next([SStr(("arg", "ARG"))])
    it = Interp(F, models=models, max_depth=3, max_paths=256, loop_bound=3)
    outs = it.run(fn, args)
    rows = []
    for o in outs:
        app = [e[2] for e in o.events if e[0] == "append"]
        rows.append({"assume": o.assume, "appended": app, "kind": o.kind, "value": o.value, "events": o.events})
    if it.exhausted:
        raise ShapeChanged("writer exploration exhausted")
    return rows


def per_arg_expr(row):
    """From the appended sequence of a path that processed exactly one ARG:
    the concatenation of everything appended that precedes/contains ARG."""
    es = row["appended"]
    if any(mentions_arg(e) for e in es):
        return absint.scat(*es) if es else ("lit", "")
    # no accumulator: the record is built by one format!() -- take the returned expression between the id and the terminator
    v = row.get("value")
    e = v.e if isinstance(v, SStr) else None
    if e is None or not mentions_arg(e):
        return None
    parts = list(e[1:]) if e[0] == "cat" else [e]
    while parts and parts[0][0] == "unknown":
        parts.pop(0)
    if parts and parts[-1][0] == "lit" and parts[-1][1] in ("\x00", "\n"):
        parts.pop()
    elif parts and parts[-1][0] == "lit" and parts[-1][1].endswith(("\x00", "\n")):
        parts[-1] = ("lit", parts[-1][1][:-1])
    if not parts or not any(mentions_arg(x) for x in parts):
        return None
    return absint.scat(*parts)


def mentions_arg(e):
    if e[0] == "arg":
        return True
    if e[0] == "cat":
        return any(mentions_arg(x) for x in e[1:])
    if e[0] == "repl":
        return mentions_arg(e[1])
    if e[0] == "debug":
        return mentions_arg(e[1])
    return False


def apply_expr(e, s):
    """Concrete image of argument string `s` under symbolic expression e."""
    if e[0] == "lit":
        return e[1]
    if e[0] == "arg":
        return s
    if e[0] == "cat":
        return "".join(apply_expr(x, s) for x in e[1:])
    if e[0] == "repl":
        return apply_expr(e[1], s).replace(e[2], e[3])
    if e[0] == "debug":
        return rust_str_debug(apply_expr(e[1], s))
    raise ShapeChanged("unknown expression %r" % (e,))


def rust_str_debug(s):
    """`format!("{:?}", s)` for a str: quotes plus char::escape_debug (grapheme-extending and non-printable
    characters become \\u{..})."""
    import unicodedata
    out = ['"']
    for ch in s:
        if ch == "\t":
            out.append("\\t")
        elif ch == "\r":
            out.append("\\r")
        elif ch == "\n":
            out.append("\\n")
        elif ch == "\\":
            out.append("\\\\")
        elif ch == '"':
            out.append('\\"')
        elif ch == "\0":
            out.append("\\0")
        else:
            cat = unicodedata.category(ch)
            if cat in ("Cc", "Cf", "Cs", "Co", "Cn", "Zl", "Zp", "Mn", "Me") or (cat == "Zs" and ch != " "):
                out.append("\\u{%x}" % ord(ch))
            else:
                out.append(ch)
    out.append('"')
    return "".join(out)


def expr_str(e):
    if e[0] == "lit":
        return repr(e[1])
    if e[0] == "arg":
        return "ARG"
    if e[0] == "cat":
        return " + ".join(expr_str(x) for x in e[1:])
    if e[0] == "repl":
        return "%s.replace(%r, %r)" % (expr_str(e[1]), e[2], e[3])
    if e[0] == "debug":
        return "format!(\"{:?}\", %s)" % expr_str(e[1])
    return repr(e)


# ---- reader ---------------------------------------------------------------------------------------
class ReaderTable:
    def __init__(self):
        self.state_vars = []      # local indices
        self.names = []
        self.init = ()            # initial state tuple
        self.delta = {}           # (state, char, buf_empty) -> (state', actions, error)
        self.eof = {}             # (state, buf_empty) -> (tokens_action, error)
        self.classes = []
        self.undecided = []


def reader_table(F, fn, flag_args=None):
    """Transition table of a character-loop reader (one `for c in s.chars()` loop).

    flag_args: {arg_index: Int} fixed parameter values (e.g. multi_target = true)."""
    heads = [c for c in fn.calls() if c.matches(NEXT) and "Chars" in (c.res or "")]
    if len(heads) != 1:
        raise ShapeChanged("expected one character loop, found %d" % len(heads))
    head = heads[0].bb
    loop = fn.reachable(head) & fn.can_reach([head])
    # loop-carried boolean user variables
    state = []
    for l, nm in sorted(fn.names.items()):
        if fn.locals[l] != "bool" or l <= fn.argc:
            continue
        assigned_in_loop = any(dst["l"] == l and not dst.get("p") and bi in loop for bi, si, dst, rv, s in fn.assigns())
        if assigned_in_loop:
            state.append(l)
    if not state:
        raise ShapeChanged("no loop-carried boolean state found")
    # initial values: constants assigned before the loop
    init = {}
    for bi, si, dst, rv, s in fn.assigns():
        if dst["l"] in state and bi not in loop and "use" in rv and op_const(rv["use"]) and "int" in op_const(rv["use"]):
            init[dst["l"]] = int(op_const(rv["use"])["int"])
    if set(init) != set(state):
        raise ShapeChanged("initial value of a state variable is not a constant")
    # character constants the reader distinguishes
    consts = set()
    for blk in fn.blocks:
        t = blk["t"]
        if t["k"] == "switch" and t.get("dty") == "char":
            consts |= {chr(int(v)) for v, _ in t["targets"]}
    for bi, si, dst, rv, s in fn.assigns():
        if "bin" in rv and rv.get("lty") == "char":
            for o in (rv["l"], rv["r"]):
                k = op_const(o)
                if k and "int" in k:
                    consts.add(chr(int(k["int"])))
    # representatives of every class the predicates in use can tell apart: the constants compared against, ASCII and
    # non-ASCII members of char::is_whitespace, a plain ASCII letter, a digit, a non-ASCII letter
    classes = sorted(consts | {" ", "\t", "\n", "\r", "\x0b", "\x0c", "\u0085", "\u00a0", "\u3000", "x", "é", "0"})
    tab = ReaderTable()
    tab.state_vars = state
    tab.names = [fn.names[l] for l in state]
    tab.init = tuple(init[l] for l in state)
    tab.classes = classes
    # accumulators: String locals pushed to; token vector
    str_locals = [l for l, ty in enumerate(fn.locals) if ty == "alloc::string::String" and l in fn.names]
    for st in itertools.product((0, 1), repeat=len(state)):
        for buf_empty in (True, False):
            for ch in classes + [None]:
                models = dict(COMMON)
                models[NEXT] = scripted_next([Int(ord(ch), "char")] if ch is not None else [])

                def is_empty(it, p, fid, fn_, t, args, _be=buf_empty):
                    # the token buffer's emptiness is part of the abstract state; it changes when the path appends/clears
                    tgt = args[0] if isinstance(args[0], Ptr) else None
                    cur = _be
                    for e in p.events:
                        if e[0] == "append" and tgt and e[1] == (tgt.fid, tgt.local):
                            cur = False
                        if e[0] == "clear" and tgt and e[1] == (tgt.fid, tgt.local):
                            cur = True
                    return absint.mkbool(cur)
                models["alloc::string::String::is_empty"] = is_empty
                models["alloc::vec::Vec::is_empty"] = lambda it, p, fid, fn_, t, args: ("fork", [(TRUE, ("tokens-empty", ("value", 1))), (FALSE, ("tokens-empty", ("value", 0)))])
                init_locals = {l: Int(v, "bool") for l, v in zip(state, st)}
                for l in str_locals:
                    init_locals[l] = Opaque("strbuf%d" % l)
                for a, v in (flag_args or {}).items():
                    init_locals[a] = v
                visits = {"n": 0}

                def stop_at(fn_, bb, p, _h=head):
                    if bb == _h:
                        c = p.visits.get((1, fn_.path, bb), 0)
                        if c >= 2:
                            return tuple(p.frames[0].get(l) for l in state)
                    return None
                it = Interp(F, models=models, max_depth=2, max_paths=64, loop_bound=4, stop_at=stop_at)
                outs = it.run(fn, [], init_locals=init_locals, start_bb=head)
                res = []
                for o in outs:
                    acts = []
                    for e in o.events:
                        if e[0] == "append":
                            x = e[2]
                            if x[0] == "lit":
                                acts.append(("out", x[1]))
                            else:
                                acts.append(("out?", repr(x)))
                        elif e[0] == "vecpush":
                            if e[2][0] == "lit":
                                acts.append(("token", e[2][1]))
                            else:
                                acts.append(("flush",))
                        elif e[0] == "clear":
                            acts.append(("clear",))
                        elif e[0] == "call":
                            if any(x in e[1] for x in ("fmt", "format", "into_boxed_slice", "ToString", "to_string", "to_owned", "Deref", "clone")):
                                continue
                            acts.append(("call", e[1]))
                    if o.kind == "stop":
                        ns = o.value
                        if not all(isinstance(v, Int) for v in ns):
                            res.append(("undecided", "state not constant", acts, o.assume))
                        else:
                            res.append(("next", tuple(v.v for v in ns), acts, o.assume))
                    elif o.kind == "return":
                        v = o.value
                        if isinstance(v, Variant) and v.name == "Err":
                            res.append(("error", None, acts, o.assume))
                        elif isinstance(v, Variant) and v.name == "Ok":
                            res.append(("end", None, acts, o.assume))
                        else:
                            res.append(("undecided", "return %r" % (v,), acts, o.assume))
                    else:
                        res.append(("undecided", "%s %s" % (o.kind, o.value), acts, o.assume))
                key = (st, ch, buf_empty)
                if ch is None:
                    tab.eof[(st, buf_empty)] = res
                else:
                    tab.delta[key] = res
    return tab


class Sim:
    """Simulate the reader table on a concrete character sequence."""

    def __init__(self, tab):
        self.tab = tab

    def run(self, text, tokens_empty_matters=True):
        st = self.tab.init
        buf = []
        tokens = []
        for ch in text:
            cls = ch if ch in self.tab.classes else "x"
            rows = self.tab.delta.get((st, cls, not buf))
            if not rows:
                return ("undecided", "no transition for %r" % ((st, cls),))
            if len(rows) != 1:
                return ("undecided", "ambiguous transition for %r: %r" % ((st, cls), rows))
            kind, ns, acts, assume = rows[0]
            for a in acts:
                if a[0] == "out":
                    # the representative stands for its class: a verbatim push of the representative is a push of ch
                    buf.append(ch if a[1] == cls else a[1])
                elif a[0] == "flush":
                    tokens.append("".join(buf))
                elif a[0] == "clear":
                    buf = []
                else:
                    return ("undecided", "action %r" % (a,))
            if kind == "error":
                return ("error", tokens)
            if kind != "next":
                return ("undecided", "%s %r" % (kind, ns))
            st = ns
        rows = self.tab.eof.get((st, not buf))
        if not rows:
            return ("undecided", "no eof row")
        # at EOF the only fork allowed is on tokens-empty
        chosen = None
        for r in rows:
            cond = [a for a in r[3] if a[0] == "tokens-empty"]
            if not cond:
                chosen = r
                break
            want = 1 if not tokens and not any(a[0] == "flush" for a in r[2]) else 0
            # evaluate after this row's own flushes
            n_tokens = len(tokens) + sum(1 for a in r[2] if a[0] == "flush" and False)
            # the emptiness test happens after the conditional flush of the buffer in the same row
            pre = [a for a in r[2] if a[0] == "flush"]
            n_tokens = len(tokens) + len(pre)
            if cond[0][1][1] == (1 if n_tokens == 0 else 0):
                chosen = r
                break
        if chosen is None:
            return ("undecided", "eof rows %r" % (rows,))
        kind, ns, acts, assume = chosen
        for a in acts:
            if a[0] == "flush":
                tokens.append("".join(buf))
            elif a[0] == "clear":
                buf = []
            elif a[0] == "out":
                buf.append(a[1])
            elif a[0] == "token":
                tokens.append(a[1])
            else:
                return ("undecided", "eof action %r" % (a,))
        if kind == "error":
            return ("error", tokens)
        if kind != "end":
            return ("undecided", "eof %s" % kind)
        if not tokens:
            # `if result.is_empty() { result.push(String::new()) }` is modelled by the tokens-empty fork: a flush of an empty string
            pass
        return ("ok", tokens)


def roundtrip(tab, writer_rows, classes=None, separator=" ", record_sep=None):
    """Compose writer rows with the reader table.  Returns list of failures
    (class description, written text, what the reader produced)."""
    sim = Sim(tab)
    classes = list(classes or tab.classes)
    if record_sep is not None and record_sep not in classes:
        classes.append(record_sep)       # the byte that frames records is a character a program can put into a string
    fails = []
    checked = 0
    undecided = []
    for row in writer_rows:
        e = row["expr"]
        cond = row.get("cond")   # function(str)->bool: whether this writer path applies to the argument
        samples = [""] + list(classes) + [a + b for a in classes for b in classes]
        for s in samples:
            if cond is not None and not cond(s):
                continue
            for tail in ("", "x"):
                args = [s] + ([tail] if tail else [])
                text = "".join(apply_expr(e, a) if (cond is None or cond(a)) else None or "" for a in args)
                # each arg is written with its own applicable row; the tail "x" uses any row applicable to it
                text = ""
                ok_rows = True
                for a in args:
                    r = row if (cond is None or cond(a)) else next((r2 for r2 in writer_rows if r2.get("cond") is None or r2["cond"](a)), None)
                    if r is None:
                        ok_rows = False
                        break
                    text += apply_expr(r["expr"], a)
                if not ok_rows:
                    continue
                if record_sep is not None and record_sep in text:
                    fails.append((s, text, ("record-separator", "raw %r inside a record" % record_sep)))
                    continue
                checked += 1
                res = sim.run(text)
                if res[0] == "undecided":
                    undecided.append((s, text, res))
                elif res[0] != "ok" or res[1] != args:
                    fails.append((s, text, res))
    return fails, undecided, checked
