"""Symbolic evaluation of the code generators: what instruction *sequence* a Compile impl emits, as a function of its sub-expressions.

The abstract interpreter (absint.py) is run over a generator with an AST node of a chosen variant whose children are opaque; the code
of a child (`child.compile(state)` / `compile_depth(child, ..)`) is the symbol code(child), instructions are ins(name), Vec operations
(push / append / extend_from_slice / vec![..]) concatenate.  The result per path is the emitted sequence, e.g. for `lhs + rhs`:
    [code(lhs), ins(store_fast), code(rhs), ins(load_fast), ins(fast_rev2), ins(bin_op)]
Nothing is executed; lengths and register names stay opaque.
"""
import absint
import mir
from absint import Interp, Variant, Opaque, Ptr, Tup, Str, Int, V, ok

CI = "compiler::ast::CompiledItem"


class Seq(V):
    __slots__ = ("items",)

    def __init__(self, items=()):
        self.items = tuple(items)

    def __repr__(self):
        return "Seq%r" % (self.items,)

    def __eq__(self, o):
        return isinstance(o, Seq) and o.items == self.items

    def __hash__(self):
        return hash(("Seq", self.items))


def deref_all(it, p, v, n=8):
    while isinstance(v, Ptr) and n > 0:
        v = it.deref(p, v)
        n -= 1
    return v


def tag_of(it, p, v):
    v = deref_all(it, p, v)
    if isinstance(v, Opaque):
        return v.tag
    if isinstance(v, Variant):
        return "%s::%s" % (mir.short(v.adt), v.name)
    return repr(v)[:40]


def item_of(it, p, v):
    v = deref_all(it, p, v)
    if isinstance(v, Variant) and v.adt == CI:
        if v.name == "Instruction":
            idv = deref_all(it, p, v.fields[0]) if v.fields else None
            nm = idv.tag[3:].split(".")[0] if isinstance(idv, Opaque) and idv.tag.startswith("op:") else ("#%s" % idv.v if isinstance(idv, Int) else "?")
            argc = None
            if len(v.fields) > 1:
                a = deref_all(it, p, v.fields[1])
                if isinstance(a, Seq):
                    argc = len(a.items)
                elif isinstance(a, Tup):
                    argc = len(a.fields)
            return ("ins", nm, argc)
        return ("item", v.name)
    return ("?", tag_of(it, p, v))


def as_seq(it, p, v):
    v = deref_all(it, p, v)
    if isinstance(v, Seq):
        return v
    if isinstance(v, Tup):          # vec![a, b, c] lowering / arrays
        return Seq([item_of(it, p, x) for x in v.fields])
    return None


def _compile_model(it, p, fid, fn, t, args):
    """child.compile(state) / compile_depth(child, state, reg) on an opaque child: its code is a symbol."""
    recv = deref_all(it, p, args[0])
    if isinstance(recv, Opaque):
        p.events.append(("compile", recv.tag))
        return ok(Seq([("code", recv.tag)]))
    return NotImplemented


def _to_byte(it, p, fid, fn, t, args):
    a = deref_all(it, p, args[0])
    if isinstance(a, Str):
        return absint.some(Opaque("op:" + a.s, "u8"))
    return absint.some(Opaque("op:?", "u8"))


def _write_back(it, p, ptr, val):
    if isinstance(ptr, Ptr):
        it.write_place(p, ptr.fid, {"l": ptr.local, "p": [list(x) for x in ptr.proj]}, val)


def _vec_push(it, p, fid, fn, t, args):
    tgt = args[0]
    cur = as_seq(it, p, tgt)
    if cur is None:
        return NotImplemented
    _write_back(it, p, tgt, Seq(cur.items + (item_of(it, p, args[1]),)))
    return absint.UNIT


def _vec_append(it, p, fid, fn, t, args):
    a, b = args[0], args[1]
    sa, sb = as_seq(it, p, a), as_seq(it, p, b)
    if sa is None or sb is None:
        return NotImplemented
    _write_back(it, p, a, Seq(sa.items + sb.items))
    _write_back(it, p, b, Seq(()))
    return absint.UNIT


def _vec_extend_slice(it, p, fid, fn, t, args):
    a, b = args[0], args[1]
    sa, sb = as_seq(it, p, a), as_seq(it, p, b)
    if sa is None or sb is None:
        return NotImplemented
    _write_back(it, p, a, Seq(sa.items + sb.items))
    return absint.UNIT


def _vec_len(it, p, fid, fn, t, args):
    s = as_seq(it, p, args[0])
    if s is None:
        return NotImplemented
    return Opaque("len(%s)" % ",".join("%s:%s" % (x[0], x[1]) for x in s.items), "usize")


def _vec_new(it, p, fid, fn, t, args):
    return Seq(())


def _opaque_reg(it, p, fid, fn, t, args):
    return Opaque("reg@%d" % len(p.events))


def _to_string(it, p, fid, fn, t, args):
    return Opaque("str")


def _unwrap_or_else(it, p, fid, fn, t, args):
    a = args[0]
    if isinstance(a, Variant) and a.adt == "core::option::Option" and a.name == "Some":
        return a.fields[0]
    return NotImplemented


def _same(it, p, fid, fn, t, args):
    return args[0]


MODELS = {
    "alloc::vec::Vec::into_boxed_slice": _same,
    "core::option::Option::unwrap_or_else": _unwrap_or_else,
    "compiler::ast::Compile::compile": _compile_model,
    "compiler::ast::math_expr::compile_depth": _compile_model,
    "bytecode::compilation_bridge::string_instruction_representation_to_byte": _to_byte,
    "bytecode::compilation_bridge::raw_byte_instruction_to_string_representation": _to_byte,
    "alloc::vec::Vec::push": _vec_push,
    "alloc::vec::Vec::append": _vec_append,
    "alloc::vec::Vec::extend_from_slice": _vec_extend_slice,
    "alloc::vec::Vec::len": _vec_len,
    "alloc::vec::Vec::new": _vec_new,
    "alloc::vec::Vec::with_capacity": _vec_new,
    "compiler::ast::CompilationState::poll_temporary_register": _opaque_reg,
    "compiler::ast::CompilationState::poll_temporary_register_ghost": _opaque_reg,
    "alloc::string::ToString::to_string": _to_string,
}


def sequences(F, fn, args, extra_models=None, max_paths=8192):
    """[(sequence items, assumptions, kind)] for every path of fn(args) that returns Ok(seq)."""
    models = dict(absint.DEFAULT_MODELS)
    models.update(MODELS)
    if extra_models:
        models.update(extra_models)
    it = Interp(F, models=models, max_depth=4, max_paths=max_paths, loop_bound=3)
    outs = it.run(fn, args)
    rows = []
    for o in outs:
        v = o.value
        seq = None
        if o.kind == "return" and isinstance(v, Variant) and v.adt == "core::result::Result" and v.name == "Ok":
            inner = v.fields[0]
            if isinstance(inner, Seq):
                seq = inner.items
            elif isinstance(inner, Tup):
                seq = tuple(item_of(it, None, x) if not isinstance(x, Ptr) else ("?", "ptr") for x in inner.fields)
        rows.append({"seq": seq, "kind": o.kind, "value": v, "assume": o.assume, "events": o.events})
    return rows, it.exhausted
