"""Finalise a confirmed seeded change: record first_run/strengthened in meta.json, add it as a regression mutant, remove the worktree.

usage: python3 analysis/seedfinal.py <name> <worktree> <expect-rule-prefix> <first_run: detected|missed> [strengthened text]
"""
import json, os, subprocess, sys
VERIF = os.path.dirname(os.path.dirname(os.path.abspath(__file__)))
name, wt, expect, first = sys.argv[1:5]
strengthened = sys.argv[5] if len(sys.argv) > 5 else None
d = os.path.join(VERIF, "seeded", name)
m = json.load(open(os.path.join(d, "meta.json")))
m["first_run"] = first
if strengthened:
    m["strengthened"] = strengthened
json.dump(m, open(os.path.join(d, "meta.json"), "w"), indent=1)
pid = m["property"]
slug = name.split("-", 1)[1].replace("-", "_")
mp = os.path.join(VERIF, "mutants", pid, "seeded_%s.patch" % slug)
os.makedirs(os.path.dirname(mp), exist_ok=True)
with open(mp, "w") as f:
    f.write("# property: %s\n# what: sub-agent seeded change %s (see seeded/%s)\n# expect: %s\n" % (pid, name, name, expect))
    f.write(open(os.path.join(d, "patch.diff")).read())
if wt != "-":
    subprocess.run(["git", "-C", "/repo", "worktree", "remove", "--force", wt])
    subprocess.run(["rm", "-rf", wt])
print("wrote", mp)
