"""Confirm a sub-agent's seeded change and run the checks against it.

usage: python3 analysis/seedcheck.py <property id> <worktree> <name> [--props C02,C05]

 1. in the worktree (change applied): build, full nextest suite must pass, SEEDED/run_demo.sh must FAIL (non-zero);
 2. with the change reverted (git apply -R; `git stash` is shared between worktrees and must not be used): SEEDED/run_demo.sh must PASS; then restore;
 3. copy patch.diff, the demonstration and README into /verif/seeded/<name>/ and write meta.json;
 4. apply the patch to /repo, run the quick check of the property (and --props), undo it (git checkout -- .).
"""
import json
import os
import shutil
import subprocess
import sys
import time

VERIF = os.path.dirname(os.path.dirname(os.path.abspath(__file__)))
NEXTEST = ["cargo", "nextest", "run", "--workspace", "--no-fail-fast", "--tool-config-file", "pb:/w/lib/nextest.toml", "--profile", "pb",
           "--test-threads", "8", "--offline"]


def sh(cmd, cwd=None, env=None, timeout=3600):
    e = dict(os.environ)
    if env:
        e.update(env)
    r = subprocess.run(cmd, cwd=cwd, env=e, capture_output=True, text=True, timeout=timeout, shell=isinstance(cmd, str))
    return r.returncode, (r.stdout + r.stderr)


def main(argv):
    pid, wt, name = argv[0], argv[1].rstrip("/"), argv[2]
    props = [pid]
    if "--props" in argv:
        props = argv[argv.index("--props") + 1].split(",")
    sd = os.path.join(wt, "SEEDED")
    patch = os.path.join(sd, "patch.diff")
    meta = {"property": pid, "worktree_commit": sh(["git", "-C", wt, "rev-parse", "--short", "HEAD"])[1].strip(), "ran": []}
    env = {"CARGO_TARGET_DIR": os.path.join(wt, "target"), "CARGO_NET_OFFLINE": "true"}
    if not os.path.exists(patch) or os.path.getsize(patch) == 0:
        print("no patch.diff")
        return 2
    # the worktree must contain exactly the recorded patch
    rc_d, cur = sh("git -C %s diff -- . ':!SEEDED'" % wt)
    if cur.strip() != open(patch).read().strip():
        print("worktree diff differs from SEEDED/patch.diff -- restore the worktree first")
        return 2
    # 1. with the change
    rc, out = sh(["cargo", "build", "--offline"], cwd=wt, env=env)
    meta["ran"].append("cargo build --offline (with change): rc=%d" % rc)
    if rc != 0:
        print("BUILD FAILED with change\n" + out[-800:])
        return 2
    rc, out = sh(NEXTEST, cwd=wt, env=env)
    summary = [l for l in out.splitlines() if "Summary" in l]
    meta["ran"].append("nextest (with change): rc=%d %s" % (rc, summary[-1].strip() if summary else ""))
    if rc != 0:
        print("TESTS FAIL with change: " + (summary[-1] if summary else out[-400:]))
        return 2
    rc_with, out_with = sh(["bash", os.path.join(sd, "run_demo.sh")], cwd=sd, env=env)
    meta["ran"].append("SEEDED/run_demo.sh (with change): rc=%d" % rc_with)
    # 2. without
    rc_r, out_r = sh(["git", "-C", wt, "apply", "-R", patch])
    if rc_r != 0:
        print("cannot revert patch: " + out_r)
        return 2
    try:
        rc_wo, out_wo = sh(["bash", os.path.join(sd, "run_demo.sh")], cwd=sd, env=env)
    finally:
        sh(["git", "-C", wt, "apply", patch])
    meta["ran"].append("SEEDED/run_demo.sh (change reverted): rc=%d" % rc_wo)
    print("demo with change: rc=%d ; without: rc=%d" % (rc_with, rc_wo))
    if rc_with == 0 or rc_wo != 0:
        print("DEMO DOES NOT DISCRIMINATE\n--- with:\n%s\n--- without:\n%s" % (out_with[-600:], out_wo[-600:]))
        return 3
    # 3. keep
    dst = os.path.join(VERIF, "seeded", name)
    shutil.rmtree(dst, ignore_errors=True)
    os.makedirs(dst)
    for fn in os.listdir(sd):
        p = os.path.join(sd, fn)
        if os.path.isfile(p) and os.path.getsize(p) < 200000:
            shutil.copy(p, dst)
    # 4. checks against /repo with the patch applied
    rc, out = sh(["git", "-C", "/repo", "status", "--porcelain", "--untracked-files=no"])
    if out.strip():
        print("/repo is not clean; refusing to apply")
        return 2
    rc, out = sh(["git", "-C", "/repo", "apply", patch])
    if rc != 0:
        print("patch does not apply to /repo: " + out[-300:])
        return 2
    results = {}
    try:
        for p in props:
            t0 = time.time()
            rc, out = sh([os.path.join(VERIF, "bin", "check"), p], cwd=VERIF, env={"VERIF_EVIDENCE_DIR": "/tmp/seedcheck-evidence"})
            viol = [l for l in out.splitlines() if l.startswith("VIOLATION") or l.startswith("  rule=")]
            results[p] = {"exit": rc, "violations": viol[:8], "wall_s": round(time.time() - t0, 1)}
            print("check %s on the seeded tree: exit=%d" % (p, rc))
            for v in viol[:6]:
                print("   " + v[:300])
    finally:
        sh(["git", "-C", "/repo", "checkout", "--", "."])
    meta["checks_on_seeded_tree"] = results
    meta["detected_by"] = [p for p, r in results.items() if r["exit"] == 1]
    readme = os.path.join(sd, "README.md")
    meta["needs_to_manifest"] = "see README.md"
    with open(os.path.join(dst, "meta.json"), "w") as fh:
        json.dump(meta, fh, indent=1)
    return 0


if __name__ == "__main__":
    sys.exit(main(sys.argv[1:]))
