"""Generate MANIFEST.json from the table below (single source of truth)."""
import json
import os

VERIF = os.path.dirname(os.path.dirname(os.path.abspath(__file__)))

NOTE = ("Trusted base: rustc's own front end (name resolution, type checking, MIR construction) as exposed through the "
        "rustc_private driver engine/mscan; the Python analysers under analysis/; std/anyhow/pest contracts for foreign "
        "functions (their bodies are not analysed). The check decides the named structural clauses, which are necessary "
        "conditions of the property; it does not observe behaviour.")

CLAIMED = {
    "C20": {
        "text": "Decides, for every path of clean_command (MIR CFG, resolved callees): (1) no mutating filesystem/process call other than "
                "std::fs::remove_file is reachable from it; (2) every reachable remove_file is guarded on the true edge of a test derived from "
                "Path::extension() whose predicate closure is exactly `ext == \"mmm\"`; (3) the tested file name and the deleted path come from "
                "the same DirEntry of the ReadDir iterator; (4) read_dir is called once, on the parameter, outside any loop, and clean_command is "
                "not in its own call-graph reach (non-recursive); (5) the reported counter is incremented by 1 exactly on the success edge of "
                "remove_file. For this property these clauses are close to sufficient; residual trust is std::fs.",
        "technique": "static analysis: call-graph reachability + guarded-by (CFG edge removal) + backward value-origin slicing over rustc MIR",
        "design_ref": "DESIGN.md §5 C20",
    },
}

CLAIMED["C19"] = {
    "text": "Decides the pass-through chain on MIR: (a) in the call_lib handler the JumpRequest.arguments field derives from "
            "Ctx::get_local_operating_stack() through Clone::clone only, the snapshot is taken before the stack is cleared, and the "
            "destination is Library{args[0], args[1]}; (b) the Library arm of process_jump_request passes &request.arguments and the "
            "destination's names unchanged and returns the callee's result; (c) process_library_jump_request calls the symbol obtained from "
            "Library::new(lib).get(func) with exactly its `args` parameter and returns Ok(result) verbatim, and failures of new/get propagate "
            "(context + ?) before the foreign call; (d) in Function::run an Err or FFIError result reaches an Err return from which no "
            "instruction handler or push is reachable, and a Value result is pushed on every path to the next instruction. Does not decide "
            "the ABI of the loaded symbol (unsafe trust boundary).",
    "technique": "static analysis: value-origin slicing (pass-through), dominators / no-call-after-failure over rustc MIR",
    "design_ref": "DESIGN.md §5 C19",
}

CLAIMED["C11"] = {
    "text": "Decides necessary structural conditions of once-only initialisation and sharing: (1) every construction site of the module "
            "cache key (Import::compile x2, Program::add_file x2, Program::execute) uses the one template '{path}#__module__', equal to '#' + the "
            "function name the compiler emits for module code and the interpreter starts; (2) in the Module arm of process_jump_request the module "
            "body is reachable only through the None edge of the cache lookup keyed by the request's path, a hit returns the cached value, and "
            "every Ok return after a run passes the cache insert of the value the run returned; (3) module values are copied with Gc::clone "
            "(pointer copy) only, at the cache, get_exports and get_file_module; (4) the only mutable borrow of any export map "
            "(GcCell<VariableMapping>) is in MScriptFile::add_export, which mutates through update_once only, which fails on an existing name; "
            "(5) Import::compile queues a compilation only under CompilationLock::can_compile and then marks it; (6) Export::add is called only "
            "from ModuleType::from_node, under the `export` flag tests, and ModuleType::get_property reads exported_members only; (7) export_name registers the variable's own cell (the value handed to register_export derives from Ctx::load_local by identity) and variable cells are created only at declaration sites, so what the module writes later is what every importer reads. Does not decide "
            "that compile-time and run-time path strings denote the same file, nor import order (run-time history).",
    "technique": "static analysis: literal agreement, guarded-by / dominators on MIR CFG, type-resolved who-may-mutate, value-origin slicing",
    "design_ref": "DESIGN.md §5 C11",
}

CLAIMED["C07"] = {
    "text": "Decides the sharing structure closures rest on: (b) variable cells (Gc<GcCell<..>>) are created only in PrimitiveFlagsPair::new / the "
            "static built-in module, and PrimitiveFlagsPair::new is called only from the declaration sites (register_variable_local, "
            "export_special); make_function stores under each captured name exactly the cell returned by load_variable / "
            "load_callback_variable (PrimitiveFlagsPair::clone is a Gc pointer copy; the lookup helpers hand out the stored cell); (c) "
            "VariableMapping::update and the found-branch of Stack::register_variable_flags write through set_primitive on the found cell and never "
            "insert or re-declare; store_object (modify) reaches update_callback_variable, which updates the closure's own capture map; plain "
            "store never touches it; (d) Stack::extend starts every activation with VariableMapping::default() and Function::run pushes the frame "
            "before any handler runs; (a) visitor completeness of the capture walk (every code-bearing AST field is visited by dependencies()); (a') the capture filter: get_net_dependencies raises a "
            "dependency's depth only after comparing it with the block's supplies; every keep/drop comparison in it and in the hand-written "
            "net_dependencies impls compares Dependency values, never names alone, and Dependency == Dependency is true exactly when names and "
            "types are equal (truth table); nothing in the 58 bodies of the capture walk files dependencies under their name alone (no name-keyed set / map, no dedup); a name resolves in the running function's own frames first, then in the closure's captures, and only then in its callers' frames (lexical scoping; `load`, `make_function`, `bin_op_assign` and every other handler that falls back on the whole stack agree). "
            "Does not decide run-time histories.",
    "technique": "static analysis: type-resolved who-may-create/who-may-call, value-origin slicing (pass-through), dominators on rustc MIR; visitor completeness over ADT fields",
    "design_ref": "DESIGN.md §5 C07",
}
CLAIMED["C08"] = {
    "text": "Decides structural necessary conditions only (per-instance state/aliasing over histories is not decided): (1) the identity token "
            "Gc<DebugPrintableLock> is created only in ObjectBuilder::build / Object::new from Default, feeds the object's debug_lock, and make_object "
            "reaches build on every Ok path and pushes the built object; (2) the object's variables derive from Ctx::get_frame_variables through "
            "VariableMapping::clone only (cells shared with the methods' captures; no fresh cell is created while an object is assembled); (3) "
            "Object::has_variable/get_property return the stored cell, lookup wraps exactly that cell in HeapPrimitive::Lookup, and HeapPrimitive::set "
            "writes the new value into it through set_primitive; (4) the (Object,Object) arm of runtime_addr_check is id_addr(self) == id_addr(rhs), "
            "id_addr is the address behind debug_lock, and cloning an object copies the identity pointer; (5) whatever an instruction handler stores into a "
            "variable cell or pushes into a list of program values has been copied out of any field / element view first (move_out_of_heap_primitive on "
            "the way from the operand stack to the store), and a class body runs make_object once.",
    "technique": "static analysis: type-resolved who-may-create, value-origin slicing (pass-through), CFG region rules on rustc MIR",
    "design_ref": "DESIGN.md §5 C08",
}

CLAIMED["C04"] = {
    "text": "Decides the clause 'every instruction argument is read back from a bytecode file exactly as emitted', for all argument strings over the "
            "character classes the reader distinguishes: the writer CompiledItem::repr(false) is evaluated abstractly to its symbolic per-argument "
            "output (quote wrap + ordered replace chain), the reader split_string_v2 to its (state x character-class) transition table, and "
            "read(write(arg)) == [arg] is decided by finite composition over all class singletons, pairs and the empty string (a singleton check "
            "from the in-argument state is an induction step for all strings). Also: opcode ids are single bytes (<128) and emitted ids differ from the "
            "record markers (NUL, 'e'); the in-memory path hands (id, arguments) over verbatim; the loader tokenises with split_string_v2(_, true); the output file is opened fresh (truncate / create_new); and `execute` registers the "
            "entry file under the path it was given, separators normalised and nothing else (Program::new: the key handed to MScriptFile::open and the "
            "file table derives from the parameter through conversions and one `\\\\`->`/` replace only), which is the path part of the labels the compiler "
            "embedded. Does not decide NUL inside literals (outside the alphabet) nor that the two paths execute identical instruction streams beyond the codec.",
    "technique": "static analysis: abstract interpretation of rustc MIR (symbolic string writer, finite-state reader table) + finite composition; constant agreement",
    "design_ref": "DESIGN.md §5 C04",
}
CLAIMED["C18"] = {
    "text": "Decides the codec clauses of the text round trip: for both writer/reader pairs -- (CompiledItem::repr(true), transpiler line reader + "
            "split_string) with '\\n' as record separator, and (transpiler Instruction::repr, loader split_string) -- read(write(arg)) == [arg] for "
            "every character class, pair and the empty string, by abstract evaluation of the writers (including path conditions such as "
            "arg.contains(' ')) and composition with the reader's transition table; the opcode name array, the id constants and the dispatch switch "
            "form one bijection with contiguous ids; the transpiler obtains opcodes only through string_instruction_representation_to_byte and carries "
            "the tokens split_string produced; record templates are '\\t{name}{args}\\n' and '{id}{args}\\0'. Does not decide function-header lines.",
    "technique": "static analysis: abstract interpretation of rustc MIR (symbolic string writers, finite-state reader table) + finite composition; table agreement",
    "design_ref": "DESIGN.md §5 C18",
}

CLAIMED["C02"] = {
    "text": "Decides structural clauses of soundness, not soundness itself: (a) the type checker's operator table "
            "(TypeLayout::get_output_type over 13 operand kinds x 13 x 26 operators, plus same-head compound types for ==, !=, is) and the "
            "interpreter's operator implementations, both read as finite kind tables by abstract interpretation of their MIR, agree cell by cell: "
            "wherever the checker accepts (op,l,r) with result kind K, evaluating the operator through the bin_op/equ/neq handlers on every run-time "
            "representation of l and r yields Ok(K), never a kind-determined error or panic (an error is allowed only for a nil operand); the "
            "operator dispatch (Op::symbol, bin_op, bin_op_assign) is read the same way; no site builds a boxed present optional, which the "
            "operators would not look through; unary minus is accepted only where Primitive::negate accepts it; (b) every built-in method the type "
            "checker declares resolves at run time to an implementation that accepts the receiver, destructures the declared parameter kinds and "
            "returns the declared kind (87 receiver/method pairs). (c) visitor completeness of the dependency walk: every code-bearing field of every AST "
            "type with a Dependencies impl is read by dependencies()/supplies() (an unvisited field is an uncaptured variable = undefined variable "
            "at run time). (d) return-marking: a block marks its function as returning only through constructs that return on every path "
            "(Parser::while_loop / if without else never do); `?=` is accepted only between equal operand kinds; every pairwise comparison of two lists of "
            "types (zip(..).all(..) in crate compiler: function parameters, fixed-shape list types, eq_complex) is dominated by a comparison of their lengths; (e) every instruction handler the compiler emits looks at the variant of an operand only after copying it out of a view (HeapPrimitive), or has an arm for views; (f) the typing guards of C03 (c) that protect run-time type safety. "
            "Not decided: eq_complex over compound types beyond that, element kinds of containers, typeof text.",
    "technique": "static analysis: abstract interpretation of rustc MIR extracting decision tables of two sibling implementations, compared exhaustively",
    "design_ref": "DESIGN.md §5 C02",
}

CLAIMED["C05"] = {
    "text": "Decides: (a) the interpreter's kind table for every arithmetic, comparison, bitwise and shift operator on the four numeric kinds "
            "(read by abstract interpretation through the bin_op handler) equals the promotion table stated in the property (same kind keeps it, byte "
            "yields, int yields to bigint, float wins, float with a bitwise/shift operator is an error, comparisons yield bool) -- 256 cells; (b) "
            "the zero-divisor guards of / and % return an error for a zero divisor of every numeric kind (evaluated with a zero payload); (c) the "
            "operator implementations use no wrapping/unchecked arithmetic and every profile that builds the CLI has overflow-checks on, so plain "
            "x + y traps instead of wrapping; (d) every cast in the operator/ordering/equality implementations widens (u8 < i32 < i128 < f64). "
            "Does not decide that the primitive operations compute the exact value (rustc/IEEE semantics are trusted) nor that a trap is "
            "reported as an MScript error (C17).",
    "technique": "static analysis: decision table by abstract interpretation of rustc MIR vs. the specified promotion table; cast/arith inventory; manifest read",
    "design_ref": "DESIGN.md §5 C05",
}
CLAIMED["C06"] = {
    "text": "Decides: (a) the constant folder's kind table (impl ops for &Number) equals the interpreter's for all 4x4 numeric kinds of the 10 "
            "folded operators, including which cells are kind errors, and both dispatch each operator to the same trait; (b) Number::negate "
            "preserves the variant like Primitive::negate (one known finding: bigint literals); (c) every integer arm of the folder goes through a "
            "checked_* primitive and every float / and % is guarded by a zero test, so the folder rejects exactly on overflow / zero divisor -- the "
            "run-time half of that equivalence is C05 (b),(c). Does not decide decimal-string <-> value round trips inside the folder.",
    "technique": "static analysis: two decision tables extracted by abstract interpretation of rustc MIR and compared; primitive-call inventory; guarded-by",
    "design_ref": "DESIGN.md §5 C06",
}

CLAIMED["C13"] = {
    "text": "Partial by nature: decides that the interface is sound, not that each operation matches its mathematical model. (a) For every list/map "
            "method the type checker declares (TypeLayout::get_property_type, read by abstract interpretation), the run-time name lookup "
            "(Primitive::lookup -> PrimitiveModule accessor -> BuiltInFunction variant) finds a built-in whose implementation arm accepts the "
            "receiver kind, destructures each declared native parameter as exactly that Primitive variant (else unreachable!()), reads no more "
            "arguments than declared, and returns only kinds that inhabit the declared return type; a built-in offered to fixed-shape lists "
            "moves no element; `==` on lists is whole-slice equality and searching built-ins compare with Primitive::equals (structural == on "
            "program values occurs only inside the equality implementation); an element / entry store (ArrayPtr / MapPtr arms of HeapPrimitive::set) "
            "stores the given value on every path; each GcMap operation answers from the inner HashMap and never through another GcMap operation "
            "(contains_key through get() would read a key bound to nil as absent); every key type whose values Primitive::hash cannot hash (a map, or a list / optional "
            "holding one, or an object with such a field: run-time table read from the Hash impl) is rejected by the key-type test of Parser::map_type (evaluated on 52 key types, including classes with such fields); clone / map / filter return a container allocated by the call, never the receiver under another name; what is pushed into a program list is a value, never a view (ret and BuiltInFunction::run copy out of views, every push takes its value from such a source); x[i] is compiled to a map lookup exactly for types whose values are maps. (b) no lossy `as` conversion (narrowing, sign-changing, "
            "float->int) of a program value in the list/map arms and in index conversion (R-CAST with a backward taint slice to a Primitive). "
            "(c) index/removal range failures are errors, not panics: decided with C17 (a) (R-PANIC: Vec::remove/insert, Index, bounds checks on "
            "program-valued indexes are dominated by a range comparison). Aliasing and contents over histories are not decided.",
    "technique": "static analysis: three sibling tables extracted by abstract interpretation of rustc MIR and compared",
    "design_ref": "DESIGN.md §5 C13",
}
CLAIMED["C14"] = {
    "text": "Partial by nature: decides signature agreement, not the computed values. (a) For every string / number method the type checker declares, the "
            "run-time lookup resolves the name for that receiver kind to a built-in whose implementation accepts the receiver, destructures each "
            "declared parameter as the declared kind, and returns only kinds inhabiting the declared return type (e.g. T? -> T or nil). (b) no "
            "lossy `as` conversion (narrowing, sign-changing, float->int saturation / NaN->0) of a program value in the Str*/Generic*/Float*/Byte* "
            "arms (R-CAST, arms separated by dominators of the variant switch). (c) one unit for string positions: every char-counting operation "
            "on a program string is listed against the byte-based built-ins (one known finding: s[i]); a marker around number text is removed at most once "
            "(no repeating str::trim_*_matches in the code reachable from the built-ins). Range / overflow failures of these "
            "built-ins being errors rather than panics is decided by C17 (a).",
    "technique": "static analysis: three sibling tables extracted by abstract interpretation of rustc MIR and compared",
    "design_ref": "DESIGN.md §5 C14",
}

CLAIMED["C10"] = {
    "text": "Decides: (1) the set of write forms is closed: every emission site of a name-writing opcode in the compiler (store, store_object, "
            "store_fast, bin_op_assign, unwrap_into, ptr_mut, export_special, split_lookup_store), classified by the type of its operand expression "
            "(user name vs compiler temporary), is mapped in rules/const_forms.json to a const-checked form or to an exemption with a reason; an unmapped "
            "user-name site is reported as a new write form; (2) each form's parser function rejects a const target on every path: assignment / typed "
            "/ modify / unpack (conditional guarded-by: whenever the looked-up previous binding exists, Ok is reachable only across "
            "Ident::is_const == false), re-assignment (the root's const flag is Ident::is_const(root), carried unchanged through index/field steps "
            "and tested before Ok), compound assignment and ?= (root_ident().is_const() before the result type is computed, for identifier, index "
            "and field targets), named loop counter, import (name already mapped => Err), class (name in scope => Err); (3) module names and class "
            "names are created const (one known finding: names bound by `import a from m` are rebindable copies, which the repository's own test "
            "requires); (4) the read-only flag travels with an identifier (every Ident built from another takes read_only from it); (5) parameter names are "
            "registered in a scope only when the caller asked for it and only after the function's own scope was pushed (a signature read ahead of time "
            "must not shadow outer names); (6) the outward scope walk that answers `did this name exist before` (has_name_been_mapped_in_function) is cut "
            "short only by a predicate that is false on every block scope kind (IfBlock, ElseBlock, WhileLoop, NumberLoop), the predicate being evaluated "
            "on each ScopeType variant; (7) a declaration is marked const exactly when its flags contain `const` (the is_const computation of Parser::assignment "
            "evaluated for every flag word); (8) inside a method a class scope does not answer for a bare name (lookup evaluated on scripted scope stacks). Does not decide the remaining scoping rules that say which bindings a lookup sees.",
    "technique": "static analysis: instruction-literal/operand-type enumeration, conditional guarded-by with correlated-test pruning on rustc MIR, pass-through of the const flag",
    "design_ref": "DESIGN.md §5 C10",
}

CLAIMED["C03"] = {
    "text": "Decides three structural clauses: (a) error discipline -- in crate compiler every call result that carries a diagnostic (Result with "
            "anyhow::Error / Vec<anyhow::Error> / pest errors) is propagated (`?`, returned, wrapped then propagated, collected) or replaced by another "
            "Err; a result whose Err case is discarded (.ok(), is_ok(), `if let Ok`, unused) is a violation unless allow-listed with a reason "
            "(9 intentional discards); (b) order -- code generation is reachable only across the success edge of validation, output writing only "
            "after compilation succeeded, `run` executes only after compile succeeded, and the CLI's compile wrapper turns any error list into Err "
            "(non-zero exit); (c) one guarded-by instance per typing rule the property names (19 instances: boolean conditions, annotated "
            "initialiser, re-assignment type, unary/binary operator support, unknown name, field/method existence, callable member, index "
            "support/type/output, loop bounds and step, known type name, break/continue in loop), the list-index predicate read as a table against the run-time index conversion, class-type identity "
            "(name and declaring file), the shared return-marking and zip-length rules of C02 (d), the map key-type guard of get_output_type_from_index, and that a block's `return` statements are checked against the innermost function (the walk computing a block's starting return status, evaluated on a scripted scope stack, does not look past a void function scope). Does not decide that the diagnostic names the "
            "right source position.",
    "technique": "static analysis: def-use of Err payloads, edge-dominators (must-pass-through) and guarded-by instances over rustc MIR",
    "design_ref": "DESIGN.md §5 C03",
}

CLAIMED["C17"] = {
    "text": "Decides structural necessary conditions of the report, not its rendered text: (b) Function::run pushes the function's frame "
            "(labelled with get_qualified_name()) before any instruction handler runs, pops it on every Ok return, and neither a block after a failure "
            "edge (`?` Break edge or Err construction) nor an error-path closure (map_err/or_else/with_context..) nor any bytecode function they call "
            "pops a frame, so every active function is still on the stack when the error reaches Program::execute; the <native code> frame of a "
            "built-in is pushed before it runs and popped only across the Continue edge of the `?` on its result; execute() attaches "
            "stack.to_string() to the error lazily (with_context on the entrypoint's result), flushes stdout before each banner and returns Err "
            "after it; (c) Parser::assertion builds '{file}:{line}:{col}' in that order from get_source_file_name() and line_col() of the start of "
            "the assert statement's own span, stores it as Assertion.span, Assertion::compile passes exactly that field as the instruction "
            "argument, and the assert handler returns Ok only on the true edge of equals(.., true) and formats args[0] into its error. (a) "
            "inventory over crate bytecode of the MIR panic sites whose operand is program-valued (backward slice reaches a Primitive): overflow / "
            "division asserts and integer arithmetic through core::ops and core::num (pow, abs, neg), bounds checks and Index on Vec/slice/str/String, "
            "std calls panicking on an index (Vec::remove/insert/.., String::insert_str/.., str::split_at ..); a site is discharged by a dominating "
            "range comparison, an is_char_boundary test, the zero-divisor rejection (evaluated abstractly) or unreachability for type-checked "
            "programs; every remaining site is a violation (five known: integer overflow in + - * / %, which the repository's own test requires "
            "to panic); the same for conflicting RefCell / GcCell borrows of the interpreter's cells (call stack, variable cells and tables, lists, maps): no conflicting borrow while a guard may be alive unless the code tested the two cells to be different objects (Gc::ptr_eq) or one of them sits in a field that only ever holds a freshly allocated cell; and a function's frame stays on the stack while its callees run (no handler, no call-out after the pop). unwrap/expect/unreachable! sites rest on typing invariants and are counted, not judged; allocation failure is out of scope.",
    "technique": "static analysis: dominator / no-call-after-failure / must-pass-through rules on the MIR control-flow graphs of the interpreter loop, field-sensitive origin slicing for the assert position, panic-site inventory with taint, guard typestate (borrow discipline) against call-graph closures",
    "design_ref": "DESIGN.md §5 C17",
}

CLAIMED["C16"] = {
    "text": "Decides the grammar clause only: every assumption an AST builder makes about the shape of its parse-tree node is implied by grammar.pest. "
            "The grammar (dumped through pest_meta) is turned into child-sequence automata per token-producing rule (silent rules inlined, atomic rules "
            "childless, PEG choice treated as unordered); a flow-sensitive, inter-procedural typestate analysis over the MIR of the ~86 functions of crate "
            "compiler that handle Node / Nodes / Pair values tracks a rule set per node and an automaton-state set per iterator (refined by matches on "
            "as_rule(), == comparisons, Option tests, boolean flags, aliases through clone / Node::new_with_user_data, the Pratt-parser "
            "primary/prefix/infix/postfix partition read from the Op::infix(Rule::X) constants) and decides ~100 obligations: O1 a match on as_rule() "
            "whose fall-through can only panic has an arm for every rule the grammar can produce there; O2 an unwrapped next()/last() cannot be None; "
            "O3 an unwrapped single() has exactly one child; O4 assert_eq!(node.as_rule(), Rule::X) holds for every node reaching it. Two further exact rules: break/continue resolve only to a loop of the same function (the scope scan stops at a function scope), text-to-number conversions of literals are propagated, never unwrapped, and no recursive walker of the syntax tree calls back into its own recursion cycle twice on the same child on one path (2^depth compile time); and borrow discipline on the scope stack -- no function that can take a mutable borrow of RefCell<Vec<Scope>> (call-graph closure of borrow_mut) is called while a Ref guard into it may be alive (flow-sensitive typestate of guard-owning locals over MIR: born at borrowing calls, dead when moved out, dropped, or on the None edge of an Option test), i.e. no `RefCell already borrowed` panic on a valid program; and conversions that are fallible by contract (impl TryFrom / FromStr, functions named try_*) contain no explicit unreachable! / panic! / todo! in their body. Not decided: panics resting on typing/scoping invariants (counted), stack depth, termination.",
    "technique": "static analysis: typestate / abstract interpretation of rustc MIR against automata built from the pest grammar",
    "design_ref": "DESIGN.md §5 C16, §4.8",
}

CLAIMED["C15"] = {
    "text": "Decides the emission-order clause only: each expression generator (compile_depth for the 26 binary operators, compound assignment to "
            "index / field targets, indexing, field access, `(x) or y`, calls; the list- and map-literal generators) is evaluated abstractly over its MIR with "
            "opaque sub-expressions, which yields the emitted instruction sequence as a word over code(child) and instruction names (e.g. `<lhs> store_fast "
            "<rhs> load_fast fast_rev2 bin_op`). On that word: code(left) precedes code(right), each occurs exactly once, `&&`/`||` have a store_skip and "
            "`or` a jmp_not_nil between their operands; literal elements and map pairs are laid down in list order (iterator scripted with two elements); "
            "call arguments are compiled by arguments.iter() -> flat_map(compile) -> collect with no reversal; the skip count of && / || equals the number of instructions laid down after the right operand plus one; every recursive compile_depth call receives a fresh register from poll_temporary_register(), never the caller's own parking register "
            "(a nested operand cannot overwrite a parked left operand); every statement kind lays the code of its payload down exactly once; between the code of a binary operator's operands (and after each call argument) the emitted word takes the one value just computed off the operand stack (store_fast / store_skip / jmp_not_nil), because a call inside the next operand takes the whole stack as its arguments. Two known findings: compound assignment "
            "to an index / field target evaluates the right-hand side first. Not decided: jump arithmetic in general (C09), other forms of interference of later code "
            "with earlier values, argument order as seen by the callee.",
    "technique": "static analysis: abstract interpretation of the code generators' MIR to symbolic instruction sequences, order / multiplicity rules on the sequences",
    "design_ref": "DESIGN.md §5 C15, §9.1",
}

CLAIMED["C12"] = {
    "text": "Decides structural clauses only (which branch a program takes is a run-time fact and is not decided): get -- the parser builds "
            "'{file}:{line}:{col}' of the `get` token in that order and stores it as Expr::UnaryUnwrap.span, the generator emits `<x> unwrap <position>` "
            "(one argument), an expression statement compiles to `<expr> void` with the expression's code present on every path, and the unwrap handler, read as a table by abstract interpretation over {nil, present value of 7 kinds}, returns Err on nil "
            "with a message formatting args[0] and Ok on every present kind; or -- the generator emits `<x> jmp_not_nil <n> <y>` with n = len(code(y)) + 1, "
            "and the jmp_not_nil handler pops without jumping on nil and jumps without popping on a present value; ?= -- the generator emits `<e> "
            "unwrap_into <name>`, and the unwrap_into handler stores exactly once, through the same primitive as `store` (an assignment to the existing variable, not a fresh cell in the top frame), and pushes false on nil, true on a present value; the builder of `(x) or y` never returns x alone for a type that can hold nil; == nil -- "
            "Primitive::equals never fails with a nil operand. That a present optional is the plain value at run time is C02.optional-rep.",
    "technique": "static analysis: decision tables of the instruction handlers by abstract interpretation of rustc MIR; symbolic instruction sequences of the generators; origin slicing of the position string",
    "design_ref": "DESIGN.md §5 C12, §9.1",
}

CLAIMED["C09"] = {
    "text": "Decides jump landing and frame balance of the control-flow generators, by induction over the AST, not the shape of whole compiled "
            "programs: the generators of if / else / while / from-loops (every combination of to/through, step, colliding counter name) and of && || "
            "`or` are evaluated abstractly over their MIR with opaque children; block lengths, positions and jump operands are exact linear expressions "
            "in the opaque lengths, and a break / continue placeholder is a generic element at an opaque index of the body with an opaque frame count. "
            "On each emitted word: (landing) every jump operand added to its instruction's position equals the start of an item of the word or its end; "
            "(intended) it is the boundary the construct's meaning names (else arm / end, test, first instruction after the loop, step code); (balance) "
            "walking the word as a control-flow graph, every position is reached with a single frame depth, the end with depth 0, and break / continue pop "
            "exactly the frames open at them; (contract) scopes_since_loop, evaluated on 45 scripted scope stacks, is (#block scopes up to the loop)+1 and "
            "fails across a function boundary, each block construct's parser function opens exactly one scope of its kind around the body and closes it, "
            "the else scope is not nested in the if scope, and the generators place the body exactly one frame deep; (handlers / loop / return) if_stmt, "
            "while_loop, jmp, jmp_pop, done, else_stmt, ret signal the exit states the word machine assumes (tables by abstract interpretation), "
            "Function::run applies Goto* without the +1 step and PushScope / PopScope with it, opens / closes one frame each, and on ret drops the "
            "function's block frames (labels recognised by pop_until_function). Not decided: operand-stack shapes, what the children's code is.",
    "technique": "static analysis: abstract interpretation of the generators' MIR with a linear-expression domain (exact normal forms, no solver) to symbolic instruction words; CFG walk of the words; handler decision tables; MIR reachability in the interpreter loop",
    "design_ref": "DESIGN.md §5 C09, §9.1",
}

CLAIMED["C01"] = {
    "text": "Decides the control-transfer clause only, not what programs print: with the engine of C09, for every shape of if / else / while / "
            "from-loop (to/through, step, colliding counter) with a generic break or continue in the body, each jump lands on the boundary the "
            "construct's meaning names (if-false -> else arm or past the statement; end of then-arm -> past the statement; loop test false -> first "
            "instruction after the loop; back edge -> first instruction of the test; break -> after the loop; continue -> back edge (while) / step "
            "code (from); && || `or` skip exactly the right operand); a from-loop parks counter and bound in two distinct registers, tests them with < "
            "(to) or <= (through), adds the step (default make_int 1) to the counter with += after the body and frees the registers unless the name "
            "collides; `return v` is `<v> ret`; the k-th parameter is bound to the k-th argument (`arg k store <name k>`); the handlers of if_stmt / while_loop jump on false and fall through on true, jmp / jmp_pop / done / "
            "else_stmt / ret signal what the generators rely on, and Function::run applies them (jumps without the +1 step, return after dropping the "
            "block frames). Each is a necessary condition of C01: breaking it changes the output of some core program. Expression values, printed "
            "output and the failure report (C17) are not decided here.",
    "technique": "static analysis: abstract interpretation of the generators' MIR with a linear-expression domain to symbolic instruction words, landing points compared as exact normal forms; handler decision tables; MIR reachability",
    "design_ref": "DESIGN.md §5 C01, §9.1",
}

# clauses added after the texts above were written (seeded rounds 6-8 and the triage of the agents' baseline observations); appended to the
# level text of each property so that MANIFEST.json names every rule family a check runs (details: DESIGN.md §9.1, §9.2)
ADDED = {
    "C01": "Also: every handler that looks at an operand copies it out of a field/element view first (view-read). Also: both bounds of a from loop are evaluated before a reused counter is written (skeleton).",
    "C02": "Also: no run-time site builds a boxed present optional (including Option::map(Box::new) payloads); handlers copy operands out of views; a class never collects two members of one name (member-unique); `x op= y` is accepted only when the result type can be stored back (opassign-result); value-owing function scopes check their exit (return-required). Also: the loop counter has the type of start + step (loop-counter-type); class-typed fields are not callable (callable-field); optional compound kinds in the `==` table; index dispatch (shared with C13). Also: no name gets the type of the literal `[]` (element-type).",
    "C03": "Also: a block scope never starts from the return status another arm ended with (return-scope fresh-status); function types compare their parameters with signature_check set (signature-invariance); a call is accepted only after every argument node was walked (arity); every value-into-slot check refuses `T?` for `T` and accepts `T` for `T?` (optional-direction, eq_complex evaluated in the site's configuration).",
    "C04": "Also: the arguments of a trace/log call borrow nothing that `run` holds; the index unit of string built-ins (index-unit). Also: a panicked interpreter thread never ends in a successful exit in either command (exit-status); NUL is a sampled class of the binary codec.",
    "C05": "Also: every left shift of a program integer is shifted back and compared (exact-shift); `%` and `/` are evaluated at (MIN, -1) of each signed "
           "kind (extremes: `%` must yield 0, `/` must stop); `< <= > >=` evaluated on all kind pairs at three operand pairs (compare-values).",
    "C06": "Also: fold width and the text rule of Number::negate; exact-shift on both towers; the folder's signed remainder tests a divisor of -1 (exact-rem).",
    "C07": "Also: the capture depth is raised only by nodes that open a function (cycle-boundary); store_fast with a nameable operand is emitted only "
           "for names the statement introduces (fresh-cell); a declared name is read by supplies() (R-VISIT covers Import); `modify` only for captured names (modify-target); no cell write outside the instruction handlers (cell-writes).",
    "C08": "Also: code labels are generated, fixed literals, or spelled from names the parser refuses to see twice in a file (code-label; known finding); a method-call link stores the receiver into the register the call loads `self` from (receiver-bound); in a class body every function is made before any field is declared (method-captures).",
    "C10": "Also: a field step or compound assignment on a module-typed object (an alias of an imported module) is const; postfix steps never clear the flag; Scope::add_dependency always writes the record (scope-record).",
    "C11": "Also: the compile queue is drained to its end; the module path drops every non-naming feature the grammar lets an import spell (module-identity). Also: `import a from m` binds the module's own value, no container is built (names-import). Also: a module exports each name once and the compiler says so (export-once).",
    "C13": "Also: hash() reads only what eq() compares and no shared cell's contents (hash-eq; list keys are a known finding); a list/map operation "
           "mutably borrows its receiver only (effects-confined); hashable-key predicate vs the run-time Hash table; index dispatch; fresh results; no view is stored into a slot (no-view-stored). Also: index dispatch covers aliased and captured container types, gated by supports_index.",
    "C12": "Also: handlers copy operands out of views before the nil test (view-read).",
    "C15": "Also: the folder turns an expression into a constant only when no operand that would run is dropped (fold-keeps-operands).",
    "C19": "Also: no Ok return hands the callback's result on before the FFIError test (no-early-ok).",
    "C20": "Also: the deletion is guarded by a file-type test: directories are never handed to remove_file (files-only).",
    "C14": "Also: the float-to-int range guards of to_int / to_bigint; strip-once; a removed `0x` marker selects base 16 (marker-radix); conversion arms evaluated at the boundaries of their integer domain (domain); index unit of s[i] (known finding).",
    "C16": "Also: index / surplus-argument accesses in builders; borrow discipline of RefCell guards; collection-length subtractions are guarded (len-minus); the parser's recursion depth is bounded (depth; known finding). Also: a constant index is converted to usize by the type checker before the element type is answered (index-const).",
    "C17": "Also: from_str_radix radix range; container taint for indexing program lists; frames held during a call; borrow discipline.",
    "C18": "Also: the index unit of the transpiler's split (char vs byte). Also: the arguments split_string decoded reach the binary writer unchanged (arguments-unchanged); NUL is a sampled class.",
}

# round 11
for _k, _v in {
    "C01": " Also: no compiler function removes or reorders items of compiled code (no-edit).",
    "C03": " Also: parse_expr returns an expression only behind the type check of the finished tree (typed-tree).",
    "C05": " Also: the `==` / `!=` handlers push (the negation of) what Primitive::equals returned; nothing compares program values with the derived PartialEq (equality-route).",
    "C06": " Also: every operand of a folded operator is the child's try_constexpr_eval result (fold-entry operands).",
    "C09": " Also: no compiler function removes or reorders items of compiled code (no-edit).",
    "C10": " Also: a plain declaration tests its own constness against a name the function already has (const-over-existing).",
    "C12": " Also: the dependency walk reads every code-bearing field of the optional forms (visit).",
    "C13": " Also: remove() / xs[i] succeed only behind the in-range edge of a test of the plain index against len (index-guard).",
    "C14": " Also: helpers that narrow an integer parameter carrying a program number are evaluated on boundary values (cast int-range).",
    "C16": " Also: parse_expr returns only type-checked trees (typed-tree), the invariant the counted typing unwraps rest on.",
}.items():
    ADDED[_k] = (ADDED.get(_k, "") + _v).strip()
# round 24 (session 7)
for _k, _v in {
    "C02": " Also: a built-in answers with the kind its signature declares or fails (builtin-kind, shared with C14's domain probes).",
    "C06": " Also: smallest % -1 is answered by the interpreter for every pairing of kinds (failure-equivalence|Modulo|smallest).",
    "C10": " Also: the `or` step of root_ident answers with the const root (root-ident-or-const).",
    "C14": " Also: integer powers are computed in the declared width, i128 (width).",
}.items():
    ADDED[_k] = (ADDED.get(_k, "") + _v).strip()
# round 23 (session 7)
for _k, _v in {
    "C17": " Also: no program number is narrowed or loses its sign on the way into an operation (narrowing, shared with C05).",
}.items():
    ADDED[_k] = (ADDED.get(_k, "") + _v).strip()
# round 22 (session 7)
for _k, _v in {
    "C03": " Also: the fallback of `or` is judged by eq_complex, not around it by == / != (or-fallback).",
    "C04": " Also: the serializers write text by character (codec-text).",
    "C07": " Also: every net dependency of a function is listed as a captured name (captures-complete).",
    "C08": " Also: only the two assignment instructions write through a field / element view (view-writers).",
    "C18": " Also: the transpiled file is entered under the spelling imports use, on every branch (entry-spelling, shared with C11).",
    "C20": " Also: the command-line parser splits no argument at a delimiter (dir-as-given|parser-split).",
}.items():
    ADDED[_k] = (ADDED.get(_k, "") + _v).strip()
# round 21 and the observations triaged after it (session 7)
for _k, _v in {
    "C06": " Also: the interpreter narrows no operand before it operates (runtime-narrowing, shared with C05).",
    "C13": " Also: what GcMap::insert stores went through move_out_of_heap_primitive, key and value.",
    "C14": " Also: ties with an even integer part tell half-away-from-zero from ties-to-even; sqrt of a negative receiver fails (domain).",
    "C15": " Also: expression generators park waiting values in counter-backed registers only (parked|register-kind).",
    "C17": " Also: the trace printer walks the frames once, whole (trace-complete).",
    "C19": " Also: the names of library and function are not cut at a separator on their way to the loader (destination|uncut).",
}.items():
    ADDED[_k] = (ADDED.get(_k, "") + _v).strip()
# round 20 and the observations triaged after it (session 7)
for _k, _v in {
    "C02": " Also: the static type of a map lookup against what a missing key answers (map-lookup: known finding).",
    "C04": " Also: compile writes the file it was asked for on every successful return (output-written).",
    "C06": " Also: the right operand of && / || is folded only when the left one does not decide (short-circuit; the fallback of `or`: known finding).",
    "C07": " Also: which supply cancels which dependency, by evaluation of eq_allow_callbacks (supply-match); every written temporary register was reserved (reserved-register).",
    "C08": " Also: the receiver of a method call waits in a reserved register (receiver-register, shared with C07).",
    "C20": " Also: the deleted path is not a text rendering of the entry's path (same-entry: Path::display / to_string_lossy).",
}.items():
    ADDED[_k] = (ADDED.get(_k, "") + _v).strip()
# round 19 and the observations triaged after it (session 7)
for _k, _v in {
    "C01": " Also: constant conditions are folded only through the compared operator tables (fold-scope, shared with C06); every from loop writes its counter after both bounds (skeleton).",
    "C04": " Also: no path is re-spelled (backslash folded) on a platform whose separator is the slash (path-spelling).",
    "C05": " Also: the parser hands an operator its operands as written (operands-as-written, shared with C15).",
    "C06": " Also: the negation of a float text of all zeros keeps the sign.",
    "C09": " Also: the implicit return is left out only when the last item of the body is ret (function-end).",
    "C10": " Also: the module test of a field step looks at the type with its wrappers off.",
    "C14": " Also: substring / insert / delete act on positions, never on the first occurrence of a text (by-position).",
    "C16": " Also: every target shape the type checker accepts for a compound assignment has code in the generator (opassign-target).",
    "C17": " Also: the program's result reaches main's exit status on every path (exit-status).",
}.items():
    ADDED[_k] = (ADDED.get(_k, "") + _v).strip()
# round 18 and the observations triaged after it (session 7)
for _k, _v in {
    "C02": " Also: the equality of class types compares their members (class-identity).",
    "C03": " Also: the directional tolerance of eq_complex does not reach the parts of two map types; for growable lists it does (container-invariance: known finding).",
    "C04": " Also: an option that run and execute both offer (--stack-size) has one default (cli-defaults).",
    "C07": " Also: a declaration does not cancel the dependencies of its own initializer, a from / while / if statement supplies nothing to its followers (supply-order); "
           "the counter of a from loop is looked up in the whole function (fresh-cell|lookup-extent).",
    "C11": " Also: a file that becomes known is in the module cache before its top-level code runs (once|initialising-mark).",
    "C20": " Also: clean works on the directory as the user spelled it (dir-as-given).",
}.items():
    ADDED[_k] = (ADDED.get(_k, "") + _v).strip()
# round 17 and the observations triaged after it (session 7)
for _k, _v in {
    "C01": " Also: the operand-order and parking clauses of the binary operators (operand-order, shared with C15 / C09.operands).",
    "C02": " Also: a call through a dot chain passes the object only to a method (method-self); `K? ?= nil` is accepted as the assignment it is; compound operators are read from their spelling.",
    "C10": " Also: every operator whose code stores into its left operand satisfies a condition under which the const test of the root is taken (storing-operator, per Op variant, by evaluation); "
           "root_ident follows a path of any length (root-ident-depth).",
    "C12": " Also: the parking / order clauses of `==` / `!=` with a nil operand (nil-test).",
    "C13": " Also: the identity of a list is its cell, not its buffer (list-identity).",
    "C14": " Also: floor / ceil / round / ipart / fpart are evaluated on 7.5, -7.5, -2.0 with std's f64 operations modelled exactly (float-parts).",
    "C15": " Also: the Pratt infix callback hands each operand to its own side of Expr::BinOp (source-order|infix-operands).",
    "C16": " Also: PEG ordered choices are free of exponential re-reading - no later alternative is a leading primary of an earlier one, no two alternatives share a literal + recursive-rule prefix "
           "(backtracking, 100+ pairs judged); an index into a map never takes the list path (index-dispatch).",
    "C17": " Also: nothing bounds the interpreter's recursion (depth|interpreter-recursion: known finding).",
    "C19": " Also: call_lib hands on any symbol name (symbol|call_lib|name, evaluated on dotted / mangled / non-ASCII names).",
}.items():
    ADDED[_k] = (ADDED.get(_k, "") + _v).strip()
# rounds 15 / 16 and the observations triaged after them (session 7)
for _k, _v in {
    "C01": " Also: the folder drops no operand that would run (fold-keeps-operands, shared with C15); statement keywords of the grammar are words (keyword-boundary).",
    "C02": " Also: a Void sub-expression is refused where its value is consumed (void-value); `Self` is typed like its class (self-type); a fixed-shape list is read as an open one only "
           "against the picked element type (coerce-open); a character of a str is not an assignment target (str-slot); `K ?= K?` is refused; every capture walk compares before it raises the depth (net-dependencies).",
    "C03": " Also: the operator table accepts no cell the interpreter refuses by kind (op-table, shared with C02); signature_check reaches list element types (signature-invariance|elements).",
    "C04": " Also: the in-memory builder and the file loader bind a repeated label to the same definition (function-table).",
    "C05": " Also: every path of the generator of a binary operator lays down the applying instruction once, after both operands (operator-applied).",
    "C06": " Also: the negation of every bigint text is a bigint (the unsuffixed literal -2147483648 is the parser's business).",
    "C07": " Also: an execution of a function is a new run in a new frame (fresh-activation); parameters are supplies of their own function only (parameter-scope).",
    "C08": " Also: the target path of `a.f op= v` is laid down once (target-once); `Self(..)` reaches the class wherever it is bound (self-constructor: known finding for classes of a function body).",
    "C09": " Also (operands): the operand-stack shape - handler stack effects (63 handlers evaluated on a scripted stack of 0..4 values) against the emitted words of 79 generator shapes, "
           "by induction over the AST (code(expression): empty stack -> one value): every instruction has a successful handler path at the height it is met with, children start on an empty stack, "
           "the word ends with the hypothesis' height. Index / DotChain code, unary minus and the argument re-load loop are not followed.",
    "C10": " Also: `modify` reads the constness of the captured declaration it writes (modify-target-const); root_ident follows `or`; the alias of a class is read-only; the flag keywords are words (keyword-boundary); "
           "a module test in a helper predicate is evaluated, not matched.",
    "C11": " Also: writes through a module or any (captured) alias of it are refused (exports-read-only, shared with C10); the entry path of the CLI is spelled like an import (module-identity|entry); import keywords are words.",
    "C12": " Also: the position of a `get` is that of the `get` token (parser|token); `nil` is a word.",
    "C13": " Also: member accesses are answered by the interpreter (method-dispatch); `==` / index_of are not offered where an element has no equality (element-equality).",
    "C14": " Also: the folder hands back nothing but Numbers out of the compared tables (fold-scope, shared with C06).",
    "C15": " Also: the parser re-orders no sequence the generators walk (source-order); target and right-hand side of a compound assignment are each laid down once (once|opassign).",
    "C16": " Also: an unwrapped Path::file_name is safe only while the grammar cannot spell `..` (path-shape); eq_complex visits the parts of same-shaped composite types once (single-visit|eq_complex).",
    "C18": " Also: the transpiler keeps records in sequence (records-in-order); a transpile source name ends in the whole `.transpiled.mmm` (source-name).",
}.items():
    ADDED[_k] = (ADDED.get(_k, "") + _v).strip()
# round 14
for _k, _v in {
    "C03": " Also: `x op= y` is accepted only if the result fits back (opassign-result, shared with C02).",
    "C07": " Also: every name-writing emission site is a known write form (write-forms, shared with C10).",
    "C08": " Also: the field-store handlers never compare kinds (field-write).",
    "C11": " Also: import_names supplies the identifier it binds (names-import same-ident).",
}.items():
    ADDED[_k] = (ADDED.get(_k, "") + _v).strip()
# round 13 and the observations triaged after round 12
for _k, _v in {
    "C02": " Also: the loop counter starts at the kind of start + step (start-kind).",
    "C03": " Also: diagnostics name the source file (diagnostic-file).",
    "C05": " Also: the constant folder folds nothing but the table operators (fold-scope).",
    "C06": " Also: source digits are labelled int only if they fit i32 (literal-kind); only table operators are folded (only-tables).",
    "C07": " Also: the modify target carries the captured variable's declared type; fields supply no variable; a declaration supplies only what follows it (supply-order).",
    "C09": " Also: the start value of a from loop is promoted to the counter's kind (start-promotion).",
    "C11": " Also: export instructions are emitted for module-level declarations only (module-level).",
    "C13": " Also: which built-ins return the receiver and which a new container (result-identity).",
    "C15": " Also: parked operands are values, not views (parked-by-value).",
    "C16": " Also: the folder's integer operations cannot panic (folder-arith); results of the code generator are not unwrapped and Expr::for_type has no assertions (codegen-errors).",
    "C17": " Also: byte offsets into text need an is_char_boundary guard.",
}.items():
    ADDED[_k] = (ADDED.get(_k, "") + _v).strip()
# round 12 and the observations triaged after round 11
for _k, _v in {
    "C01": " Also: a blank `return` is not refused in a function that yields void (blank-return).",
    "C02": " Also: the previous-binding lookup of a declaration covers the whole function, as the run-time store does (scope-extent).",
    "C03": " Also: identifier-shaped prefix words of the grammar are reserved (unknown-name prefix-word); the type of start + step is itself checked to be comparable (loop-step).",
    "C04": " Also: the loader recognises no record shape by a first byte that is an opcode (framing first-byte).",
    "C05": " Also: `neg` goes through Primitive::negate on every successful path.",
    "C06": " Also: Number::negate evaluated on concrete texts (ends of i32 and beyond, zero): kind and text.",
    "C07": " Also: no dependency is dropped between net_dependencies() and a make_function operand list (capture-list).",
    "C08": " Also: the process-wide ObjectBuilder is told name and fields on every path that builds (class-of-object).",
    "C10": " Also: previous-binding lookups are function-wide (lookup-extent).",
    "C11": " Also: `return` is accepted only inside of a function, so a module is never left by `ret` (module-exit).",
    "C12": " Also: `K? == K` is accepted wherever `K == K` is (eq-plain).",
    "C13": " Also: filter keeps the element it handed to its callback (filter-kept); 0.0 and -0.0 hash alike (hash-eq signed-zero).",
    "C16": " Also: `?=` is built only for a left operand that is the expression of a plain name (codegen-shape).",
    "C18": " Also: nothing edits the transpiler's line buffer in place (line-not-edited).",
}.items():
    ADDED[_k] = (ADDED.get(_k, "") + _v).strip()
for _pid, _t in ADDED.items():
    if _pid in CLAIMED and _t not in CLAIMED[_pid]["text"]:
        CLAIMED[_pid]["text"] = CLAIMED[_pid]["text"].rstrip() + " " + _t

NOT_APPLICABLE = {
}

# no hook commits exist; the only commits made to /repo are unguarded "fix:" repairs of genuine defects (see known_findings.json)
FIX_COMMITS = ["e2ae2a9", "cb2d1e0", "e7575e5", "7bc2f7d", "0af4d83", "e4a4c00", "58e025f", "686179e", "7296d9a", "fa4b68b", "379557f", "4b30646", "0420930", "3aba53e", "2f2a1a1", "40a185d", "926b1f7", "1bc1139", "80aa30b", "cb4346c", "34ccc50", "c46bbfb", "52e39f3", "113558c", "2f9df7c", "3049d27", "8c4d891", "b57e9f6", "06f5ab2", "b6686d7", "5bdb4bc", "21f2ccc", "f629b30", "fbc7074", "28b2626", "6155775", "1ab99d9", "cee19c4", "53a1bd0", "b6cca17", "c78cdc8", "9f6e522", "c0bdc04", "e618867", "2994d64", "3ba155b", "7462d6f", "86d0f93", "a29d87c", "92ac63d", "936263a", "3d2596a", "c5627c9", "94a3f9f", "18b62d2", "54a8656", "76c07fb", "ae83586", "674afb7", "c131531", "e64b68f", "2b24aaa", "2f32c8c", "bb82fe1", "cd2cb2d", "6eb0e25", "a54d8b4", "cc2025b", "f4347ee", "e715cf0", "3e51607", "c27b908", "bcd8490", "d5acc2d", "00643db", "8cee4df", "9125872", "841c404", "d5bced4", "95cb321", "23ef82e", "b17b313", "8466b29", "7df0dfe", "4bdb8c8", "0655e8a", "23cab12", "b0df27f", "ea8cb98", "4cb01ed", "f2df80c", "7a94e68", "8ce745e", "6359c2e", "52095d0", "4e0c15c", "d6c4235", "645767f", "14ac256", "68ca01d", "2153dbf", "0b18a7d", "aed5b92", "8745fa7", "6a8ae32", "d5c7d38", "8da70d5", "564558d", "dd15644", "b86a23f", "322d95d", "892ce53", "acc3e1f", "7598542", "461fed2", "0f78ae6", "eaa2d64", "e4cd873", "c806662", "8b95915", "385a806", "b9b7769", "441f28e", "717f784", "f44cb08", "71a90fe", "b70b51f", "9d3f0de"]

PENDING = "check not built yet in this round (framework under construction); planned per DESIGN.md §5/§8"


def main():
    props = [json.loads(l) for l in open(os.path.join(VERIF, "properties.jsonl"))]
    ids = [p["id"] for p in props]
    checks = []
    na = []
    for pid in ids:
        if pid in CLAIMED:
            c = CLAIMED[pid]
            checks.append({
                "property_id": pid,
                "quick_cmd": "bin/check %s --tier quick" % pid,
                "thorough_cmd": "bin/check %s --tier thorough" % pid,
                "evidence_file": "evidence/%s.json" % pid,
                "replay_cmd_template": "bin/check --explain {path}",
                "engine": "mscan+analysis",
                "level_claimed": {"category": "other", "text": c["text"], "design_ref": c["design_ref"]},
                "level_note": NOTE,
                "technique": c["technique"],
            })
        elif pid in NOT_APPLICABLE:
            na.append({"property_id": pid, "reason": NOT_APPLICABLE[pid]})
        else:
            na.append({"property_id": pid, "reason": PENDING})
    m = {
        "version": 1,
        "setup_cmd": "bin/setup",
        "hooks": {
            "guard": "mscript_verif",
            "enable": "no hooks are installed: static analysis reads /repo's working tree as it is (the guard name is reserved, unused)",
            "baseline_off_cmd": "cd /repo && cargo nextest run --workspace --no-fail-fast --tool-config-file pb:/w/lib/nextest.toml --profile pb --test-threads 8 --offline",
            "source_commits": FIX_COMMITS,
            "add_only": True,
        },
        "engines": [
            {"name": "mscan", "path": "engine/mscan", "serves_properties": sorted(CLAIMED),
             "kind_free_text": "rustc_private driver (nightly) run as RUSTC_WORKSPACE_WRAPPER under cargo check: dumps MIR with resolved callees, ADTs, impls, constants as JSON"},
            {"name": "gramdump", "path": "engine/gramdump", "serves_properties": [p for p in ("C16",) if p in CLAIMED],
             "kind_free_text": "pest_meta dump of compiler/src/grammar.pest (rule kinds and expression trees)"},
            {"name": "analysis", "path": "analysis", "serves_properties": sorted(CLAIMED),
             "kind_free_text": "Python 3 stdlib analysers over the facts: call graph, dominators, guarded-by, origin slicing, decision-table extraction by abstract interpretation of MIR"},
        ],
        "checks": checks,
        "notes": "Static-analysis family. Every claimed property is claimed at the level of named structural clauses (see level_claimed.text and DESIGN.md §5); undecided instances are listed in the evidence and never alarm.",
        "not_applicable": na,
    }
    with open(os.path.join(VERIF, "MANIFEST.json"), "w") as fh:
        json.dump(m, fh, indent=1)
        fh.write("\n")


if __name__ == "__main__":
    main()
