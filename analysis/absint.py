"""Abstract interpreter over the MIR facts (R-TABLE engine).

It evaluates a function body on *abstract* inputs (enum values of a chosen
variant with opaque payloads, character-class representatives, literals),
forking at every branch that depends on an opaque value.  It is used to read
hand-written case analyses (operator tables, built-in dispatch, the codec state
machines) as explicit finite tables; it never executes MScript programs.

Outcomes per path: ('return', value) | ('panic', what) | ('cutoff', why).
Every path carries the list of assumptions made at forks (`assume`), so a
result can be classified as kind-determined (no assumption on opaque data) or
data-dependent.
"""
import re

import mir
from mir import op_const


# ---- values -----------------------------------------------------------------
class V:
    __slots__ = ()


class Int(V):
    __slots__ = ("v", "ty")

    def __init__(self, v, ty="int"):
        self.v = v
        self.ty = ty

    def __repr__(self):
        if self.ty == "bool":
            return "true" if self.v else "false"
        if self.ty == "char":
            return repr(chr(self.v))
        return "%d%s" % (self.v, self.ty)

    def __eq__(self, o):
        return isinstance(o, Int) and o.v == self.v and o.ty == self.ty

    def __hash__(self):
        return hash((self.v, self.ty))


class Lin(V):
    """Linear expression  c + sum(coef * symbol)  over opaque non-negative quantities (lengths of opaque code blocks, an index into one).
    Exact normal form: two Lin values are equal iff they are the same expression.  Overflow of the machine type is not modelled."""
    __slots__ = ("terms", "c", "ty")

    def __init__(self, terms=(), c=0, ty="usize"):
        if isinstance(terms, dict):
            terms = terms.items()
        self.terms = tuple(sorted((k, v) for k, v in terms if v != 0))
        self.c = c
        self.ty = ty

    @staticmethod
    def of(v):
        if isinstance(v, Lin):
            return v
        if isinstance(v, Int) and v.ty not in ("bool", "char"):
            return Lin((), v.v, v.ty)
        return None

    def add(self, o, sign=1):
        d = dict(self.terms)
        for k, v in o.terms:
            d[k] = d.get(k, 0) + sign * v
        return Lin(d, self.c + sign * o.c, self.ty).norm()

    def scale(self, k):
        return Lin({s: v * k for s, v in self.terms}, self.c * k, self.ty).norm()

    def norm(self):
        return self if self.terms else Int(self.c, self.ty)

    def __repr__(self):
        parts = []
        for s, v in self.terms:
            parts.append(("%s" % s) if v == 1 else ("-%s" % s if v == -1 else "%d*%s" % (v, s)))
        if self.c or not parts:
            parts.append(str(self.c))
        return "(" + " + ".join(parts).replace("+ -", "- ") + ")"

    def __eq__(self, o):
        return isinstance(o, Lin) and o.terms == self.terms and o.c == self.c

    def __hash__(self):
        return hash(("Lin", self.terms, self.c))


class Flt(V):
    __slots__ = ("v",)

    def __init__(self, v):
        self.v = float(v)

    def __repr__(self):
        return "%rf64" % self.v

    def __eq__(self, o):
        return isinstance(o, Flt) and o.v == self.v

    def __hash__(self):
        return hash(("flt", self.v))


class Str(V):
    __slots__ = ("s",)

    def __init__(self, s):
        self.s = s

    def __repr__(self):
        return "str(%r)" % self.s

    def __eq__(self, o):
        return isinstance(o, Str) and o.s == self.s

    def __hash__(self):
        return hash(self.s)


class Variant(V):
    __slots__ = ("adt", "vi", "name", "fields")

    def __init__(self, adt, vi, name, fields=()):
        self.adt = adt
        self.vi = vi
        self.name = name
        self.fields = tuple(fields)

    def __repr__(self):
        a = self.adt.split("::")[-1] if self.adt else "?"
        if self.fields:
            return "%s::%s(%s)" % (a, self.name, ", ".join(repr(f) for f in self.fields))
        return "%s::%s" % (a, self.name)

    def __eq__(self, o):
        return isinstance(o, Variant) and (o.adt, o.vi, o.fields) == (self.adt, self.vi, self.fields)

    def __hash__(self):
        return hash((self.adt, self.vi, self.fields))


class Tup(V):
    __slots__ = ("fields",)

    def __init__(self, fields=()):
        self.fields = tuple(fields)

    def __repr__(self):
        return "(%s)" % ", ".join(repr(f) for f in self.fields)

    def __eq__(self, o):
        return isinstance(o, Tup) and o.fields == self.fields

    def __hash__(self):
        return hash(self.fields)


class Ptr(V):
    __slots__ = ("fid", "local", "proj")

    def __init__(self, fid, local, proj=()):
        self.fid = fid
        self.local = local
        self.proj = tuple(proj)

    def __repr__(self):
        return "&f%d._%d%s" % (self.fid, self.local, "".join("." + str(p[1]) if p[0] == "field" else "" for p in self.proj))

    def __eq__(self, o):
        return isinstance(o, Ptr) and (o.fid, o.local, o.proj) == (self.fid, self.local, self.proj)

    def __hash__(self):
        return hash((self.fid, self.local, self.proj))


class Opaque(V):
    __slots__ = ("tag", "ty")

    def __init__(self, tag, ty=None):
        self.tag = tag
        self.ty = ty

    def __repr__(self):
        return "?%s" % (self.tag,)

    def __eq__(self, o):
        return isinstance(o, Opaque) and o.tag == self.tag

    def __hash__(self):
        return hash(("opaque", self.tag))


class Closure(V):
    __slots__ = ("defn", "caps")

    def __init__(self, defn, caps=()):
        self.defn = defn
        self.caps = tuple(caps)

    def __repr__(self):
        return "closure(%s)" % self.defn.split("::")[-1]

    def __eq__(self, o):
        return isinstance(o, Closure) and (o.defn, o.caps) == (self.defn, self.caps)

    def __hash__(self):
        return hash((self.defn, self.caps))


class FnItem(V):
    __slots__ = ("path",)

    def __init__(self, path):
        self.path = path

    def __repr__(self):
        return "fn(%s)" % self.path.split("::")[-1]

    def __eq__(self, o):
        return isinstance(o, FnItem) and o.path == self.path

    def __hash__(self):
        return hash(self.path)


UNIT = Tup(())
TRUE = Int(1, "bool")
FALSE = Int(0, "bool")


def mkbool(b):
    return TRUE if b else FALSE


KNOWN_ENUMS = {
    "core::option::Option": ["None", "Some"],
    "core::result::Result": ["Ok", "Err"],
    "core::ops::control_flow::ControlFlow": ["Continue", "Break"],
    "alloc::borrow::Cow": ["Borrowed", "Owned"],
    "core::cmp::Ordering": ["Less", "Equal", "Greater"],
}


def some(v):
    return Variant("core::option::Option", 1, "Some", (v,))


NONE = Variant("core::option::Option", 0, "None", ())


def ok(v):
    return Variant("core::result::Result", 0, "Ok", (v,))


def err(v):
    return Variant("core::result::Result", 1, "Err", (v,))


def adt_of_type(ty):
    """Head ADT path of a type string (references stripped)."""
    if ty is None:
        return None
    t = ty.strip()
    while t.startswith("&"):
        t = t[1:].lstrip()
        if t.startswith("mut "):
            t = t[4:]
        if t.startswith("'"):
            t = t.split(" ", 1)[1] if " " in t else t
    m = re.match(r"^([A-Za-z_][A-Za-z0-9_:#]*)", t)
    return m.group(1) if m else None


class Path:
    """One explored path."""
    __slots__ = ("frames", "stack", "assume", "events", "steps", "visits", "next_fid", "data_dep")

    def __init__(self):
        self.frames = {}     # fid -> {local: V}
        self.stack = []      # list of (fid, Fn, bb, ret_place (fid, place) or None, ret_target)
        self.assume = []
        self.events = []
        self.steps = 0
        self.visits = {}
        self.next_fid = 0
        self.data_dep = False

    def fork(self):
        p = Path()
        p.frames = {k: dict(v) for k, v in self.frames.items()}
        p.stack = [list(x) for x in self.stack]
        p.assume = list(self.assume)
        p.events = list(self.events)
        p.steps = self.steps
        p.visits = dict(self.visits)
        p.next_fid = self.next_fid
        p.data_dep = self.data_dep
        return p


class Outcome:
    __slots__ = ("kind", "value", "assume", "events", "data_dep", "where")

    def __init__(self, kind, value, path, where=None):
        self.kind = kind
        self.value = value
        self.assume = list(path.assume)
        self.events = list(path.events)
        self.data_dep = path.data_dep
        self.where = where

    def __repr__(self):
        return "<%s %r%s>" % (self.kind, self.value, " data-dep" if self.data_dep else "")


class Interp:
    def __init__(self, facts, models=None, max_depth=6, max_paths=4096, max_steps=20000, loop_bound=3,
                 inline=None, stop_at=None):
        self.F = facts
        self.models = dict(DEFAULT_MODELS)
        if models:
            self.models.update(models)
        self.max_depth = max_depth
        self.max_paths = max_paths
        self.max_steps = max_steps
        self.loop_bound = loop_bound
        self.inline = inline          # predicate(path_str) -> bool ; None = inline all local
        self.stop_at = stop_at        # predicate(fn, bb, path) -> outcome value or None
        self.outcomes = []
        self.exhausted = False
        self._fncache = {}

    # ---- helpers -------------------------------------------------------------
    def lookup_fn(self, path):
        if path not in self._fncache:
            self._fncache[path] = self.F.fn(path)
        return self._fncache[path]

    def variant_names(self, adt):
        if adt in KNOWN_ENUMS:
            return KNOWN_ENUMS[adt]
        a = self.F.adt(adt) if adt else None
        if a and a["kind"] == "Enum":
            return [v["name"] for v in a["variants"]]
        return None

    def field_count(self, adt, vi):
        a = self.F.adt(adt) if adt else None
        if a:
            return len(a["variants"][vi]["fields"])
        if adt in ("core::option::Option",):
            return 1 if vi == 1 else 0
        if adt in ("core::result::Result", "core::ops::control_flow::ControlFlow", "alloc::borrow::Cow"):
            return 1
        return 0

    # ---- place access ----------------------------------------------------------
    def read_local(self, p, fid, l):
        return p.frames[fid].get(l, Opaque("uninit_%d" % l))

    def read_place(self, p, fid, place):
        v = self.read_local(p, fid, place["l"])
        for e in place.get("p", []):
            v = self.project(p, v, e)
        return v

    def deref(self, p, v):
        if isinstance(v, Ptr):
            base = self.read_local(p, v.fid, v.local)
            for e in v.proj:
                base = self.project(p, base, e)
            return base
        if isinstance(v, Opaque):
            return Opaque(v.tag + ".*", None)
        return v   # value semantics for anything else (e.g. Box<T> modelled as T)

    def project(self, p, v, e):
        k = e[0]
        if k == "deref":
            return self.deref(p, v)
        if k == "downcast":
            return v
        if k == "field":
            i = e[1]
            fty = e[3] if len(e) > 3 else ""
            n_ = 0
            while isinstance(v, Ptr) and n_ < 4:
                # a field of a reference: one of the modelled calls (Deref::deref on `&&T`, `impl Deref` parameters) peeled one level less than the MIR did
                v = self.deref(p, v)
                n_ += 1
            if fty.startswith(("core::ptr::unique::Unique<", "core::ptr::non_null::NonNull<", "*const ", "*mut ")) and not (
                    isinstance(v, Variant) and v.adt and ("Unique" in v.adt or "NonNull" in v.adt)):
                # Box<T> is modelled as T: the raw-pointer plumbing of an elaborated box deref is transparent
                return v
            if isinstance(v, (Variant, Tup)):
                if i < len(v.fields):
                    return v.fields[i]
                return Opaque("nofield%d" % i)
            if isinstance(v, Closure):
                return v.caps[i] if i < len(v.caps) else Opaque("cap%d" % i)
            if isinstance(v, Opaque):
                return Opaque("%s.%s" % (v.tag, e[2]), e[3] if len(e) > 3 else None)
            return Opaque("proj")
        if isinstance(v, Ptr):
            v = self.deref(p, v)
        if k == "cidx" and isinstance(v, Tup):
            # [offset, min_length, from_end] on a slice / array of known elements
            off, from_end = int(e[1]), bool(e[3]) if len(e) > 3 else False
            i = len(v.fields) - off if from_end else off
            if 0 <= i < len(v.fields):
                return v.fields[i]
        if k == "subslice" and isinstance(v, Tup):
            frm, to, from_end = int(e[1]), int(e[2]), bool(e[3]) if len(e) > 3 else False
            hi = len(v.fields) - to if from_end else to
            if 0 <= frm <= hi <= len(v.fields):
                return Tup(v.fields[frm:hi])
        return Opaque("idx")

    def write_place(self, p, fid, place, val):
        proj = place.get("p", [])
        if not proj:
            p.frames[fid][place["l"]] = val
            return
        # resolve leading derefs through pointers
        cur_fid, cur_l, rest = fid, place["l"], list(proj)
        base = self.read_local(p, cur_fid, cur_l)
        while rest and rest[0][0] == "deref":
            if isinstance(base, Ptr):
                cur_fid, cur_l = base.fid, base.local
                rest = list(base.proj) + rest[1:]
                base = self.read_local(p, cur_fid, cur_l)
            else:
                return  # write through unknown pointer: dropped (recorded by caller)
        p.frames[cur_fid][cur_l] = self._write_into(p, base, rest, val)

    def _write_into(self, p, base, proj, val):
        if not proj:
            return val
        e = proj[0]
        if e[0] == "downcast":
            return self._write_into(p, base, proj[1:], val)
        if e[0] == "field" and isinstance(base, (Variant, Tup)):
            fs = list(base.fields)
            i = e[1]
            while len(fs) <= i:
                fs.append(Opaque("f%d" % len(fs)))
            fs[i] = self._write_into(p, fs[i], proj[1:], val)
            if isinstance(base, Variant):
                return Variant(base.adt, base.vi, base.name, fs)
            return Tup(fs)
        if e[0] == "field" and isinstance(base, Opaque):
            return base
        return base

    def place_type(self, fn, place):
        ty = fn.locals[place["l"]]
        for e in place.get("p", []):
            if e[0] == "field":
                ty = e[3] if len(e) > 3 else None
            elif e[0] == "deref" and ty:
                t = ty.lstrip("&").lstrip()
                if t.startswith("mut "):
                    t = t[4:]
                if ty.startswith("alloc::boxed::Box<"):
                    t = ty[len("alloc::boxed::Box<"):-1]
                ty = t
        return ty

    # ---- operands / rvalues --------------------------------------------------------
    def const(self, fn, k):
        if "int" in k:
            ty = k["ty"]
            return Int(int(k["int"]), "bool" if ty == "bool" else ("char" if ty == "char" else ty))
        if "str" in k:
            return Str(k["str"])
        if "fn" in k:
            return FnItem(k["fn"])
        if "promoted" in k:
            lits = self._promoted_value(fn, k["promoted"])
            if lits is not None:
                return lits
            return Opaque("promoted%d" % k["promoted"], k["ty"])
        if k.get("txt") == "()":
            return UNIT
        if k.get("ty") in ("f64", "f32") and k.get("txt"):
            m = re.match(r"^(-?[0-9.eE+\-]+|inf|-inf|NaN)_?f(64|32)$", k["txt"])
            if m:
                try:
                    return Flt(float(m.group(1)))
                except ValueError:
                    pass
        if "static" in k:
            # an immutable static with a literal initialiser: its value (a reference to it dereferences to the same value)
            sf = self.lookup_fn(k["static"])
            if sf is not None and sf.kind.startswith("Static") and "mutability: Not" in sf.kind and len(sf.blocks) == 1 and sf.blocks[0]["t"]["k"] == "return":
                st = [x for x in sf.blocks[0]["s"] if "d" in x]
                if len(st) == 1 and st[0]["d"] == {"l": 0} and "use" in st[0]["rv"] and "const" in st[0]["rv"]["use"] and "static" not in st[0]["rv"]["use"]["const"]:
                    return self.const(sf, st[0]["rv"]["use"]["const"])
            return Opaque("static:" + k["static"], k["ty"])
        if "named" in k:
            # a named constant with a literal initialiser: its value
            cf = self.lookup_fn(k["named"])
            if cf is not None and cf.kind.startswith("Const") and len(cf.blocks) == 1 and cf.blocks[0]["t"]["k"] == "return":
                st = [x for x in cf.blocks[0]["s"] if "d" in x]
                if len(st) == 1 and st[0]["d"] == {"l": 0} and "use" in st[0]["rv"] and "const" in st[0]["rv"]["use"] and "named" not in st[0]["rv"]["use"]["const"]:
                    return self.const(cf, st[0]["rv"]["use"]["const"])
            return Opaque("const:" + k["named"], k["ty"])
        # zero-sized closure / unit struct constants
        if "closure@" in k.get("ty", ""):
            return Opaque("closureconst", k["ty"])
        return Opaque("const:" + (k.get("txt") or "?")[:40], k["ty"])

    def _promoted_value(self, fn, idx):
        try:
            body = fn.d["promoted"][idx]
        except (KeyError, IndexError):
            return None
        # evaluate straight-line promoted body
        sub = mir.Fn(dict(body, path=fn.path + "::promoted[%d]" % idx, kind="Promoted"), fn.crate)
        it = Interp(self.F, models=self.models, max_depth=0, max_paths=4, max_steps=200)
        outs = it.run(sub, [])
        if len(outs) == 1 and outs[0].kind == "return":
            v = outs[0].value
            # pointers into the promoted frame are resolved to values
            return self._resolve_ptrs(outs[0], v, it)
        return None

    def _resolve_ptrs(self, out, v, it):
        if isinstance(v, Ptr):
            fr = it._last_frames.get(v.fid, {})
            base = fr.get(v.local, Opaque("p"))
            for e in v.proj:
                base = it.project(None, base, e) if not isinstance(base, Ptr) else base
            return self._resolve_ptrs(out, base, it)
        if isinstance(v, Tup):
            return Tup([self._resolve_ptrs(out, x, it) for x in v.fields])
        if isinstance(v, Variant):
            return Variant(v.adt, v.vi, v.name, [self._resolve_ptrs(out, x, it) for x in v.fields])
        return v

    def operand(self, p, fid, fn, op):
        if "const" in op:
            return self.const(fn, op["const"])
        pl = op.get("copy") or op.get("move")
        if pl is not None:
            return self.read_place(p, fid, pl)
        return Opaque("rtcheck")

    def rvalue(self, p, fid, fn, rv, dst_ty=None):
        if "use" in rv:
            return self.operand(p, fid, fn, rv["use"])
        if "ref" in rv or "rawptr" in rv:
            pl = rv.get("ref") or rv.get("rawptr")
            proj = pl.get("p", [])
            # &*ptr == ptr
            if proj and proj[0][0] == "deref":
                base = self.read_local(p, fid, pl["l"])
                if isinstance(base, Ptr):
                    return Ptr(base.fid, base.local, tuple(base.proj) + tuple(tuple(x) for x in proj[1:]))
                if len(proj) == 1:
                    return base
                v = base
                for e in proj:
                    v = self.project(p, v, e)
                return v
            return Ptr(fid, pl["l"], tuple(tuple(x) for x in proj))
        if "cast" in rv:
            v = self.operand(p, fid, fn, rv["op"])
            if isinstance(v, Int):
                to = rv["to"]
                if to in ("f64", "f32"):
                    return Flt(float(v.v))
                m_ = re.match(r"^([iu])(8|16|32|64|128|size)$", to or "")
                if m_ and v.ty not in ("bool", "char"):
                    # `as` between integer types keeps the low bits: exact, and recorded when the value did not fit
                    bits = 64 if m_.group(2) == "size" else int(m_.group(2))
                    lo, hi = (-(1 << (bits - 1)), (1 << (bits - 1)) - 1) if m_.group(1) == "i" else (0, (1 << bits) - 1)
                    if not lo <= v.v <= hi:
                        p.events.append(("i2i", v.v, to))
                        return Int((v.v - lo) % (1 << bits) + lo, to)
                return Int(v.v, "bool" if to == "bool" else ("char" if to == "char" else to))
            if isinstance(v, Flt):
                to = rv["to"]
                if to in ("f64", "f32"):
                    return v
                p.events.append(("f2i", v.v, to))
                return Opaque("float-to-int", to)
            if isinstance(v, Lin):
                return Lin(v.terms, v.c, rv["to"])
            if rv["cast"].startswith(("Transmute", "PtrToPtr", "PointerCoercion")):
                return v
            return v if isinstance(v, (Ptr, Closure, FnItem, Str)) else Opaque("cast(%s)" % getattr(v, "tag", "?"), rv["to"])
        if "bin" in rv:
            a = self.operand(p, fid, fn, rv["l"])
            b = self.operand(p, fid, fn, rv["r"])
            return self.binop(rv["bin"], a, b, rv.get("lty"))
        if "un" in rv:
            a = self.operand(p, fid, fn, rv["op"])
            if isinstance(a, Int):
                if rv["un"] == "Not":
                    if a.ty == "bool":
                        return mkbool(not a.v)
                    return Opaque("not")
                if rv["un"] == "Neg":
                    return Int(-a.v, a.ty)
            if isinstance(a, Lin) and rv["un"] == "Neg":
                return a.scale(-1)
            if isinstance(a, Flt) and rv["un"] == "Neg":
                return Flt(-a.v)
            if rv["un"] == "PtrMetadata":
                if isinstance(a, Str):
                    return Int(len(a.s.encode()), "usize")
                aa = a
                n_ = 0
                while isinstance(aa, Ptr) and n_ < 4:
                    aa = self.deref(p, aa)
                    n_ += 1
                if isinstance(aa, Tup):
                    return Int(len(aa.fields), "usize")
            return Opaque("un:%s(%s)" % (rv["un"], getattr(a, "tag", "?")))
        if "discr" in rv:
            v = self.read_place(p, fid, rv["discr"])
            if isinstance(v, Variant):
                return Int(v.vi, "isize")
            return Opaque("discr:" + getattr(v, "tag", repr(v)), ("discr", rv["discr"]))
        if "agg" in rv:
            a = rv["agg"]
            ops = [self.operand(p, fid, fn, o) for o in rv["ops"]]
            if a["k"] == "adt":
                return Variant(a["adt"], a["vi"], a["v"], ops)
            if a["k"] in ("tuple", "array"):
                return Tup(ops)
            if a["k"] == "closure":
                return Closure(a["def"], ops)
            return Opaque("agg")
        if "repeat" in rv:
            return Opaque("repeat")
        return Opaque("rv")

    def binop(self, op, a, b, lty=None):
        if isinstance(a, Int) and isinstance(b, Int):
            x, y = a.v, b.v
            if op in ("Eq", "Ne", "Lt", "Le", "Gt", "Ge"):
                r = {"Eq": x == y, "Ne": x != y, "Lt": x < y, "Le": x <= y, "Gt": x > y, "Ge": x >= y}[op]
                return mkbool(r)
            if op in ("Add", "AddUnchecked", "Sub", "SubUnchecked", "Mul", "BitAnd", "BitOr", "BitXor"):
                f = {"Add": x + y, "AddUnchecked": x + y, "Sub": x - y, "SubUnchecked": x - y, "Mul": x * y,
                     "BitAnd": x & y, "BitOr": x | y, "BitXor": x ^ y}[op]
                return Int(f, a.ty)
            if op in ("Shl", "Shr", "ShlUnchecked", "ShrUnchecked") and 0 <= y < 128:
                ty = lty or a.ty
                m_ = re.match(r"^([iu])(8|16|32|64|128|size)$", ty or "")
                if m_:
                    bits = 64 if m_.group(2) == "size" else int(m_.group(2))
                    if y < bits:
                        lo = -(1 << (bits - 1)) if m_.group(1) == "i" else 0
                        f = (x << y) if op.startswith("Shl") else (x >> y)        # python's >> is arithmetic on negatives, as Rust's on signed types
                        return Int((f - lo) % (1 << bits) + lo, a.ty)
            if op in ("AddWithOverflow", "SubWithOverflow", "MulWithOverflow"):
                f = {"AddWithOverflow": x + y, "SubWithOverflow": x - y, "MulWithOverflow": x * y}[op]
                # the overflow flag is exact when the operand type's range is known (`128u32 - 128 - 128` overflows)
                ty = lty or a.ty
                m_ = re.match(r"^([iu])(8|16|32|64|128|size)$", ty or "")
                if m_:
                    bits = 64 if m_.group(2) == "size" else int(m_.group(2))
                    lo, hi = (-(1 << (bits - 1)), (1 << (bits - 1)) - 1) if m_.group(1) == "i" else (0, (1 << bits) - 1)
                    if not lo <= f <= hi:
                        wrapped = (f - lo) % (1 << bits) + lo
                        return Tup([Int(wrapped, a.ty), TRUE])
                return Tup([Int(f, a.ty), FALSE])
        if isinstance(a, Lin) or isinstance(b, Lin):
            la, lb = Lin.of(a), Lin.of(b)
            if la is not None and lb is not None:
                if op in ("Add", "AddUnchecked", "Sub", "SubUnchecked"):
                    return la.add(lb, 1 if op.startswith("Add") else -1)
                if op in ("AddWithOverflow", "SubWithOverflow"):
                    return Tup([la.add(lb, 1 if op.startswith("Add") else -1), FALSE])
                if op in ("Mul", "MulWithOverflow") and (not la.terms or not lb.terms):
                    r = lb.scale(la.c) if not la.terms else la.scale(lb.c)
                    return Tup([r, FALSE]) if op == "MulWithOverflow" else r
                if op in ("Eq", "Ne"):
                    d = la.add(lb, -1)
                    if isinstance(d, Int):
                        return mkbool((d.v == 0) == (op == "Eq"))
        if isinstance(a, Flt) and isinstance(b, Flt):
            x, y = a.v, b.v
            if op in ("Eq", "Ne", "Lt", "Le", "Gt", "Ge"):
                return mkbool({"Eq": x == y, "Ne": x != y, "Lt": x < y, "Le": x <= y, "Gt": x > y, "Ge": x >= y}[op])
        if op in ("AddWithOverflow", "SubWithOverflow", "MulWithOverflow"):
            return Tup([Opaque("arith"), Opaque("ovf:%s" % op, "bool")])
        if op in ("Div", "Rem") and isinstance(b, Int) and b.v != 0 and isinstance(a, Int):
            return Opaque("quot")
        if op == "Eq" and isinstance(a, Ptr) and isinstance(b, Ptr):
            return mkbool(a == b)
        if op in ("Eq", "Ne", "Lt", "Le", "Gt", "Ge"):
            return Opaque("cmp:%s(%s,%s)" % (op, getattr(a, "tag", repr(a)), getattr(b, "tag", repr(b))), "bool")
        return Opaque("bin:%s" % op)

    # ---- running -------------------------------------------------------------------
    def run(self, fn, args, init_locals=None, start_bb=0):
        """Explore all paths of fn(args).  Returns list of Outcome."""
        self.outcomes = []
        self.exhausted = False
        self._last_frames = {}
        p = Path()
        fid = p.next_fid
        p.next_fid += 1
        fr = {}
        for i, a in enumerate(args):
            fr[i + 1] = a
        if init_locals:
            fr.update(init_locals)
        p.frames[fid] = fr
        p.stack.append([fid, fn, start_bb, None, None, None])
        work = [p]
        while work:
            if len(self.outcomes) + len(work) > self.max_paths:
                self.exhausted = True
                break
            cur = work.pop()
            self._run_path(cur, work)
        return self.outcomes

    def finish(self, p, kind, value, where=None):
        self._last_frames = p.frames
        self.outcomes.append(Outcome(kind, value, p, where))

    def _run_path(self, p, work):
        while True:
            p.steps += 1
            if p.steps > self.max_steps:
                self.finish(p, "cutoff", "step bound")
                return
            fid, fn, bb, retp, rett = p.stack[-1][:5]
            retwrap = p.stack[-1][5] if len(p.stack[-1]) > 5 else None
            depth = len(p.stack)
            key = (depth, fn.path, bb)
            p.visits[key] = p.visits.get(key, 0) + 1
            if p.visits[key] > self.loop_bound:
                self.finish(p, "cutoff", "loop bound at %s bb%d" % (mir.short(fn.path), bb))
                return
            if self.stop_at is not None and depth == 1:
                r = self.stop_at(fn, bb, p)
                if r is not None:
                    self.finish(p, "stop", r)
                    return
            blk = fn.blocks[bb]
            for s in blk["s"]:
                if "d" in s:
                    val = self.rvalue(p, fid, fn, s["rv"])
                    self.write_place(p, fid, s["d"], val)
                    if "agg" in s["rv"] and s["rv"]["agg"]["k"] == "array" and "vec" in (s.get("mc") or []):
                        # vec![a, b] writes the array through a freshly allocated box, then calls
                        # box_assume_init_into_vec_unsafe(box): remember the array for that call
                        p.frames.setdefault(-1, {})["vec_array"] = val
                elif "setdiscr" in s:
                    pass
            t = blk["t"]
            k = t["k"]
            if k == "goto":
                p.stack[-1][2] = t["target"]
            elif k == "drop":
                p.stack[-1][2] = t["target"]
            elif k == "return":
                rv = self.read_local(p, fid, 0)
                ent = p.stack.pop()
                if len(ent) > 6 and ent[6] is not None and p.stack:
                    # a model asked for a sequence of calls of the same function (for_each over a scripted collection)
                    rest, fin = ent[6][0], ent[6][1]
                    acc = (ent[6][2] if len(ent[6]) > 2 else ()) + (rv,)
                    del p.frames[fid]
                    stop = getattr(fin, "stop_when", None)
                    if rest and not (stop is not None and stop(rv)):
                        self._enter(p, fn, rest[0], retp[0], retp[1], rett, wrap=retwrap)
                        p.stack[-1].append((rest[1:], fin, acc))
                        continue
                    rv = fin(self, p, acc) if getattr(fin, "wants_results", False) else fin(self, p)
                    if retp is not None:
                        self.write_place(p, retp[0], retp[1], rv)
                    p.stack[-1][2] = rett
                    continue
                if not p.stack:
                    self.finish(p, "return", rv)
                    return
                cfid = p.stack[-1][0]
                if retwrap is not None:
                    rv = retwrap(rv)
                if retp is not None:
                    self.write_place(p, retp[0], retp[1], rv)
                p.stack[-1][2] = rett
                del p.frames[fid]
            elif k == "unreachable":
                self.finish(p, "panic", "unreachable-terminator", t.get("sp"))
                return
            elif k == "resume":
                self.finish(p, "panic", "unwind", t.get("sp"))
                return
            elif k == "assert" and t["msg"] in ("MisalignedPointerDereference", "NullPointerDereference", "InvalidEnumConstruction"):
                # compiler-inserted pointer validity checks: not program logic
                p.stack[-1][2] = t["target"]
            elif k == "assert":
                c = self.operand(p, fid, fn, t["cond"])
                if isinstance(c, Int):
                    if bool(c.v) == t["expected"]:
                        p.stack[-1][2] = t["target"]
                    else:
                        self.finish(p, "panic", "assert:" + t["msg"], t.get("sp"))
                        return
                else:
                    q = p.fork()
                    q.data_dep = True
                    q.assume.append(("assert-fails", t["msg"]))
                    self.finish(q, "panic", "assert:" + t["msg"], t.get("sp"))
                    p.stack[-1][2] = t["target"]
            elif k == "switch":
                d = self.operand(p, fid, fn, t["discr"])
                if isinstance(d, Int):
                    tgt = t["otherwise"]
                    # switch targets are written as the unsigned bit pattern of the discriminant's type
                    bits = {"i8": 8, "i16": 16, "i32": 32, "i64": 64, "i128": 128, "isize": 64}.get(t.get("dty") or d.ty)
                    dv = d.v % (1 << bits) if bits and d.v < 0 else d.v
                    for v, b in t["targets"]:
                        if int(v) == dv or int(v) == d.v:
                            tgt = b
                            break
                    p.stack[-1][2] = tgt
                else:
                    self._fork_switch(p, fid, fn, t, d, work)
                    return
            elif k == "call":
                cont = self._call(p, fid, fn, bb, t, work)
                if not cont:
                    return
            else:
                self.finish(p, "cutoff", "terminator " + k)
                return

    def _fork_switch(self, p, fid, fn, t, d, work):
        # opaque discriminant: if it is discriminant(place) of an enum with known variants, refine the place
        refine = None
        if isinstance(d, Opaque) and isinstance(d.ty, tuple) and d.ty[0] == "discr":
            place = d.ty[1]
            ty = self.place_type(fn, place)
            adt = adt_of_type(ty)
            names = self.variant_names(adt)
            if names:
                refine = (place, adt, names)
        targets = [(int(v), b) for v, b in t["targets"]]
        listed = {v for v, _ in targets}
        branches = []
        if refine:
            place, adt, names = refine
            for vi, nm in enumerate(names):
                tgt = dict(targets).get(vi, t["otherwise"])
                branches.append((tgt, ("variant", vi, nm)))
        else:
            for v, b in targets:
                branches.append((b, ("value", v)))
            branches.append((t["otherwise"], ("otherwise", sorted(listed))))
        first = True
        for tgt, how in branches:
            if fn.blocks[tgt]["t"]["k"] == "unreachable" and not fn.blocks[tgt]["s"]:
                continue
            q = p.fork()
            q.data_dep = True
            q.assume.append((getattr(d, "tag", "?"), how))
            if refine and how[0] == "variant":
                place, adt, names = refine
                cur = self.read_place(q, fid, place)
                tag = getattr(cur, "tag", "v")
                n = self.field_count(adt, how[1])
                nv = Variant(adt, how[1], how[2], [Opaque("%s.%s.%d" % (tag, how[2], i)) for i in range(n)])
                self._refine_place(q, fid, place, nv)
            else:
                # a bool/int local: remember the chosen value when the discriminant is a plain local
                dl = mir.op_local(t["discr"])
                if dl is not None and how[0] == "value" and not (mir.op_place(t["discr"]) or {}).get("p"):
                    q.frames[fid][dl] = Int(how[1], "bool" if t.get("dty") == "bool" else t.get("dty", "int"))
            q.stack[-1][2] = tgt
            work.append(q)

    def _refine_place(self, p, fid, place, nv):
        proj = place.get("p", [])
        cur_fid, cur_l, rest = fid, place["l"], list(proj)
        base = self.read_local(p, cur_fid, cur_l)
        # follow pointers for derefs
        while True:
            if rest and rest[0][0] == "deref" and isinstance(base, Ptr):
                cur_fid, cur_l = base.fid, base.local
                rest = list(base.proj) + rest[1:]
                base = self.read_local(p, cur_fid, cur_l)
                continue
            break
        if rest and rest[0][0] == "deref":
            if not isinstance(base, Ptr):
                # opaque reference: replace the reference's target by value semantics
                p.frames[cur_fid][cur_l] = self._write_into(p, base if not isinstance(base, Opaque) else nv, rest[1:], nv) if rest[1:] else nv
                return
        p.frames[cur_fid][cur_l] = self._write_into(p, base, rest, nv) if rest else nv
        # nested pointers inside projections (e.g. (*_1).0 where field holds a Ptr) are handled by _write_deep
        if rest and any(e[0] == "deref" for e in rest[1:]):
            self._write_deep(p, cur_fid, cur_l, rest, nv)

    def _write_deep(self, p, fid, l, proj, nv):
        # walk the projection; when hitting a deref on a Ptr value, redirect
        v = self.read_local(p, fid, l)
        for i, e in enumerate(proj):
            if e[0] == "deref" and isinstance(v, Ptr):
                self._refine_place(p, v.fid, {"l": v.local, "p": list(v.proj) + list(proj[i + 1:])}, nv)
                return
            v = self.project(p, v, e)

    # ---- calls ---------------------------------------------------------------------------
    def _call(self, p, fid, fn, bb, t, work):
        f = t["func"]
        args = [self.operand(p, fid, fn, a) for a in t["args"]]
        names = mir.name_forms(f.get("def")) | mir.name_forms(f.get("res"))
        callee = f.get("res") or f.get("def")
        tgt = t["target"]
        dst = t["dst"]
        if "ptr" in f:
            fv = self.operand(p, fid, fn, f["ptr"])
            if isinstance(fv, FnItem):
                callee = fv.path
                names = mir.name_forms(callee)
            else:
                callee = None
        # closures called through Fn/FnMut/FnOnce::call*
        if callee and any(n in names for n in ("core::ops::function::Fn::call", "core::ops::function::FnMut::call_mut",
                                                "core::ops::function::FnOnce::call_once")):
            cv = args[0]
            cv = self.deref(p, cv) if isinstance(cv, Ptr) else cv
            if isinstance(cv, Ptr):
                cv = self.deref(p, cv)
            if isinstance(cv, Closure):
                g = self.lookup_fn(cv.defn)
                if g is not None and len(p.stack) <= self.max_depth:
                    inner = list(args[1].fields) if isinstance(args[1], Tup) else [args[1]]
                    return self._enter(p, g, [cv] + inner, fid, dst, tgt)
            if isinstance(cv, FnItem):
                g = self.lookup_fn(cv.path)
                inner = list(args[1].fields) if isinstance(args[1], Tup) else [args[1]]
                if g is not None and len(p.stack) <= self.max_depth:
                    return self._enter(p, g, inner, fid, dst, tgt)
                callee = cv.path
                names = mir.name_forms(callee)
                args = inner
        # Option/Result combinators applied to a known variant and a known closure / fn item
        comb = None
        for n in names:
            if n in COMBINATORS:
                comb = COMBINATORS[n]
                break
        if comb is not None and len(args) >= 2 and isinstance(args[0], Variant) and tgt is not None:
            a0 = args[0]
            fv = args[1]
            applies, wrap, passthrough = comb(a0)
            if not applies:
                self.write_place(p, fid, dst, passthrough)
                p.stack[-1][2] = tgt
                return True
            g = None
            cargs = None
            if isinstance(fv, Closure):
                g = self.lookup_fn(fv.defn)
                cargs = [fv, a0.fields[0]]
            elif isinstance(fv, FnItem):
                g = self.lookup_fn(fv.path)
                cargs = [a0.fields[0]]
                if g is None:
                    # tuple-struct / variant constructor used as a function
                    self.write_place(p, fid, dst, wrap(Opaque("ctor:" + fv.path.split("::")[-1])))
                    p.stack[-1][2] = tgt
                    return True
            if g is not None and len(p.stack) <= self.max_depth:
                return self._enter(p, g, cargs, fid, dst, tgt, wrap=wrap)
        # `a == b`: look through references and std wrappers (Option, Box, Cow), then enter the local PartialEq impl
        if ("core::cmp::PartialEq::eq" in names or "core::cmp::PartialEq::ne" in names) and len(args) == 2 and not f.get("res_local") and tgt is not None:
            negate = "core::cmp::PartialEq::ne" in names and "core::cmp::PartialEq::eq" not in names

            def full(v):
                k = 0
                while isinstance(v, Ptr) and k < 8:
                    v = self.deref(p, v)
                    k += 1
                return v
            a0, b0 = full(args[0]), full(args[1])
            verdict = None
            for _ in range(6):
                if isinstance(a0, Variant) and isinstance(b0, Variant) and a0.adt == b0.adt and a0.adt in KNOWN_ENUMS:
                    if a0.vi != b0.vi:
                        verdict = False
                        break
                    if not a0.fields:
                        verdict = True
                        break
                    a0, b0 = full(a0.fields[0]), full(b0.fields[0])
                    continue
                break
            if verdict is None and isinstance(a0, Variant) and isinstance(b0, Variant) and a0.adt and a0.adt == b0.adt and not negate:
                g = self.lookup_fn("<%s as core::cmp::PartialEq>::eq" % a0.adt)
                if g is not None and len(p.stack) <= self.max_depth:
                    return self._enter(p, g, [a0, b0], fid, dst, tgt)
            if verdict is None:
                if isinstance(a0, Int) and isinstance(b0, Int):
                    verdict = a0.v == b0.v
                elif isinstance(a0, Str) and isinstance(b0, Str):
                    verdict = a0.s == b0.s
                elif isinstance(a0, Flt) and isinstance(b0, Flt):
                    verdict = a0.v == b0.v
            if verdict is not None:
                self.write_place(p, fid, dst, mkbool(verdict != negate))
                p.stack[-1][2] = tgt
                return True
        # models
        model = None
        for n in names:
            if n in self.models:
                model = self.models[n]
                break
        if model is not None:
            res = model(self, p, fid, fn, t, args)
            if res is NotImplemented:
                model = None
            else:
                return self._deliver(p, fid, fn, t, res, work)
        # diverging
        if tgt is None:
            mc = t.get("mc") or []
            what = "panic"
            for m in mc:
                if m in ("unreachable", "unimplemented", "todo", "panic", "assert", "assert_eq", "assert_ne", "debug_assert"):
                    what = m
                    break
            self.finish(p, "panic", "%s:%s" % (what, mir.short(callee or "?")), t.get("us") or t.get("sp"))
            return False
        g = self.lookup_fn(callee) if (callee and (f.get("res_local") or f.get("local") or "ptr" in f)) else None
        if g is not None and g.kind != "Closure" and len(p.stack) <= self.max_depth and (self.inline is None or self.inline(callee)):
            return self._enter(p, g, args, fid, dst, tgt)
        # unknown call: opaque result; havoc &mut targets
        p.events.append(("call", mir.strip_generics(callee or "?"), tuple(args)))
        for a in args:
            pass
        self.write_place(p, fid, dst, Opaque("call:%s@%d" % (mir.short(callee or "?"), bb), fn.locals[dst["l"]] if not dst.get("p") else None))
        p.stack[-1][2] = tgt
        return True

    def _enter(self, p, g, args, fid, dst, tgt, wrap=None):
        p.events.append(("enter", g.path))
        nf = p.next_fid
        p.next_fid += 1
        fr = {}
        # closures: MIR takes (closure, args...) with the tuple already spread by the caller for Fn::call
        for i, a in enumerate(args):
            fr[i + 1] = a
        p.frames[nf] = fr
        p.stack.append([nf, g, 0, (fid, dst), tgt, wrap])
        return True

    def _deliver(self, p, fid, fn, t, res, work):
        """res: a value | ('fork', [(value, assumption), ...]) | ('panic', what)"""
        tgt = t["target"]
        if isinstance(res, tuple) and res and res[0] == "enter":
            # a model asks to evaluate a local function / closure and deliver (wrap(result)) as the call's result
            _, g, cargs, wrap = res
            if tgt is None or len(p.stack) > self.max_depth + 2:
                self.write_place(p, fid, t["dst"], Opaque("enter-bound"))
                p.stack[-1][2] = tgt
                return tgt is not None
            return self._enter(p, g, cargs, fid, t["dst"], tgt, wrap=wrap)
        if isinstance(res, tuple) and res and res[0] == "enter_seq":
            # ('enter_seq', g, [args1, args2, ...], finish): call g once per argument list, then deliver finish(interp, path)
            _, g, arglists, fin = res
            if tgt is None:
                self.finish(p, "panic", "diverge")
                return False
            if not arglists:
                self.write_place(p, fid, t["dst"], fin(self, p, ()) if getattr(fin, "wants_results", False) else fin(self, p))
                p.stack[-1][2] = tgt
                return True
            self._enter(p, g, arglists[0], fid, t["dst"], tgt)
            p.stack[-1].append((list(arglists[1:]), fin, ()))
            return True
        if isinstance(res, tuple) and res and res[0] == "panic":
            self.finish(p, "panic", res[1], t.get("us") or t.get("sp"))
            return False
        if isinstance(res, tuple) and res and res[0] == "fork":
            for val, how in res[1]:
                q = p.fork()
                q.data_dep = True
                q.assume.append(how)
                if tgt is None:
                    self.finish(q, "panic", "diverge")
                    continue
                self.write_place(q, fid, t["dst"], val)
                q.stack[-1][2] = tgt
                work.append(q)
            return False
        if tgt is None:
            self.finish(p, "panic", "diverge")
            return False
        self.write_place(p, fid, t["dst"], res)
        p.stack[-1][2] = tgt
        return True


# ---- default models of foreign functions ---------------------------------------------------
def _ident(it, p, fid, fn, t, args):
    return args[0]


def _deref_model(it, p, fid, fn, t, args):
    a = args[0]
    # Deref::deref(&x) -> &*x ; with value semantics for smart pointers: return the same pointer.
    # Cow<T> derefs to its payload.
    v = a
    n = 0
    while isinstance(v, Ptr) and n < 6:
        v = it.deref(p, v)
        n += 1
    if isinstance(v, Variant) and v.adt == "alloc::borrow::Cow" and v.fields:
        return v.fields[0]
    return a


def _clone(it, p, fid, fn, t, args):
    a = args[0]
    return it.deref(p, a) if isinstance(a, Ptr) else a


def _try_branch(it, p, fid, fn, t, args):
    a = args[0]
    CF = "core::ops::control_flow::ControlFlow"
    if isinstance(a, Variant) and a.adt == "core::result::Result":
        if a.vi == 0:
            return Variant(CF, 0, "Continue", (a.fields[0],))
        return Variant(CF, 1, "Break", (Variant("core::result::Result", 1, "Err", (a.fields[0],)),))
    if isinstance(a, Variant) and a.adt == "core::option::Option":
        if a.vi == 1:
            return Variant(CF, 0, "Continue", (a.fields[0],))
        return Variant(CF, 1, "Break", (NONE,))
    tag = getattr(a, "tag", "try")
    ga = (t["func"].get("ga") or [""])[0]
    if ga.startswith("core::option::Option"):
        return ("fork", [(Variant(CF, 0, "Continue", (Opaque(tag + ".Some"),)), (tag, ("variant", 1, "Some"))),
                         (Variant(CF, 1, "Break", (NONE,)), (tag, ("variant", 0, "None")))])
    return ("fork", [(Variant(CF, 0, "Continue", (Opaque(tag + ".Ok"),)), (tag, ("variant", 0, "Ok"))),
                     (Variant(CF, 1, "Break", (err(Opaque(tag + ".Err")),)), (tag, ("variant", 1, "Err")))])


def _from_residual(it, p, fid, fn, t, args):
    a = args[0]
    if isinstance(a, Variant) and a.adt == "core::result::Result":
        return Variant("core::result::Result", 1, "Err", (Opaque("err"),))
    if isinstance(a, Variant) and a.adt == "core::option::Option":
        return NONE
    ty = fn.locals[t["dst"]["l"]]
    if ty.startswith("core::option::Option"):
        return NONE
    return err(Opaque("err"))


def _format_err(it, p, fid, fn, t, args):
    return Opaque("anyhow_error")


def _box_new(it, p, fid, fn, t, args):
    return args[0]


def _some_is(it, p, fid, fn, t, args):
    a = it.deref(p, args[0]) if isinstance(args[0], Ptr) else args[0]
    if isinstance(a, Variant):
        return mkbool(a.vi == 1)
    return NotImplemented


def _none_is(it, p, fid, fn, t, args):
    a = it.deref(p, args[0]) if isinstance(args[0], Ptr) else args[0]
    if isinstance(a, Variant):
        return mkbool(a.vi == 0)
    return NotImplemented


def _str_eq(it, p, fid, fn, t, args):
    a = it.deref(p, args[0]) if isinstance(args[0], Ptr) else args[0]
    b = it.deref(p, args[1]) if isinstance(args[1], Ptr) else args[1]
    while isinstance(a, Ptr):
        a = it.deref(p, a)
    while isinstance(b, Ptr):
        b = it.deref(p, b)
    if isinstance(a, Str) and isinstance(b, Str):
        return mkbool(a.s == b.s)
    if isinstance(a, Int) and isinstance(b, Int):
        return mkbool(a.v == b.v)
    return NotImplemented


def _str_ne(it, p, fid, fn, t, args):
    r = _str_eq(it, p, fid, fn, t, args)
    if r is NotImplemented:
        return r
    return mkbool(not r.v)


def _discr_value(it, p, fid, fn, t, args):
    a = args[0]
    n = 0
    while isinstance(a, Ptr) and n < 6:
        a = it.deref(p, a)
        n += 1
    if isinstance(a, Variant):
        return Int(a.vi, "isize")
    return NotImplemented


def _comb_option_map(a):
    if a.adt == "core::option::Option":
        if a.name == "Some":
            return True, (lambda v: some(v)), None
        return False, None, a
    return False, None, a


def _comb_option_and_then(a):
    if a.adt == "core::option::Option":
        if a.name == "Some":
            return True, (lambda v: v), None
        return False, None, a
    return False, None, a


def _comb_is_some_and(a):
    if a.adt == "core::option::Option":
        if a.name == "Some":
            return True, (lambda v: v), None
        return False, None, FALSE
    return False, None, a


def _comb_result_map(a):
    if a.adt == "core::result::Result":
        if a.name == "Ok":
            return True, (lambda v: ok(v)), None
        return False, None, a
    return False, None, a


def _comb_result_map_err(a):
    if a.adt == "core::result::Result":
        if a.name == "Err":
            return True, (lambda v: err(v)), None
        return False, None, a
    return False, None, a


COMBINATORS = {
    "core::option::Option::map": _comb_option_map,
    "core::option::Option::and_then": _comb_option_and_then,
    "core::option::Option::is_some_and": _comb_is_some_and,
    "core::result::Result::map": _comb_result_map,
    "core::result::Result::map_err": _comb_result_map_err,
}


def _opt_as_ref(it, p, fid, fn, t, args):
    a = args[0]
    n = 0
    while isinstance(a, Ptr) and n < 6:
        a = it.deref(p, a)
        n += 1
    if isinstance(a, Variant):
        return a
    return NotImplemented


def _anyhow_context(it, p, fid, fn, t, args):
    a = args[0]
    if isinstance(a, Variant) and a.adt == "core::option::Option":
        return ok(a.fields[0]) if a.name == "Some" else err(Opaque("context_err"))
    if isinstance(a, Variant) and a.adt == "core::result::Result":
        return a if a.name == "Ok" else err(Opaque("context_err"))
    return NotImplemented


def _opt_unwrap(it, p, fid, fn, t, args):
    a = args[0]
    if isinstance(a, Variant) and a.adt in ("core::option::Option", "core::result::Result"):
        if a.name in ("Some", "Ok"):
            return a.fields[0]
        return ("panic", "unwrap on %s" % a.name)
    return NotImplemented


def _vec_from_box(it, p, fid, fn, t, args):
    st = p.frames.get(-1, {})
    if "vec_array" in st:
        v = st["vec_array"]
        st = dict(st)
        del st["vec_array"]
        p.frames[-1] = st
        return v
    return NotImplemented


def _empty_vec(it, p, fid, fn, t, args):
    return Tup(())


def _str_parse_int(it, p, fid, fn, t, args):
    """str::parse::<iN/uN> on a known text (Rust's FromStr for integers: an optional sign, then decimal digits only)."""
    a = args[0]
    k = 0
    while isinstance(a, Ptr) and k < 6:
        a = it.deref(p, a)
        k += 1
    ga = (t.get("func", {}).get("ga") or [None])[0]
    m = re.match(r"^([iu])(8|16|32|64|128|size)$", ga or "")
    if not isinstance(a, Str) or not m:
        return NotImplemented
    bits = 64 if m.group(2) == "size" else int(m.group(2))
    lo, hi = (-(1 << (bits - 1)), (1 << (bits - 1)) - 1) if m.group(1) == "i" else (0, (1 << bits) - 1)
    if re.match(r"^[+-]?[0-9]+$", a.s) and not (m.group(1) == "u" and a.s.startswith("-") and False):
        v = int(a.s)
        if a.s.startswith("-") and m.group(1) == "u":
            return err(Opaque("ParseIntError"))
        if lo <= v <= hi:
            return ok(Int(v, ga))
    return err(Opaque("ParseIntError"))


def _res_is(which):
    def model(it, p, fid, fn, t, args):
        a = args[0]
        k = 0
        while isinstance(a, Ptr) and k < 6:
            a = it.deref(p, a)
            k += 1
        if isinstance(a, Variant) and a.adt == "core::result::Result":
            return mkbool(a.name == which)
        return NotImplemented
    return model


def _unwrap_or(it, p, fid, fn, t, args):
    a = args[0]
    if isinstance(a, Variant) and a.adt in ("core::result::Result", "core::option::Option"):
        return a.fields[0] if a.name in ("Ok", "Some") else args[1]
    return NotImplemented


DEFAULT_MODELS = {
    "core::result::Result::unwrap_or": _unwrap_or,
    "core::option::Option::unwrap_or": _unwrap_or,
    "core::str::<impl str>::parse": _str_parse_int,
    "core::result::Result::is_ok": _res_is("Ok"),
    "core::result::Result::is_err": _res_is("Err"),
    "alloc::boxed::box_assume_init_into_vec_unsafe": _vec_from_box,
    "alloc::vec::Vec::new": _empty_vec,
    "core::cell::RefCell::new": _box_new,
    "core::cell::Cell::new": _box_new,
    "anyhow::Context::context": _anyhow_context,
    "anyhow::Context::with_context": _anyhow_context,
    "core::option::Option::unwrap": _opt_unwrap,
    "core::option::Option::expect": _opt_unwrap,
    "core::result::Result::unwrap": _opt_unwrap,
    "core::result::Result::expect": _opt_unwrap,
    "core::option::Option::as_ref": _opt_as_ref,
    "core::option::Option::as_deref": _opt_as_ref,
    "core::intrinsics::discriminant_value": _discr_value,
    "core::ops::try_trait::Try::branch": _try_branch,
    "core::ops::try_trait::FromResidual::from_residual": _from_residual,
    "anyhow::__private::format_err": _format_err,
    "alloc::boxed::Box::new": _box_new,
    "alloc::rc::Rc::new": _box_new,
    "alloc::sync::Arc::new": _box_new,
    "core::clone::Clone::clone": _clone,
    "alloc::borrow::ToOwned::to_owned": _clone,
    "core::ops::deref::Deref::deref": _deref_model,
    "core::ops::deref::DerefMut::deref_mut": _deref_model,
    "core::convert::AsRef::as_ref": _deref_model,
    "core::borrow::Borrow::borrow": _deref_model,
    "core::convert::Into::into": _ident,
    "core::convert::From::from": _ident,
    "core::option::Option::is_some": _some_is,
    "core::option::Option::is_none": _none_is,
    "core::cmp::PartialEq::eq": _str_eq,
    "core::cmp::PartialEq::ne": _str_ne,
    "core::hint::must_use": _ident,
}


# ---- symbolic strings (codec analyses) -------------------------------------------------------
class SStr(V):
    """Symbolic string expression: ('lit', s) | ('arg', name) | ('cat', e...) | ('repl', e, from, to)"""
    __slots__ = ("e",)

    def __init__(self, e):
        self.e = e

    def __repr__(self):
        return "S%r" % (self.e,)

    def __eq__(self, o):
        return isinstance(o, SStr) and o.e == self.e

    def __hash__(self):
        return hash(("sstr", self.e))


def sexpr(it, p, v):
    """Coerce a value to a symbolic string expression (or None)."""
    n = 0
    while isinstance(v, Ptr) and n < 8:
        v = it.deref(p, v)
        n += 1
    if isinstance(v, SStr):
        return v.e
    if isinstance(v, Str):
        return ("lit", v.s)
    if isinstance(v, Int) and v.ty == "char":
        return ("lit", chr(v.v))
    if isinstance(v, Variant) and v.adt == "alloc::borrow::Cow" and v.fields:
        return sexpr(it, p, v.fields[0])
    return None


def scat(*es):
    parts = []
    for e in es:
        if e[0] == "cat":
            parts += list(e[1:])
        else:
            parts.append(e)
    merged = []
    for e in parts:
        if merged and merged[-1][0] == "lit" and e[0] == "lit":
            merged[-1] = ("lit", merged[-1][1] + e[1])
        else:
            merged.append(e)
    if len(merged) == 1:
        return merged[0]
    return ("cat",) + tuple(merged)


def _s_replace(it, p, fid, fn, t, args):
    e = sexpr(it, p, args[0])
    fr = sexpr(it, p, args[1])
    to = sexpr(it, p, args[2])
    if e is None or fr is None or to is None or fr[0] != "lit" or to[0] != "lit":
        return NotImplemented
    p.events.append(("replace", fr[1], to[1]))
    return SStr(("repl", e, fr[1], to[1]))


def _s_add(it, p, fid, fn, t, args):
    a = sexpr(it, p, args[0])
    b = sexpr(it, p, args[1])
    if a is None or b is None:
        return NotImplemented
    return SStr(scat(a, b))


def _s_new(it, p, fid, fn, t, args):
    return SStr(("lit", ""))


def _s_ident(it, p, fid, fn, t, args):
    e = sexpr(it, p, args[0])
    if e is None:
        return NotImplemented
    return SStr(e)


def _ptr_target(it, p, v):
    return v if isinstance(v, Ptr) else None


def _s_push(it, p, fid, fn, t, args):
    tgt = _ptr_target(it, p, args[0])
    e = sexpr(it, p, args[1])
    if e is None:
        e = ("unknown", repr(args[1]))
    p.events.append(("append", (tgt.fid, tgt.local) if tgt else None, e))
    if tgt is not None:
        cur = sexpr(it, p, it.deref(p, tgt))
        if cur is not None:
            it.write_place(p, tgt.fid, {"l": tgt.local, "p": [list(x) for x in tgt.proj]}, SStr(scat(cur, e)))
    return UNIT


def _s_clear(it, p, fid, fn, t, args):
    tgt = _ptr_target(it, p, args[0])
    p.events.append(("clear", (tgt.fid, tgt.local) if tgt else None))
    if tgt is not None:
        it.write_place(p, tgt.fid, {"l": tgt.local, "p": [list(x) for x in tgt.proj]}, SStr(("lit", "")))
    return UNIT


def _s_is_empty(it, p, fid, fn, t, args):
    e = sexpr(it, p, args[0])
    if e is not None and e[0] == "lit":
        return mkbool(e[1] == "")
    if e is not None and e[0] == "cat":
        if any(x[0] == "lit" and x[1] for x in e[1:]):
            return FALSE
    tag = "is_empty(%s)" % (repr(e) if e else getattr(args[0], "tag", "?"))
    return ("fork", [(TRUE, (tag, ("value", 1))), (FALSE, (tag, ("value", 0)))])


def _pattern(it, p, v):
    """A str::contains / starts_with pattern: ('str', s) | ('chars', 'abc') | None."""
    n = 0
    while isinstance(v, Ptr) and n < 8:
        v = it.deref(p, v)
        n += 1
    if isinstance(v, Tup) and v.fields and all(isinstance(x, Int) and x.ty == "char" for x in v.fields):
        return ("chars", "".join(chr(x.v) for x in v.fields))
    if isinstance(v, Int) and v.ty == "char":
        return ("chars", chr(v.v))
    e = sexpr(it, p, v)
    if e is not None and e[0] == "lit":
        return ("str", e[1])
    return None


def _s_contains(it, p, fid, fn, t, args):
    e = sexpr(it, p, args[0])
    pat = sexpr(it, p, args[1])
    pd = _pattern(it, p, args[1])
    p.events.append(("test-contains", e, pat))
    if e is not None and e[0] == "lit" and pd is not None:
        return mkbool((pd[1] in e[1]) if pd[0] == "str" else any(c in e[1] for c in pd[1]))
    tag = ("contains", e, pd) if (e is not None and pd is not None) else "contains(%r,%r)" % (e, pat)
    return ("fork", [(TRUE, (tag, ("value", 1))), (FALSE, (tag, ("value", 0)))])


def _c_is_whitespace(it, p, fid, fn, t, args):
    a = args[0]
    if isinstance(a, Int):
        return mkbool(chr(a.v).isspace())
    return NotImplemented


STRING_MODELS = {
    "core::str::<impl str>::replace": _s_replace,
    "alloc::str::<impl str>::replace": _s_replace,
    "core::ops::arith::Add::add": _s_add,
    "alloc::string::String::new": _s_new,
    "alloc::string::ToString::to_string": _s_ident,
    "alloc::borrow::ToOwned::to_owned": _s_ident,
    "core::clone::Clone::clone": _s_ident,
    "alloc::string::String::as_str": _s_ident,
    "alloc::string::String::push": _s_push,
    "alloc::string::String::push_str": _s_push,
    "alloc::string::String::clear": _s_clear,
    "alloc::string::String::is_empty": _s_is_empty,
    "core::str::<impl str>::is_empty": _s_is_empty,
    "core::str::<impl str>::contains": _s_contains,
    "core::char::methods::<impl char>::is_whitespace": _c_is_whitespace,
}
