"""C03 — nominal identity of user-defined types.

`eq_complex` has no arm for classes: two class types are compatible exactly when `ClassType == ClassType`.  That equality therefore
*is* the type rule for classes (arguments, annotated initialisers, returns, reassignments), and it must distinguish classes declared
in different files: a class is identified by its name *and* its declaring module (`path_str`).  The rule reads the fields both
operands of `<ClassType as PartialEq>::eq` (and `Hash::hash`, which must agree with it) project.
"""
import mir
from mir import op_place
from core import AnchorMissing

IDENTITY = {"compiler::ast::class::ClassType": ("name", "path_str")}


def fields_read(f, locals_):
    out = {l: set() for l in locals_}
    for bi, si, dst, rv, s in f.assigns():
        pls = []
        if "ref" in rv:
            pls.append(rv["ref"])
        if "use" in rv and op_place(rv["use"]):
            pls.append(op_place(rv["use"]))
        for pl in pls:
            if pl["l"] in out:
                for e in pl.get("p") or []:
                    if e[0] == "field":
                        out[pl["l"]].add(e[2])
                        break
    return out


def run(F, rep):
    n = 0
    for adt, required in IDENTITY.items():
        if F.adt(adt) is None:
            raise AnchorMissing(adt)
        short = adt.rsplit("::", 1)[-1]
        eqs = [f for f in F.crates["compiler"].fns if f.path == "<%s as core::cmp::PartialEq>::eq" % adt]
        if len(eqs) != 1:
            raise AnchorMissing("impl PartialEq for %s" % short)
        eq = eqs[0]
        fr = fields_read(eq, (1, 2))
        missing = [x for x in required if x not in fr[1] or x not in fr[2]]
        n += 1
        rep.ob("C03.type-identity", "%s == %s compares the declaring module as well as the name (classes of the same name in different files are different types)" % (short, short),
               "violated" if missing else "ok", "fields compared: %s; missing: %s" % (sorted(fr[1] & fr[2]), missing), eq.span, fn=eq.path,
               key="C03.type-identity|%s|eq" % short)
        hs = [f for f in F.crates["compiler"].fns if f.path.startswith("<%s as core::hash::Hash>::hash" % adt)]
        for h in hs[:1]:
            fh = fields_read(h, (1,))
            # Hash may be coarser than Eq but not finer; it is listed, not judged
            rep.extra.setdefault("hash_fields", {})[short] = sorted(fh[1])
    rep.floor("C03.type-identity equality implementations read", n, 1)


def zip_lengths(F, rep, rule):
    """Two sequences of types are compatible only if they have the same length.  `a.iter().zip(b.iter()).all(|(x, y)| compatible(x, y))` stops at the
    shorter one, so without a length comparison every type list is compatible with each of its extensions (`[int, str]` with `[int, str, bool]`,
    `fn(int)` with `fn(int, str)`).  Every zip whose pairs feed Iterator::all in crate compiler is dominated by an ==/!= comparison of two len()s."""
    import rules
    from mir import op_local
    LEN = ("alloc::vec::Vec::len", "core::slice::<impl [T]>::len", "compiler::ast::function_parameters::FunctionParameters::len")
    n = 0
    for f in F.crates["compiler"].fns:
        for c in f.calls():
            if not c.matches("core::iter::traits::iterator::Iterator::zip"):
                continue
            der = f.derived([c.dst["l"]], through_call=lambda cc, idx: True if 0 in idx else None)
            alls = [x for x in f.calls() if x.matches(("core::iter::traits::iterator::Iterator::all", "core::iter::traits::iterator::Iterator::any"))
                    and x.args and op_local(x.args[0]) in der]
            if not alls:
                continue
            n += 1
            lens = [x for x in f.calls() if x.matches(LEN)]
            ok = False
            for bi, si, dst, rv, s in f.assigns():
                if "bin" in rv and rv["bin"] in ("Eq", "Ne") and len(lens) >= 2 and {op_local(rv["l"]), op_local(rv["r"])} <= {x.dst["l"] for x in lens}:
                    if f.dominates(bi, c.bb):
                        ok = True
            fshort = mir.short(f.path)
            rep.ob(rule, "%s compares two type lists pairwise only after comparing their lengths" % fshort, "ok" if ok else "violated",
                   "zip(..).all(..) without a length comparison: a list of types is compatible with every extension of it", c.span, fn=f.path,
                   key="%s|%s" % (rule, fshort))
    rep.floor(rule + " pairwise type-list comparisons", n, 3)
