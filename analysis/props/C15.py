"""C15 — operands are evaluated left to right, once; logical operators short-circuit (the emission-order clause).

Decided: the *order in which the code generators lay down the code of their sub-expressions*.  Each generator is evaluated
abstractly (analysis/seqgen.py) with opaque children; the result is the emitted sequence as a word over code(child) and
instruction names.  Because the interpreter executes a function's instructions in sequence (jumps only forward over whole
sub-sequences, see the short-circuit rows), the position of code(child) in that word is the time at which the child is evaluated.

  order      code(left) precedes code(right) in every emitted sequence (binary operators, indexing, field access, `or`,
             list elements e1 < e2, map pairs k1 < v1 < k2 < v2, call: callee expression before the arguments)
  once       each child's code occurs exactly once
  short      `&&` / `||`: a store_skip sits between the operands; `x or y`: jmp_not_nil sits between them
Not decided: that the skip counts are right (jump arithmetic, C09), that later code does not disturb earlier values (registers are
fresh per operand by construction: TemporaryRegister ownership), argument order of calls at run time.
"""
import mir
import rules
import seqgen
import absint
from absint import Variant, Opaque, NONE, some
from core import AnchorMissing

EXPR = "compiler::ast::math_expr::Expr"
OP = "compiler::ast::math_expr::Op"
VALUE = "compiler::ast::value::Value"
NEXT = "core::iter::traits::iterator::Iterator::next"

ASSIGN_OPS = ("AddAssign", "SubAssign", "MulAssign", "DivAssign", "ModAssign")


def scripted_next(items):
    def model(it, p, fid, fn, t, args):
        st = p.frames.setdefault(-1, {})
        n = st.get("n", 0)
        st["n"] = n + 1
        seq = list(reversed(items)) if st.get("rev") else items
        if n < len(seq):
            return some(seq[n])
        return NONE
    return model


def _rev_model(it, p, fid, fn, t, args):
    """Iterator::rev / slice::reverse on the scripted collection: the script is handed out in the opposite order."""
    st = p.frames.setdefault(-1, {})
    st["rev"] = not st.get("rev", False)
    return args[0] if args else NONE


REV_MODELS = {"core::iter::traits::iterator::Iterator::rev": _rev_model, "core::slice::<impl [T]>::reverse": _rev_model, "alloc::vec::Vec::reverse": _rev_model}


def positions(seq, tag):
    return [i for i, x in enumerate(seq) if x[0] == "code" and x[1].split(".")[0] == tag]


def ins_positions(seq, name):
    return [i for i, x in enumerate(seq) if x[0] == "ins" and x[1] == name]


def show(seq):
    return " ".join(("<%s>" % x[1].split(".")[0]) if x[0] == "code" else x[1] for x in seq)


def check_order(rep, key, label, rows, exhausted, first, second, between=None, where=None, fn=None, allow_missing_second=False):
    seqs = [r["seq"] for r in rows if r["seq"] is not None]
    if exhausted or not seqs:
        rep.ob("C15.order", label, "undecided", "no emitted sequence could be read (exhausted=%s, paths=%d)" % (exhausted, len(rows)), where, fn=fn, key=key)
        return 0
    bad = []
    for s in seqs:
        pf, ps = positions(s, first), positions(s, second)
        if allow_missing_second and not ps and len(pf) == 1:
            continue
        if len(pf) != 1 or len(ps) != 1:
            bad.append("`%s`: %s is emitted %d times, %s %d times" % (show(s), first, len(pf), second, len(ps)))
        elif pf[0] > ps[0]:
            bad.append("`%s`: the code of %s is laid down after the code of %s, so %s is evaluated first" % (show(s), first, second, second))
        elif between:
            bp = ins_positions(s, between)
            if not any(pf[0] < b < ps[0] for b in bp):
                bad.append("`%s`: no %s between %s and %s (no short-circuit)" % (show(s), between, first, second))
    rep.ob("C15.order", label, "violated" if bad else "ok", "; ".join(sorted(set(bad)))[:600] if bad else "emitted: %s" % show(seqs[0]), where, fn=fn, key=key)
    return len(seqs)


def run(ctx, rep):
    F = ctx.facts("default", ["compiler", "bytecode"])
    rep.explain("C15 (emission order): every expression generator is evaluated abstractly with opaque sub-expressions; the emitted instruction "
                "sequence is read as a word over code(child) and instruction names, and left-to-right / exactly-once / short-circuit are decided "
                "on that word.")
    rep.assume("a function's instructions execute in sequence; jumps emitted by these generators only skip forward over a whole sub-sequence")
    rep.assume("the skip counts of store_skip / jmp_not_nil are not decided here (jump arithmetic); only that the instruction sits between the operands")
    ea, oa, va = F.adt(EXPR), F.adt(OP), F.adt(VALUE)
    if ea is None or oa is None or va is None:
        raise AnchorMissing("Expr / Op / Value")
    en = [v["name"] for v in ea["variants"]]
    on = [v["name"] for v in oa["variants"]]
    vn = [v["name"] for v in va["variants"]]
    cd = F.fn("compiler::ast::math_expr::compile_depth")
    if cd is None:
        raise AnchorMissing("compile_depth")

    def expr(name, fields):
        return Variant(EXPR, en.index(name), name, fields)

    def binop(op, lhs=None):
        return expr("BinOp", [lhs if lhs is not None else Opaque("lhs"), Variant(OP, on.index(op), op, []), Opaque("rhs")])

    n = 0
    # ---- binary operators -------------------------------------------------------------------------------
    for op in on:
        if op in ASSIGN_OPS or op == "Unwrap":
            continue
        rows, ex = seqgen.sequences(F, cd, [binop(op), Opaque("state"), Opaque("depth")])
        between = "store_skip" if op in ("And", "Or") else None
        n += check_order(rep, "C15.order|binop|%s" % op, "`a %s b`: a is evaluated before b%s" % (op, ", with a short-circuit test in between" if between else ""),
                         rows, ex, "lhs", "rhs", between=between, where=cd.span, fn=cd.path)
    # ---- the left operand is off the operand stack while the right operand's code runs ---------------------------------------
    # (a call takes the *whole* operand stack as its arguments and clears it: a value left there while a sub-expression runs is lost, or
    #  becomes an argument, as soon as that sub-expression contains a call)
    PARK = {"store_fast": -1, "store_skip": -1, "jmp_not_nil": -1}
    parks_ok = parking_effects(F, rep)
    for op in on + ["NilEval"]:
        if op in ASSIGN_OPS or op == "Unwrap":
            continue
        e = binop(op) if op != "NilEval" else expr("NilEval", [Opaque("lhs"), Opaque("rhs")])
        rows, ex = seqgen.sequences(F, cd, [e, Opaque("state"), Opaque("depth")])
        seqs = sorted({r["seq"] for r in rows if r["seq"] is not None}, key=show)
        if ex or not seqs:
            rep.ob("C15.parked", "`a %s b`: emitted code" % op, "undecided", "no sequence read", cd.span, fn=cd.path, key="C15.parked|%s" % op)
            continue
        bad, unk = [], []
        for sq in seqs:
            pl, pr = positions(sq, "lhs"), positions(sq, "rhs")
            if len(pl) != 1 or len(pr) != 1 or pl[0] > pr[0]:
                continue            # judged by C15.order
            seg = sq[pl[0] + 1:pr[0]]
            depth = 1
            for x in seg:
                if x[0] == "ins" and x[1] in PARK:
                    depth += PARK[x[1]]
                else:
                    unk.append(show(sq))
                    depth = None
                    break
            if depth is not None and depth != 0:
                bad.append("`%s`: %d value(s) of this operator are still on the operand stack when the code of b starts" % (show(sq), depth))
        st = "violated" if bad else ("undecided" if (unk or not parks_ok) else "ok")
        rep.ob("C15.parked", "`a %s b`: the value of a is parked in a register (off the operand stack) while the code of b runs" % op, st,
               "; ".join(bad) if bad else ("unknown instruction between the operands: %s" % unk[:2] if unk else "emitted: %s" % show(seqs[0])), cd.span, fn=cd.path,
               key="C15.parked|%s" % op)
        n += 1
    # ---- ... and every call argument is parked before the next argument's code starts ------------------------------------------
    cac = [f for f in F.crates["compiler"].fns if f.path.startswith("<compiler::ast::callable::Callable") and f.path.endswith("as compiler::ast::Compile>::compile")]
    if cac:
        per_arg = [g for g in F.closures_of(cac[0]) if g.calls_to("compiler::ast::Compile::compile")]
        if not per_arg:
            # the arguments are compiled in a loop of Callable::compile itself: read the emitted sequence for two arguments and look at what lies
            # between their codes
            rows, ex = seqgen.sequences(F, cac[0], [Opaque("self"), Opaque("state")],
                                        extra_models=dict(REV_MODELS, **{NEXT: scripted_next([Opaque("lhs"), Opaque("rhs")])}))
            seqs = [r["seq"] for r in rows if r.get("seq") is not None]
            judged, bad = 0, []
            for sq in seqs:
                pl, pr = positions(sq, "lhs"), positions(sq, "rhs")
                if len(pl) != 1 or len(pr) != 1 or pl[0] > pr[0]:
                    continue
                judged += 1
                seg = sq[pl[0] + 1:pr[0]]
                if not seg or not all(x[0] == "ins" and x[1] in PARK for x in seg) or 1 + sum(PARK[x[1]] for x in seg) != 0:
                    bad.append(show(sq))
                # ... and the last argument is parked too, before the call itself
                tail = sq[pr[0] + 1:pr[0] + 2]
                if not tail or not (tail[0][0] == "ins" and tail[0][1] in PARK):
                    bad.append(show(sq))
            rep.floor("C15.parked call sequences with two arguments read", judged, 1)
            rep.ob("C15.parked", "`f(a, b)`: the value of each argument is parked in a register before the code of the next argument runs",
                   "violated" if bad else ("undecided" if (ex or not judged) else "ok"), "emitted: %s" % ([bad[0]] if bad else [show(sq) for sq in seqs][:1]), cac[0].span,
                   fn=cac[0].path, key="C15.parked|call-arguments")
            n += 1
        for g in per_arg:
            rows, ex = seqgen.sequences(F, g, [absint.Closure(g.path, [Opaque("cap%d" % i) for i in range(4)]), Opaque("x")])
            seqs = sorted({tuple(r["value"].items) for r in rows if r["kind"] == "return" and isinstance(r["value"], seqgen.Seq)}, key=show)
            good = bool(seqs) and not ex and all(len(sq) >= 2 and sq[0][0] == "code" and sq[-1][:2] == ("ins", "store_fast") and
                                                  all(x[0] == "ins" and x[1] in PARK for x in sq[1:]) and 1 + sum(PARK[x[1]] for x in sq[1:]) == 0 for sq in seqs)
            rep.ob("C15.parked", "`f(a, b)`: the value of each argument is parked in a register before the code of the next argument runs",
                   "ok" if good else ("undecided" if (ex or not seqs) else "violated"), "per argument: %s" % [show(sq) for sq in seqs][:2], g.span, fn=g.path,
                   key="C15.parked|call-arguments")
            n += 1
    # ---- && / ||: the skip count lands right after the operator's own code ------------------------------------------------
    import opcodes
    from mir import op_local, op_const
    lits = [(nm, c) for f_, nm, sp, c in opcodes.instruction_literals(F) if f_ is cd]
    skips = [c for nm, c in lits if nm == "store_skip"]
    rep.floor("C15.store_skip emission sites", len(skips), 2)
    consts = []
    for bi, si, dst, rv, s_ in cd.assigns():
        if "bin" in rv and rv["bin"] in ("AddWithOverflow", "Add") and rv.get("lty") == "usize":
            k = op_const(rv["r"])
            l = op_local(rv["l"])
            if k is None or l is None or not any(x.matches("alloc::vec::Vec::len") for x in rules.origin_calls(cd, l)):
                continue
            reach = cd.reachable(bi)
            nxt = [c for c in skips if c.bb in reach]
            if nxt:
                consts.append(int(k.get("int", "-1")))
    for op in ("And", "Or"):
        rows, ex = seqgen.sequences(F, cd, [binop(op), Opaque("state"), Opaque("depth")])
        seqs = [r["seq"] for r in rows if r["seq"] is not None]
        tail = None
        for sq in seqs:
            ps = positions(sq, "rhs")
            if len(ps) == 1:
                tail = len(sq) - ps[0] - 1
        oksk = tail is not None and len(consts) >= 2 and all(c == tail + 1 for c in consts)
        rep.ob("C15.short", "`a %s b`: when the left operand decides, the skip lands right after the operator's code (skip = len(code(b)) + %s)" % (
            "&&" if op == "And" else "||", (tail + 1) if tail is not None else "?"), "ok" if oksk else "violated",
               "instructions after code(b): %s; constants added to len(code(b)) before store_skip: %s" % (tail, consts), cd.span, fn=cd.path,
               key="C15.short|skip-count|%s" % op)

    # ---- compound assignment: the target's sub-expressions (index / receiver) come before the right-hand side --------------
    shapes = {"index": expr("Index", [Opaque("lhs"), Opaque("lhsindex")]) if "Index" in en else None,
              "field": expr("DotLookup", [Opaque("lhs"), Opaque("lhschain"), Opaque("ty")]) if "DotLookup" in en else None}
    for sname, shape in shapes.items():
        if shape is None:
            continue
        rows_all, ex_all = [], False
        for op in ASSIGN_OPS:
            rows, ex = seqgen.sequences(F, cd, [binop(op, lhs=shape), Opaque("state"), Opaque("depth")])
            rows_all += rows
            ex_all = ex_all or ex
        # multiplicity is judged apart from the order (the order of these two shapes is a known finding; a target evaluated twice is another matter)
        seqs_ = [r["seq"] for r in rows_all if r["seq"] is not None]
        twice = sorted({show(sq) for sq in seqs_ for tag in ("lhs", "rhs", "lhsindex", "lhschain") if len(positions(sq, tag)) > 1})
        rep.ob("C15.once", "`target op= b` with a%s target: the target path and b are each laid down once" % ("n index" if sname == "index" else " field"),
               "undecided" if (ex_all or not seqs_) else ("violated" if twice else "ok"),
               ("emitted %s: a call inside the target path (`pool.fresh(40).v += 2`, `self.next().n += k`) runs twice; the value is read from one object and written to another"
                % twice[:2]) if twice else "", cd.span, fn=cd.path, key="C15.once|opassign|%s" % sname)
        n += check_order(rep, "C15.order|opassign|%s" % sname,
                         "`target op= b` (+= -= *= /= %%=) with a%s target: the target's own sub-expressions are evaluated before b" % ("n index" if sname == "index" else " field"),
                         rows_all, ex_all, "lhs", "rhs", where=cd.span, fn=cd.path)
    # ---- indexing, field access, `or` ----------------------------------------------------------------------
    if "Index" in en:
        rows, ex = seqgen.sequences(F, cd, [expr("Index", [Opaque("lhs"), Opaque("rhs")]), Opaque("state"), Opaque("depth")])
        n += check_order(rep, "C15.order|index", "`a[i]`: a is evaluated before i", rows, ex, "lhs", "rhs", where=cd.span, fn=cd.path)
    if "DotLookup" in en:
        rows, ex = seqgen.sequences(F, cd, [expr("DotLookup", [Opaque("lhs"), Opaque("rhs"), Opaque("ty")]), Opaque("state"), Opaque("depth")])
        n += check_order(rep, "C15.order|field", "`a.f(..)`: a is evaluated before the chain's arguments", rows, ex, "lhs", "rhs", where=cd.span, fn=cd.path)
    if "NilEval" in en:
        rows, ex = seqgen.sequences(F, cd, [expr("NilEval", [Opaque("lhs"), Opaque("rhs")]), Opaque("state"), Opaque("depth")])
        n += check_order(rep, "C15.order|nil-or", "`(x) or y`: x is evaluated first and y is skipped when x is present", rows, ex, "lhs", "rhs",
                         between="jmp_not_nil", where=cd.span, fn=cd.path)
    # ---- call: the callee expression before its arguments ---------------------------------------------------------
    cc = F.adt("compiler::ast::math_expr::CallableContents")
    if cc is not None and "Callable" in en:
        cn = [v["name"] for v in cc["variants"]]
        if "Standard" in cn:
            inner = Variant("compiler::ast::math_expr::CallableContents", cn.index("Standard"), "Standard", [Opaque("lhs"), Opaque("fty"), Opaque("rhs")])
            rows, ex = seqgen.sequences(F, cd, [expr("Callable", [inner]), Opaque("state"), Opaque("depth")],
                                        extra_models={"compiler::ast::callable::Callable::new": _callable_new})
            n += check_order(rep, "C15.order|call", "`f(args)`: the callee expression is evaluated before the arguments", rows, ex, "lhs", "rhs",
                             where=cd.span, fn=cd.path)
    # ---- literals: elements in order -----------------------------------------------------------------------------
    lc = [f for f in F.crates["compiler"].fns if f.path == "<compiler::ast::list::List as compiler::ast::Compile>::compile"]
    if len(lc) != 1:
        raise AnchorMissing("impl Compile for List")
    rows, ex = seqgen.sequences(F, lc[0], [Opaque("self"), Opaque("state")], extra_models=dict(REV_MODELS, **{NEXT: scripted_next([Opaque("lhs"), Opaque("rhs")])}))
    n += check_order(rep, "C15.order|list-literal", "`[e1, e2]`: e1 is evaluated before e2", rows, ex, "lhs", "rhs", where=lc[0].span, fn=lc[0].path)
    mc = [f for f in F.crates["compiler"].fns if f.path == "<compiler::ast::map::Map as compiler::ast::Compile>::compile"]
    if len(mc) != 1:
        raise AnchorMissing("impl Compile for Map")
    from absint import Tup
    pair1 = Tup((Opaque("lhs"), Opaque("rhs")))
    pair2 = Tup((Opaque("k2"), Opaque("v2")))
    rows, ex = seqgen.sequences(F, mc[0], [Opaque("self"), Opaque("state")],
                                extra_models=dict(REV_MODELS, **{NEXT: scripted_next([pair1, pair2]),
                                                                 "alloc::vec::Vec::is_empty": lambda it, p, fid, fn, t, a: __import__("absint").FALSE}))
    n += check_order(rep, "C15.order|map-literal|key-value", "`map{k: v}`: the key is evaluated before its value", rows, ex, "lhs", "rhs", where=mc[0].span, fn=mc[0].path)
    n += check_order(rep, "C15.order|map-literal|pairs", "`map{k1: v1, k2: v2}`: the first pair is evaluated before the second", rows, ex, "rhs", "k2",
                     where=mc[0].span, fn=mc[0].path)
    # ---- call arguments: compiled in list order (iterator chain without rev) ---------------------------------------------------
    ca = [f for f in F.crates["compiler"].fns if f.path.startswith("<compiler::ast::callable::Callable") and f.path.endswith("as compiler::ast::Compile>::compile")]
    if len(ca) != 1:
        raise AnchorMissing("impl Compile for Callable")
    ca = ca[0]
    bodies = [ca] + F.closures_of(ca)
    revs = [c for g in bodies for c in g.calls() if c.matches(("core::iter::traits::iterator::Iterator::rev", "core::slice::<impl [T]>::reverse", "alloc::vec::Vec::reverse"))]
    fm = [c for c in ca.calls() if c.matches(("core::iter::traits::iterator::Iterator::flat_map", "core::iter::traits::iterator::Iterator::map"))]
    col = [c for c in ca.calls() if c.matches("core::iter::traits::iterator::Iterator::collect")]
    it_src = []
    for c in fm:
        it_src += [x for x in rules.origin_calls(ca, mir.op_local(c.args[0])) if "iter" in x.callee()]
    comp_in_closure = any(g is not ca and g.calls_to("compiler::ast::Compile::compile") for g in bodies)
    okargs = bool(fm) and bool(col) and not revs and comp_in_closure and bool(it_src)
    # the other spelling: a `for` loop over arguments.iter() that compiles each argument and appends its code (no reversal anywhere)
    loop_next = [c for c in ca.calls() if c.matches(NEXT)]
    appended = [c for c in ca.calls() if c.matches(("alloc::vec::Vec::append", "alloc::vec::Vec::extend", "core::iter::traits::collect::Extend::extend", "alloc::vec::Vec::extend_from_slice"))]
    comp_in_body = bool(ca.calls_to("compiler::ast::Compile::compile"))
    loop_src = []
    for c in loop_next:
        loop_src += [x for x in rules.origin_calls(ca, mir.op_local(c.args[0]), transparent=rules.TRANSPARENT | {"core::iter::traits::collect::IntoIterator::into_iter"})
                     if "iter" in x.callee()]
    okloop = bool(loop_next) and bool(loop_src) and comp_in_body and bool(appended) and not revs and any(
        c.bb in ca.reachable(n_.target) for n_ in loop_next if n_.target is not None for c in ca.calls_to("compiler::ast::Compile::compile"))
    rep.ob("C15.order", "`f(a1, a2, ..)`: the arguments are compiled in list order (arguments.iter() folded front to back into one code vector, no reversal)",
           "ok" if (okargs or okloop) else "violated",
           "flat_map/map=%d collect=%d | loop next()=%d appends=%d | reversals=%d" % (len(fm), len(col), len(loop_next), len(appended), len(revs)),
           ca.span, fn=ca.path, key="C15.order|call-arguments")
    n += statements_emit_their_expression(F, rep, "C15.once")
    rep.floor("C15.emitted sequences read", n, 40)
    # ---- parked values are not disturbed: every nested expression gets its own register ---------------------------------------------
    # a binary operator parks its left value in the register it was handed (`store_fast depth`) while the right operand runs; if that same
    # register is handed down to a sub-expression of the right operand, a nested operator parks there too and the outer value is lost.
    bodies = [cd] + F.closures_of(cd)
    n_rec = 0
    for g in bodies:
        for c in g.calls_to("compiler::ast::math_expr::compile_depth"):
            if len(c.args) < 3:
                continue
            n_rec += 1
            l = mir.op_local(c.args[2])
            oc = rules.origin_calls(g, l, transparent=rules.TRANSPARENT) if l is not None else []
            fresh = bool(oc) and all(x.matches(("compiler::ast::CompilationState::poll_temporary_register",)) for x in oc)
            tp = rules.trace_paths(g, l, transparent=rules.TRANSPARENT) if l is not None else set()
            own = any(o[0] == "arg" for o, _ in tp) or (g is not cd and not oc)
            rep.ob("C15.undisturbed", "a nested expression is compiled with a fresh temporary register, never with the register its parent parks a value in",
                   "ok" if fresh and not own else "violated",
                   "the register handed down comes from %s" % ([mir.short(x.callee()) for x in oc] or sorted(str(o) for o, _ in tp)), c.span, fn=g.path,
                   key="C15.undisturbed|compile_depth|#%d" % n_rec)
    rep.floor("C15.recursive compile_depth calls", n_rec, 2)
    fold_keeps_operands(F, rep)
    source_order_kept(F, rep)
    infix_operands_keep_their_sides(F, rep)
    # "their values are not disturbed by the evaluation of later siblings": an operand that waits in a register while its siblings run
    # (store_fast / store_skip park it) has to be a value, not a view of the slot it was read from - the sibling may write that slot
    from props import C08 as _c08
    _c08.no_view_stored(F, rep, ctx, rule="C15.parked-by-value")
    # ... and wait in registers that were reserved for them (C07's walk of the store_fast emissions)
    from props import C07 as _c07
    from core import Report as _Report7
    tmp7 = _Report7("C07", rep.tier)
    _c07.fresh_cell_for_new_names_only(F, tmp7)
    _c07.expression_values_wait_in_registers(F, rep, rule="C15.parked")
    _c07.written_registers_are_reserved(F, rep, rule="C15.parked")


def fold_keeps_operands(F, rep, rule="C15.fold-keeps-operands"):
    """An expression the folder turns into a constant emits no code at all, so every operand it contained is never evaluated.  That is right
    only if every operand was itself a constant, or the language would not have evaluated the dropped operand anyway (`false && e`,
    `true || e`).  `Expr::try_constexpr_eval` is evaluated on a BinOp of every operator with its recursive calls scripted: one operand
    "not a constant" (Impossible), the other a constant boolean or number; the answer must be Impossible except for the two short-circuit
    cases with the constant on the left.  Same for the unary forms."""
    from absint import Interp, TRUE, FALSE
    CE = "compiler::ast::value::ConstexprEvaluation"
    VAL = "compiler::ast::value::Value"
    EXPR = "compiler::ast::math_expr::Expr"
    OP = "compiler::ast::math_expr::Op"
    f = F.fn("<compiler::ast::math_expr::Expr as compiler::ast::value::CompileTimeEvaluate>::try_constexpr_eval")
    ce, val, ex, opa = F.adt(CE), F.adt(VAL), F.adt(EXPR), F.adt(OP)
    if f is None or not all((ce, val, ex, opa)):
        raise AnchorMissing("Expr::try_constexpr_eval / ConstexprEvaluation / Value / Op")
    cen = [v["name"] for v in ce["variants"]]
    valn = [v["name"] for v in val["variants"]]
    exn = [v["name"] for v in ex["variants"]]
    opn = [v["name"] for v in opa["variants"]]
    if "Impossible" not in cen or "Owned" not in cen or "BinOp" not in exn:
        raise AnchorMissing("ConstexprEvaluation::{Impossible, Owned} / Expr::BinOp")
    imp = Variant(CE, cen.index("Impossible"), "Impossible", [])

    def owned(kind, payload):
        return Variant(CE, cen.index("Owned"), "Owned", [Variant(VAL, valn.index(kind), kind, [payload])])
    consts = {"true": owned("Boolean", TRUE), "false": owned("Boolean", FALSE), "a number": owned("Number", Opaque("number"))}
    script = []

    def rec(it, p, fid, fn, t, args):
        n = sum(1 for e in p.events if e[0] == "scripted")
        p.events.append(("scripted", n))
        return absint.ok(script[n]) if n < len(script) else absint.ok(Opaque("more"))
    models = dict(absint.DEFAULT_MODELS)
    models["compiler::ast::value::CompileTimeEvaluate::try_constexpr_eval"] = rec
    bvar = [v for v in ex["variants"] if v["name"] == "BinOp"][0]
    n = 0
    for opname in opn:
        bad, und = [], []
        for cname, cv in consts.items():
            for side, sc in (("right", [imp, cv]), ("left", [cv, imp])):
                script[:] = sc
                fields = [Variant(OP, opn.index(opname), opname, []) if fl["name"] == "op" else Opaque(fl["name"]) for fl in bvar["fields"]]
                it = Interp(F, models=models, max_depth=6, max_paths=256)
                outs = it.run(f, [Variant(EXPR, exn.index("BinOp"), "BinOp", fields)])
                n += 1
                allowed_const = side == "left" and ((opname == "And" and cname == "false") or (opname == "Or" and cname == "true"))
                for o in outs:
                    v = o.value
                    if o.kind == "panic":
                        continue
                    if o.kind != "return" or not isinstance(v, Variant):
                        und.append("%s constant %s: %s" % (side, cname, o.kind))
                        continue
                    if v.name == "Err":
                        continue
                    r = v.fields[0] if v.fields else None
                    if isinstance(r, Variant) and r.name == "Impossible":
                        continue
                    if isinstance(r, Variant) and r.name == "Owned":
                        if not allowed_const:
                            bad.append("with the %s operand %s and the other one not a constant the expression folds to %r: the other operand is never evaluated"
                                       % (side, cname, r.fields[0] if r.fields else r))
                    else:
                        und.append("%s constant %s: %r" % (side, cname, r))
                if it.exhausted:
                    und.append("path bound")
        rep.ob(rule, "`a %s b` folds to a constant only when no operand that would run is dropped" % opname,
               "violated" if bad else ("undecided" if und else "ok"), "; ".join((bad or und)[:3]), f.span, fn=f.path, key="%s|%s" % (rule, opname))
    # unary forms
    for uname in ("UnaryNot", "UnaryMinus"):
        if uname not in exn:
            continue
        script[:] = [imp]
        uv = [v for v in ex["variants"] if v["name"] == uname][0]
        it = Interp(F, models=models, max_depth=6, max_paths=256)
        outs = it.run(f, [Variant(EXPR, exn.index(uname), uname, [Opaque(fl["name"]) for fl in uv["fields"]])])
        n += 1
        bad = [repr(o.value)[:60] for o in outs if o.kind == "return" and isinstance(o.value, Variant) and o.value.name == "Ok"
               and not (isinstance(o.value.fields[0], Variant) and o.value.fields[0].name == "Impossible")]
        rep.ob(rule, "%s of a non-constant operand is not folded" % uname, "violated" if bad else "ok", "; ".join(bad[:2]), f.span, fn=f.path,
               key="%s|%s" % (rule, uname))
    rep.floor(rule + " evaluations", n, 100)


def _compile_whole(it, p, fid, fn, t, args):
    """compile_depth on the (known-variant) target of a compound assignment: its code is one symbol `lhs` (it contains the target's
    index / receiver sub-expressions)."""
    recv = seqgen.deref_all(it, p, args[0])
    if isinstance(recv, Variant) and recv.adt == EXPR and recv.name in ("Index", "DotLookup") and len(p.stack) > 1:
        return __import__("absint").ok(seqgen.Seq([("code", "lhs")]))
    if isinstance(recv, Opaque):
        return __import__("absint").ok(seqgen.Seq([("code", recv.tag)]))
    return NotImplemented


def _callable_new(it, p, fid, fn, t, args):
    # Callable::new(arguments, load_instruction, self_register): keep the arguments' tag so that callable.compile() is code(<arguments>)
    return Opaque(seqgen.tag_of(it, p, args[0]).split(".")[0])


def statements_emit_their_expression(F, rep, rule, only=None):
    """Every statement kind lays down the code of its payload on every path (nothing the user wrote is compiled away): evaluated on
    <Declaration as Compile>::compile with each variant and an opaque payload.  An expression statement is `<expr> void`."""
    DECL = "compiler::ast::declaration::Declaration"
    da = F.adt(DECL)
    if da is None:
        raise AnchorMissing(DECL)
    dc = [f for f in F.crates["compiler"].fns if f.path == "<%s as compiler::ast::Compile>::compile" % DECL]
    if len(dc) != 1:
        raise AnchorMissing("impl Compile for Declaration")
    dc = dc[0]
    n = 0
    for vi, v in enumerate(da["variants"]):
        if only and v["name"] not in only:
            continue
        if len(v["fields"]) != 1:
            continue
        rows, ex = seqgen.sequences(F, dc, [Variant(DECL, vi, v["name"], [Opaque("lhs")]), Opaque("state")])
        returned = [r for r in rows if r["kind"] == "return" and isinstance(r["value"], Variant) and r["value"].name == "Ok"]
        seqs = [r["seq"] for r in returned]
        if ex or not returned:
            rep.ob(rule, "statement `%s`: emitted code" % v["name"], "undecided", "no sequence read (exhausted=%s)" % ex, dc.span, fn=dc.path,
                   key="%s|statement|%s" % (rule, v["name"]))
            continue
        n += 1
        bad = [show(sq) if sq is not None else "<unreadable>" for sq in seqs if sq is None or len(positions(sq, "lhs")) != 1]
        extra = ""
        if v["name"] == "Value":
            bad += [show(sq) for sq in seqs if sq is not None and (len(sq) != 2 or sq[1][:2] != ("ins", "void"))]
            extra = " (`<expr> void`)"
        rep.ob(rule, "statement `%s` lays down its payload's code exactly once on every path%s" % (v["name"], extra), "violated" if bad else "ok",
               "paths without it: %s" % sorted(set(bad))[:3] if bad else "emitted: %s" % show(seqs[0]), dc.span, fn=dc.path,
               key="%s|statement|%s" % (rule, v["name"]))
    return n


def parking_effects(F, rep):
    """store_fast, and the fall-through paths of store_skip / jmp_not_nil, take exactly one value off the operand stack and put none back"""
    from props import C12 as _c12
    import tables as _tables
    T = _tables.Tables(F)
    good = True
    bi = T.prim_names.index("Bool")
    tv = Variant(_c12.PRIM if hasattr(_c12, "PRIM") else "bytecode::variables::primitive::Primitive", bi, "Bool", [absint.TRUE])
    for name, top, arg0 in (("store_fast", T.prim_value("Int", "v"), "r"),):
        fn = _c12.handler(F, name)
        res, ex = _c12.run_handler(F, T, fn, top, arg0=arg0)
        oks = [i for k, i in res if k == "Ok"]
        ok_ = bool(oks) and not ex and all(sum(1 for e in i["events"] if e[0] == "pop") == 1 and not any(e[0] == "push" for e in i["events"]) for i in oks)
        rep.ob("C15.parked", "%s takes one value off the operand stack and pushes none" % name, "ok" if ok_ else "undecided",
               "Ok paths: %s" % [[e[0] for e in i["events"] if e[0] in ("pop", "push")] for i in oks][:3], fn.span, fn=fn.path, key="C15.parked|handler|%s" % name)
        good = good and ok_
    return good


ORDER_CHANGING = (r"::sort", r"::reverse$", r"Iterator::rev$", r"::swap$", r"::swap_remove$", r"::rotate_", r"Vec::insert$", r"VecDeque::push_front$",
                  r"BTreeMap::(into_values|into_keys|into_iter|iter|iter_mut|values|values_mut|keys|range|pop_first|pop_last|first_key_value|last_key_value)$",
                  r"BTreeSet::(into_iter|iter|range|pop_first|pop_last|first|last)$", r"BinaryHeap::", r"HashMap::(into_values|into_keys|into_iter|iter|iter_mut|values|values_mut|keys|drain)$",
                  r"HashSet::(into_iter|iter|drain)$", r"IntoIterator::into_iter$")
ORDERED_SOURCES = ("BTreeMap", "BTreeSet", "HashMap", "HashSet", "BinaryHeap")


def source_order_kept(F, rep, rule="C15.source-order"):
    """The generators lay the children of a list literal, a map literal, an argument list, a block, a dot chain down in the order of the
    sequence the AST node holds (C15.order).  That sequence is built by the parser from the children of the parse-tree node, which pest hands
    out in source order.  Per builder of such a sequence (the parser function and its closures): nothing in it re-orders a collection - no
    sort / reverse / rev / swap / front insertion, and no iteration of a sorted or hashed collection (a set used only to *test* for duplicates
    is fine: it is never iterated).  `into_iter` counts only on a sorted / hashed collection."""
    import re
    builders = (("map_initializer", "`map{k1: v1, k2: v2}`: the pairs", True), ("list", "`[e1, e2]`: the elements", True),
                ("function_arguments", "`f(a1, a2)`: the arguments", True), ("block", "`{ s1  s2 }`: the statements", True),
                ("dot_chain", "`a.b().c()`: the links", False), ("function_parameters", "`fn(p1, p2)`: the parameters", False),
                ("class_body", "`class C { m1  m2 }`: the members", False))
    n = 0
    for nm, label, required in builders:
        f = F.fn("compiler::parser::Parser::" + nm)
        if f is None:
            if required:
                raise AnchorMissing("Parser::" + nm)
            continue
        hits = []
        for g in [f] + F.closures_of(f):
            for c in g.calls():
                cal = mir.strip_generics(c.callee() or "")
                for pat in ORDER_CHANGING:
                    if re.search(pat, cal):
                        if pat.startswith(r"IntoIterator"):
                            ty = g.locals[mir.op_local(c.args[0])] if c.args and mir.op_local(c.args[0]) is not None else ""
                            if not any(o in ty for o in ORDERED_SOURCES):
                                continue
                        hits.append((g, c, cal))
                        break
        n += 1
        rep.ob(rule, "%s reach the code generator in source order (the parser re-orders nothing)" % label, "violated" if hits else "ok",
               ("%s calls %s: the sequence the generator walks is no longer the order the program wrote, so `map{f(): 1, g(): 2}` / `h(f(), g())` may run g first"
                % (mir.short(hits[0][0].path), mir.short(hits[0][2]))) if hits else "", hits[0][1].span if hits else f.span, fn=f.path, key="%s|%s" % (rule, nm))
    rep.floor(rule + " sequence builders judged", n, 4)


def infix_operands_keep_their_sides(F, rep, rule="C15.source-order"):
    """The generators lay `lhs` down before `rhs` (C15.order); that is the order of the program only if the parser puts the operand written on the left
    into `lhs`.  In the Pratt infix callback of parse_expr (the closure that builds Expr::BinOp) the two operand fields come from the callback's
    two operand parameters, each from its own, in that order - a "canonicalising" swap (`3 * "ab"` stored as `"ab" * 3`) evaluates the right operand
    first."""
    pe = F.fn("compiler::ast::math_expr::parse_expr")
    ea = F.adt("compiler::ast::math_expr::Expr")
    if pe is None or ea is None:
        raise AnchorMissing("parse_expr / Expr")
    vi = [i for i, v in enumerate(ea["variants"]) if v["name"] == "BinOp"]
    if not vi:
        raise AnchorMissing("Expr::BinOp")
    names = [x["name"] for x in ea["variants"][vi[0]]["fields"]]
    thr = rules.TRANSPARENT | {rules.TRY_BRANCH, "alloc::boxed::Box::new"}
    n = 0
    for g in F.closures_of(pe):
        for bi, si, dst, rv, s_ in g.assigns():
            if not ("agg" in rv and rv["agg"].get("adt", "").endswith("math_expr::Expr") and rv["agg"].get("v") == "BinOp"):
                continue
            srcs = {}
            for side in ("lhs", "rhs"):
                l = mir.op_local(rv["ops"][names.index(side)])
                tp = rules.trace_paths(g, l, transparent=thr) if l is not None else set()
                srcs[side] = sorted({o for o, _ in tp}, key=str)
            n += 1
            pl = [o[1] for o in srcs["lhs"] if o[0] == "arg"]
            pr = [o[1] for o in srcs["rhs"] if o[0] == "arg"]
            good = (len(srcs["lhs"]) == 1 and len(srcs["rhs"]) == 1 and len(pl) == 1 and len(pr) == 1 and pl[0] < pr[0])
            rep.ob(rule, "`a op b`: the operand written on the left becomes BinOp.lhs, the one on the right BinOp.rhs", "ok" if good else "violated",
                   "" if good else "lhs comes from %s, rhs from %s: the parser can exchange the operands, and the generator then evaluates the one written second first "
                   "(`count() * text()` runs text() first)" % (srcs["lhs"], srcs["rhs"]), s_.get("sp"), fn=g.path, key="%s|infix-operands|#%d" % (rule, n))
    rep.floor(rule + " BinOp constructions in the infix callback", n, 1)
