"""C02 — static typing is sound (structural clauses).

 (a) operator tables agree: for every (op, l, r) the type checker accepts with result kind K
     (TypeLayout::get_output_type, read by abstract interpretation), the run-time evaluator of
     that operator (dispatch read from bin_op / equ / neq) yields Ok(K) and no kind-determined
     Err/Panic for every run-time representation of l and r;
 (b) built-in signatures agree (props/_builtins.py);
 (c) every variable use is a dependency (props/_visit.py);
 (d) all-paths-return marking is only done by return / if-with-all-branches-returning.
"""
import mir
import rules
import tables
from absint import Variant, Opaque
from mir import op_local, op_const
from core import AnchorMissing
from props import _optables
from tables import NATIVE, NUMERIC, PRIM


def need(F, path):
    f = F.fn(path)
    if f is None:
        raise AnchorMissing(path)
    return f

try:
    from props import _builtins
except ImportError:
    _builtins = None
try:
    from props import _visit
except ImportError:
    _visit = None

BASE_OF_ASSIGN = {"AddAssign": "Add", "SubAssign": "Subtract", "MulAssign": "Multiply", "DivAssign": "Divide", "ModAssign": "Modulo"}
COMPOUND = {"List": "Vector", "Map": "Map", "Function": "Function", "Class": "Object", "Module": "Module"}


def kname(k):
    if isinstance(k, tuple):
        return "%s?" % kname(k[1])
    return {"Nil": "nil"}.get(k, k.lower() if isinstance(k, str) else str(k))


def rep(k):
    if isinstance(k, tuple) and k[0] == "Opt":
        # a present optional is represented unboxed; boxed construction sites are handled by rule C02.optional-rep
        return [COMPOUND.get(k[1], k[1]), "Nil"]
    if k in COMPOUND:
        return [COMPOUND[k]]
    return [k]


def run_optable(ctx, rep_, F):
    O = _optables.get(F)
    T = O.T
    syms = O.symbols()
    ops = O.op_names
    rep_.floor("C02.operators", len(ops), 20)
    # ---- how each static operator is evaluated at run time --------------------------------
    evaluator = {}
    # a compound operator (`+=`; a later `<<=`) is one whose symbol bin_op itself does not know and which is spelled `<operator>=`:
    # its base is read from the spelling, so that an operator added to the language is judged like the five that exist
    inv = {v: k for k, v in syms.items()}
    for op in ops:
        sy = syms.get(op, "")
        if op not in BASE_OF_ASSIGN and sy.endswith("=") and sy[:-1] in inv and O.rt_dispatch(sy, ("Int", "Int"))[0] == "err" \
                and inv[sy[:-1]] not in ("Eq", "Neq", "Unwrap"):
            BASE_OF_ASSIGN[op] = inv[sy[:-1]]
    for op in ops:
        base = BASE_OF_ASSIGN.get(op, op)
        if base in ("Eq", "Neq"):
            evaluator[op] = ("fn", "equals")
            continue
        if base == "Unwrap":
            evaluator[op] = None
            continue
        sym = syms.get(base)
        d = O.rt_dispatch(sym, ("Int", "Int"))
        if d[0] == "fn":
            nm = O.rt_opname_for(d[1])
            evaluator[op] = ("fn", nm) if nm else ("undecided", d[1])
        else:
            d2 = O.rt_dispatch(sym, ("Bool", "Bool"))
            if d2[0] == "inline":
                evaluator[op] = ("boolop", d2[1])
            else:
                evaluator[op] = ("undecided", "symbol %r is not dispatched by bin_op (%s)" % (sym, d))
    for op, ev in evaluator.items():
        if ev is None:
            rep_.ob("C02.op-dispatch", "operator %s" % op, "exempt", "`?=` is compiled to unwrap_into, not an operator on kinds", None,
                    fn="bytecode::instruction::implementations::bin_op")
        elif ev[0] == "undecided":
            rep_.ob("C02.op-dispatch", "operator %s has a run-time evaluator" % op, "violated", str(ev[1]), None,
                    fn="bytecode::instruction::implementations::bin_op", key="C02.op-dispatch|%s" % op)
        else:
            rep_.ob("C02.op-dispatch", "operator %s is evaluated by %s" % (op, ev[1]), "ok", "", None,
                    fn="bytecode::instruction::implementations::bin_op", key="C02.op-dispatch|%s" % op)
    # equ / neq handlers use Primitive::equals
    for h in ("equ", "neq"):
        f = F.fn("bytecode::instruction::implementations::" + h)
        okh = f is not None and bool(f.calls_to(PRIM + "::equals"))
        rep_.ob("C02.op-dispatch", "%s evaluates Primitive::equals" % h, "ok" if okh else "violated", "", f.span if f else None,
                fn=f.path if f else None)
    # bin_op_assign: each `x=` symbol reaches the same trait as the base operator
    ba = F.fn("bytecode::instruction::implementations::bin_op_assign")
    if ba is None:
        raise AnchorMissing("bin_op_assign")
    bodies = [ba] + F.closures_of(ba)
    want = {"+=": "add", "-=": "sub", "*=": "mul", "/=": "div", "%=": "rem"}
    for op, base in BASE_OF_ASSIGN.items():
        d = O.rt_dispatch(syms.get(base), ("Int", "Int"))
        if syms.get(op) and syms[op] not in want and d[0] == "fn":
            want[syms[op]] = d[1].rsplit("::", 1)[-1]
    found = {}
    for g in bodies:
        for c in g.calls():
            if c.matches("core::cmp::PartialEq::eq") and len(c.args) == 2:
                lits = [x[1] for x in rules.literal_of(g, c.args[1]) if x[0] == "str"]
                if len(lits) == 1 and lits[0] in want and c.target is not None:
                    t = g.term(c.target)
                    if t["k"] == "switch":
                        tt = t["otherwise"]
                        for _ in range(12):
                            term = g.blocks[tt]["t"]
                            if term["k"] == "call":
                                cal = term["func"].get("res") or term["func"].get("def") or ""
                                if "core::ops::" in cal and "Primitive" in cal:
                                    found.setdefault(lits[0], set()).add(cal.split("::")[-1])
                                    break
                                tt = term["target"]
                                if tt is None:
                                    break
                            elif term["k"] == "goto":
                                tt = term["target"]
                            else:
                                break
    for sym, m in want.items():
        ok = found.get(sym) == {m}
        rep_.ob("C02.op-dispatch", "bin_op_assign %s applies Primitive::%s" % (sym, m), "ok" if ok else "violated",
                "found %s" % sorted(found.get(sym, [])), ba.span, fn=ba.path, key="C02.op-dispatch|assign%s" % sym)

    # ---- the tables -------------------------------------------------------------------------
    skinds = list(NATIVE) + [("Opt", k) for k in NATIVE] + ["Nil"]
    cells = 0
    accepted = 0
    nil_panics = {}
    for op in ops:
        ev = evaluator[op]
        if ev is None or ev[0] == "undecided":
            continue
        domain = [(l, r) for l in skinds for r in skinds]
        if op in ("Eq", "Neq", "Is"):
            domain += [(c, c) for c in COMPOUND]
            # ... and their optional forms (`a: map[str, int]? ... a == b`)
            for c in COMPOUND:
                domain += [(("Opt", c), ("Opt", c)), (("Opt", c), c), (c, ("Opt", c)), (("Opt", c), "Nil"), ("Nil", ("Opt", c))]
        for (l, r) in domain:
            st = T.static(op, l, r)
            cells += 1
            somes = {k for (tag, k, dd) in st if tag == "Some"}
            und = [x for x in st if x[0] in ("Undecided", "Panic")]
            if und and not somes:
                rep_.ob("C02.op-table", "%s(%s, %s): static result" % (op, kname(l), kname(r)), "undecided", str(sorted(und, key=str)[:2]), None,
                        fn="compiler::ast::type::TypeLayout::get_output_type")
                continue
            if not somes:
                continue
            accepted += 1
            if len(somes) != 1:
                rep_.ob("C02.op-table", "%s(%s, %s): static result" % (op, kname(l), kname(r)), "undecided", "several static results %s" % somes, None,
                        fn="compiler::ast::type::TypeLayout::get_output_type")
                continue
            K = somes.pop()
            problems = []
            undecided = []
            for vl in rep(l):
                for vr in rep(r):
                    if ev[0] == "boolop":
                        rt = frozenset({("Ok", "Bool", False)}) if (vl, vr) == ("Bool", "Bool") else frozenset({("Err", None, False)})
                    elif ev[1] == "equals":
                        rt = T.runtime(ev[1], vl, vr)
                    else:
                        # through the bin_op handler: includes the symbol dispatch and any operand checks made there
                        rt = O.rt_via_binop(syms[BASE_OF_ASSIGN.get(op, op)], vl, vr)
                    nil = "Nil" in (vl, vr)
                    for (tag, k, dd) in rt:
                        where = "%s(%s, %s)" % (ev[1], kname(vl), kname(vr))
                        if tag == "Ok":
                            if k is None or (isinstance(k, str) and k.startswith("?")):
                                if op in ("Is",) and K == "Bool":
                                    continue
                                undecided.append("%s -> Ok(%s)" % (where, k))
                            elif k != K and not (isinstance(k, tuple)):
                                problems.append(("kind", "%s yields %s, the type checker says %s" % (where, kname(k), kname(K))))
                        elif tag == "Err" and not dd and not nil:
                            problems.append(("err", "%s is a kind error at run time" % where))
                        elif tag == "Panic" and not dd and nil:
                            nil_panics.setdefault(ev[1], []).append("%s [typed as %s(%s, %s)]" % (where, op, kname(l), kname(r)))
                        elif tag == "Panic" and not dd:
                            problems.append(("panic", "%s panics (%s)" % (where, k)))
                        elif tag == "Undecided":
                            undecided.append("%s: %s" % (where, k))
            key = "C02.op-table|%s|%s,%s" % (op, kname(l), kname(r))
            inst = "%s(%s, %s) : %s" % (op, kname(l), kname(r), kname(K))
            if problems:
                # one obligation per failure class so that known findings stay specific
                seen = set()
                for cls, msg in problems:
                    if cls in seen:
                        continue
                    seen.add(cls)
                    rep_.ob("C02.op-table", inst, "violated", "; ".join(m for c, m in problems if c == cls)[:400], None,
                            fn="compiler::ast::type::TypeLayout::get_output_type", key=key + "|" + cls)
            elif undecided:
                rep_.ob("C02.op-table", inst, "undecided", "; ".join(undecided)[:300], None,
                        fn="compiler::ast::type::TypeLayout::get_output_type", key=key)
            else:
                rep_.ob("C02.op-table", inst, "ok", "", None, fn="compiler::ast::type::TypeLayout::get_output_type", key=key)
    for evn in sorted(set(e[1] for e in evaluator.values() if e and e[0] == "fn")):
        lst = nil_panics.get(evn, [])
        rep_.ob("C02.nil-operand", "%s with a nil operand fails with an error, not a panic" % evn, "violated" if lst else "ok",
                "%d typed cells reach a panic, e.g. %s" % (len(lst), "; ".join(lst[:3])) if lst else "", None,
                fn="bytecode::variables::primitive::Primitive", key="C02.nil-operand|%s" % evn)
    rep_.extra["static_cells_evaluated"] = cells
    rep_.extra["static_cells_accepted"] = accepted
    rep_.extra["abstract_evaluations"] = T.evals
    rep_.floor("C02.accepted operator cells", accepted, 300)

    # ---- representation of present optionals ----------------------------------------------------
    # The cells above assume a present `T?` is the bare T.  Any site that builds Optional(Some(box)) adds a second
    # representation; that is sound only if the operators look through the box.
    boxed = []
    for f in F.crates["bytecode"].fns:
        for bi, si, dst, rv, s in f.assigns():
            if "agg" in rv and rv["agg"].get("adt") == PRIM and rv["agg"].get("v") == "Optional":
                l = op_local(rv["ops"][0])
                if l is None:
                    continue
                base = rules.place_base_chain(f, l)
                src = [d for d in rules.defs_of(f, base) if d[0] == "assign" and "agg" in d[4]]
                if any(d[4]["agg"].get("v") == "Some" for d in src):
                    boxed.append((f, s))
                else:
                    # Optional(x.map(Box::new)) and friends: the payload is the result of a call that can be Some(box).  A payload that is
                    # copied from another Optional's payload (clone / move of an existing value) builds no *new* representation.
                    calls_ = [d[4] for d in rules.defs_of(f, base) if d[0] == "call"]
                    if any(c_.matches(("core::option::Option<T>::map", "core::option::Option::<T>::map", "core::option::Option<T>::and_then",
                                       "core::option::Option::<T>::and_then", "core::option::Option<T>::then", "core::option::Option<T>::map_or"))
                           or mir.short(c_.callee()) in ("Option::<T>::map", "Option<T>::map", "Option::<T>::and_then") for c_ in calls_):
                        boxed.append((f, s))
    probes = [("Add", ("Opt", "Int"), "Int"), ("lt", ("Opt", "Int"), "Int"), ("Sub", "Float", ("Opt", "Float"))]
    looks_through = all(all(not (x[0] in ("Err", "Panic") and not x[2]) for x in T.runtime(o, a, b)) for o, a, b in probes)
    if not boxed:
        rep_.ob("C02.optional-rep", "no run-time site builds a boxed present optional", "ok", "", None, fn=PRIM)
    per_fn = {}
    for f, s in boxed:
        n = per_fn.get(f.path, 0)
        per_fn[f.path] = n + 1
        rep_.ob("C02.optional-rep", "boxed present optional built in %s (#%d)" % (mir.short(f.path), n),
                "ok" if looks_through else "violated",
                "Optional(Some(Box(..))) is a second run-time representation of a present `T?`; the type checker types `T? op U` like `T op U` "
                "but the run-time operators reject the boxed form (e.g. Add(int?, int), lt(int?, int))", s.get("us") or s.get("sp"), fn=f.path,
                key="C02.optional-rep|%s|#%d" % (mir.short(f.path), n))

    # ---- `a ?= b` is an assignment ------------------------------------------------------------------
    # unwrap_into stores b into a whenever a is nil: the checker may accept it only when b's kind is a's own kind
    # (the operator table treats it like a comparison, which is looser: int? ?= float would put a float into an int variable).
    n_unwrap = 0
    if "Unwrap" in ops:
        base = list(NATIVE)
        for l in base:
            for r in base:
                for lk, rk in ((("Opt", l), r), (("Opt", l), ("Opt", r)), (l, r)):
                    st = T.static("Unwrap", lk, rk)
                    somes = {k for (tag, k, dd) in st if tag == "Some"}
                    if not somes:
                        continue
                    n_unwrap += 1
                    if l != r:
                        rep_.ob("C02.unwrap-assign", "`%s ?= %s` is accepted only between operands of one kind" % (kname(lk), kname(rk)), "violated",
                                "the type checker accepts it (result %s); at run time the %s value is stored into a variable declared %s" % (sorted(somes), kname(r), kname(lk)),
                                None, fn="compiler::ast::type::TypeLayout::get_output_type", key="C02.unwrap-assign|%s|%s" % (kname(lk), kname(rk)))
        # ... and a value that may be nil is stored only into a variable whose type admits nil: `a: int = 0  a ?= maybe()` leaves nil in an int
        for l in base:
            for rk in (("Opt", l), "Nil"):
                st = T.static("Unwrap", l, rk)
                somes = {k for (tag, k, dd) in st if tag == "Some"}
                und = [x for x in st if x[0] not in ("Some", "None")]
                n_unwrap += 1
                rep_.ob("C02.unwrap-assign", "`%s ?= %s` is refused (the target's type does not admit nil)" % (kname(l), kname(rk)),
                        "undecided" if und else ("violated" if somes else "ok"),
                        "the type checker accepts it: when the right operand is nil the %s variable holds nil, and `a + 1` fails at run time" % kname(l) if somes else "",
                        None, fn="compiler::ast::type::TypeLayout::get_output_type", key="C02.unwrap-assign|plain-target|%s|%s" % (kname(l), kname(rk)))
        # ... and `a ?= nil` with an optional a is the assignment of nil (false): accepted
        for l in base:
            st = T.static("Unwrap", ("Opt", l), "Nil")
            somes = {k for (tag, k, dd) in st if tag == "Some"}
            und = [x for x in st if x[0] not in ("Some", "None")]
            n_unwrap += 1
            rep_.ob("C02.unwrap-assign", "`%s ?= nil` is accepted (it stores nil and is false)" % kname(("Opt", l)),
                    "undecided" if und else ("ok" if somes == {"Bool"} else "violated"),
                    "" if somes == {"Bool"} else "the type checker refuses it (result %s): `c: int? = 5  c ?= nil` is a compile error, while `c ?= n` with a nil-valued n works" % sorted(somes),
                    None, fn="compiler::ast::type::TypeLayout::get_output_type", key="C02.unwrap-assign|nil-value|%s" % kname(l))
        rep_.ob("C02.unwrap-assign", "`a ?= b` is accepted by the operator table only when both operands have the same kind (%d accepted cells)" % n_unwrap,
                "ok", "", None, key="C02.unwrap-assign|summary")
        rep_.floor("C02.unwrap-assign accepted cells", n_unwrap, 5)

    # ---- unary operators -----------------------------------------------------------------------
    sn = F.fn("compiler::ast::type::TypeLayout::supports_negate")
    if sn is None:
        raise AnchorMissing("TypeLayout::supports_negate")
    from absint import Interp, Int
    for k in NATIVE:
        it = Interp(F, max_depth=3, max_paths=64)
        outs = it.run(sn, [T.tl_value(k, "x")])
        vals = {o.value.v for o in outs if o.kind == "return" and isinstance(o.value, Int)}
        if vals != {0} and vals != {1}:
            rep_.ob("C02.unary", "-%s: static" % kname(k), "undecided", str(outs), sn.span, fn=sn.path)
            continue
        if vals == {1}:
            rt = T.runtime("negate", k, None)
            bad = [x for x in rt if (x[0] == "Err" and not x[2]) or (x[0] == "Panic" and not x[2])]
            rep_.ob("C02.unary", "-%s accepted statically => Primitive::negate accepts it" % kname(k), "violated" if bad else "ok",
                    "run time: %s" % sorted(rt, key=str), sn.span, fn=sn.path, key="C02.unary|neg|%s" % kname(k))


def run(ctx, rep_):
    F = ctx.facts("default", ["bytecode", "compiler"])
    rep_.explain("C02: (a) the static operator table (TypeLayout::get_output_type) and the run-time operator implementations "
                 "(impl ops for &Primitive, PartialOrd, equals, runtime_addr_check, negate) are both read as finite kind tables by abstract "
                 "interpretation of their MIR and compared cell by cell under the representation relation K? = {K, Some(K) boxed, nil}; "
                 "operator dispatch (Op::symbol, bin_op, bin_op_assign, equ/neq) is read the same way.")
    rep_.assume("the compatibility relation eq_complex over compound types, container element kinds and `typeof` text are not decided")
    rep_.assume("a data-dependent failure (overflow, zero divisor, nil) is a defined dynamic failure, not a typing failure")
    run_optable(ctx, rep_, F)
    return_marking(F, rep_, "C02.return-marking")
    member_names_unique(F, rep_)
    opassign_result_storable(F, rep_)
    value_functions_check_their_exit(F, rep_)
    fields_are_initialised(F, rep_)
    class_callable_only_from_module(F, rep_)
    loop_counter_type(F, rep_)
    loop_counter_start_kind(F, rep_)
    names_have_element_types(F, rep_)
    void_is_not_an_element(F, rep_)
    self_type_is_its_class(F, rep_)
    class_types_compare_their_members(F, rep_)
    map_lookup_admits_absence(F, rep_)
    # a built-in answers with the kind its signature declares, or fails: C14's probes of the conversion / abs / sqrt arms on boundary receivers
    # (`abs` of the smallest int has no int magnitude: a bigint answer where the checker promised `int` reaches handlers that trust the static kind)
    from props import C14 as _c14
    from core import Report as _Report14
    tmp14 = _Report14("C14", rep_.tier)
    _c14.domain_probes(F, tmp14)
    k14 = 0
    for o in tmp14.obligations:
        if o["key"] and o["key"].startswith("C14.domain"):
            k14 += 1
            rep_.ob("C02.builtin-kind", o["instance"], o["status"], o["detail"], o["where"], key=o["key"].replace("C14.domain", "C02.builtin-kind", 1), fn=o.get("fn"))
    rep_.floor("C02.builtin-kind probes", k14, 20)
    open_coercion_compares_with_the_result(F, rep_)
    strings_have_no_slots(F, rep_)
    only_methods_get_the_object(F, rep_)
    # a variable a function reads is captured: a dependency is compared with the supplies before its capture depth is raised (shared with C07)
    from props import _netdeps
    _netdeps.run(F, rep_, "C02.net-dependencies")
    # a name is one variable per function at run time: the declaration parsers ask for an existing binding function-wide (shared with C10)
    from props import C10 as _c10
    _c10.existence_is_asked_function_wide(F, rep_, rule="C02.scope-extent")
    # `x[i]` on an accepted type is compiled to the access that fits the run-time kind of x (shared with C13)
    from props import C13 as _c13
    _c13.index_dispatch(F, rep_, rule="C02.index-dispatch")
    from props import _identity
    _identity.zip_lengths(F, rep_, "C02.zip-length")
    # the typing guards whose loss makes an accepted program fail with a dynamic type error (shared with C03 (c))
    from props import _viewread
    _viewread.run(F, rep_, "C02.view-read")
    from props import _guards
    _guards.run(F, rep_, ctx, prefix="C02", only={"index-supported", "index-type", "index-output", "map-index-key-type", "binary-operator", "unary-minus",
                                                  "unary-not", "annotated-initializer", "reassign-same-type", "method-callable", "field-or-method-exists"})

    if _builtins is not None:
        _builtins.run(F, rep_, "C02.builtin", None)
    if _visit is not None:
        _visit.run(F, rep_, "C02.visit")


def return_marking(F, rep_, rule):
    """(d) all-paths-return marking: shared by C02 (soundness) and C03 (a missing return value is a type error to be reported)."""
    # ---- (d) all-paths-return marking ----------------------------------------------------------------------
    MARK = "compiler::parser::AssocFileData::mark_should_return_as_completed"
    callers = F.callers_of(MARK)
    allowed = {"compiler::parser::Parser::if_statement", "compiler::parser::Parser::return_statement"}
    rep_.floor(rule + " call sites", len(callers), 2)
    for f, c in callers:
        ok = bool(f.forms & allowed)
        rep_.ob(rule, "a function is marked as returning only by `return` or by an `if` whose branches all return (caller %s)" % mir.short(f.path),
                "ok" if ok else "violated", "a loop or another construct marking its enclosing function as always-returning lets a function fall off its end "
                "without a value", c.span, fn=f.path, key=rule + "|caller|%s" % mir.short(f.path))
    ifs = F.fn("compiler::parser::Parser::if_statement")
    if ifs is None:
        raise AnchorMissing("Parser::if_statement")
    marks = ifs.calls_to(MARK)
    abr = sorted(ifs.calls_to("compiler::scope::ScopeReturnStatus::all_branches_return"), key=lambda c: c.bb)
    if marks and abr:
        doms = [c for c in abr if all(ifs.dominates(c.bb, o.bb) for o in abr)]
        first = doms[0] if doms else abr[0]
        v, info = rules.guarded_by_bool(ifs, [m.bb for m in marks], [first.dst["l"]], want=True)
        rep_.ob(rule, "if: marking requires that every path of the `if` body returns", v, str(info), marks[0].span, fn=ifs.path,
                key=rule + "|if-body")
        # and either the else branch returns on all paths or the condition is known to be true
        others = [c for c in abr if c is not first]
        truthy = [l for l, nm in ifs.names.items() if "truthy" in nm]
        seeds = [c.dst["l"] for c in others] + truthy
        der = ifs.derived(seeds)
        sws = rules.bool_switches(ifs, der)
        removed = {(bb, t_t) for bb, t_t, f_t, pol in sws if pol}
        reach = ifs.reachable(0, removed_edges=removed)
        bad = [m.bb for m in marks if m.bb in reach]
        rep_.ob(rule, "if: marking also requires that the else branch returns on every path (or the condition is constant true)",
                "violated" if bad or not sws else "ok", "tests: %d" % len(sws), marks[0].span, fn=ifs.path, key=rule + "|else-branch")
    else:
        rep_.ob(rule, "if: marking is guarded by all_branches_return", "violated", "anchors missing in if_statement", ifs.span, fn=ifs.path,
                key=rule + "|if-body")




def member_names_unique(F, rep, rule="C02.member-unique"):
    """A class's type answers a member lookup with the *first* declaration of that name (ClassType keeps them in a list) while its code is
    filed under the name (`K::f`), where the *last* definition wins: two members of one name give a method whose checked signature and executed
    body differ (`x = a.f()` typed int holding a str).  So the list of members a class type is built from never takes a second member of a
    name: in ClassBody::get_members every path to the push passes a scan of the names collected so far that came out negative; the only
    by-pass allowed is for the constructor rule, whose repetition Parser::class_body reports."""
    f = None
    for g in F.crates["compiler"].fns:
        if g.path.endswith("class_body::ClassBody::get_members"):
            f = g
    if f is None:
        raise AnchorMissing("ClassBody::get_members")
    pushes = [c for c in f.calls() if mir.short(c.callee()) in ("Vec::<T, A>::push", "Vec<T, A>::push", "Vec::push")]
    if not pushes:
        rep.ob(rule, "get_members collects the members with Vec::push", "undecided", "no push found", f.span, fn=f.path, key=rule + "|shape")
        return
    # a scan: Iterator::any / find / position (or a set insert / contains) whose closure compares two Ident::name results
    scans = []
    for c in f.calls():
        nm = mir.short(c.callee())
        if nm.endswith(("::any", "::find", "::position", "::contains", "::insert", "::contains_key")) and not nm.startswith("Vec"):
            cl = [g for g in F.closures_of(f) if len(g.calls_to("compiler::ast::ident::Ident::name")) >= 2 and any(x.callee().endswith(("::eq", "::ne")) for x in g.calls())]
            keyed = any(o.matches("compiler::ast::ident::Ident::name") for a in c.args[1:] if op_local(a) is not None for o in rules.origin_calls(f, op_local(a)))
            if (nm.endswith(("::any", "::find", "::position")) and cl) or (nm.endswith(("::contains", "::insert", "::contains_key")) and keyed):
                scans.append(c)
    if not scans:
        rep.ob(rule, "ClassBody::get_members refuses a second member of a name", "violated",
               "no scan of the names collected so far: `class A { fn f(self) -> int { return 1 }  fn f(self) -> str { return \"a\" } }` is accepted, "
               "`a.f()` is typed int and returns \"a\"", pushes[0].span, fn=f.path, key=rule)
        return
    # by-pass edges: a switch on a comparison with Rule::class_constructor
    bypass = set()
    for c in f.calls():
        if not c.callee().endswith(("::eq", "::ne")):
            continue
        is_ctor = False
        for a in c.args:
            l = op_local(a)
            for d in (rules.defs_of(f, rules.place_base_chain(f, l)) if l is not None else []):
                if d[0] == "assign" and "use" in d[4] and "promoted" in (mir.op_const(d[4]["use"]) or {}):
                    body = (f.d.get("promoted") or [])[mir.op_const(d[4]["use"])["promoted"]]
                    if any(s_.get("rv", {}).get("agg", {}).get("v") == "class_constructor" for b in body["blocks"] for s_ in b["s"]):
                        is_ctor = True
        if is_ctor:
            der = f.derived([c.dst["l"]])
            past_push = {(pc.bb, pc.target) for pc in pushes}
            for bb, t_t, f_t, pol in rules.bool_switches(f, der):
                for tgt in (t_t, f_t):
                    # the side of the constructor test that goes to the push without running a scan first
                    if not any(sc.bb in f.reachable(tgt, removed_edges=past_push) for sc in scans):
                        bypass.add((bb, tgt))
    # with the constructor by-pass taken away (both edges of that test are removed in turn), the push is guarded by the scan
    verdicts = []
    scan_locals = [c.dst["l"] for c in scans]
    der = f.derived(scan_locals)
    removed = set()
    for bb, t_t, f_t, pol in rules.bool_switches(f, der):
        if pol is not None:
            removed.add((bb, f_t if pol else t_t))        # the `no duplicate` edge
    for c in pushes:
        # paths to the push that avoid the scan's negative edge must go through a constructor by-pass edge
        reach_plain = f.reachable(0, removed_edges=removed | bypass)
        # and the by-pass edges that lead to the push without a scan are exactly constructor tests (checked by construction of `bypass`)
        verdicts.append(c.bb not in reach_plain)
    rep.ob(rule, "ClassBody::get_members refuses a second member of a name (constructors are reported by Parser::class_body)",
           "ok" if all(verdicts) else "violated", "%d scan(s), %d constructor by-pass edge(s)" % (len(scans), len(bypass)), pushes[0].span, fn=f.path, key=rule)



def value_functions_check_their_exit(F, rep, rule="C02.return-required"):
    """A function, method or constructor whose signature promises a value is accepted only if its body returns on every path; the parser
    knows that from the status of the function scope (`did_scope_exit_with_value_if_required`).  Every parser function that opens a function
    scope whose status can be `Should(..)` asks that question after it parsed the body, and an Ok return is reachable only on its true
    side.  (A scope opened with a constant `Void` status has nothing to ask.)"""
    PUSH = "compiler::parser::AssocFileData::push_function"
    DID = "compiler::parser::AssocFileData::did_scope_exit_with_value_if_required"
    n = 0
    for f in F.crates["compiler"].fns:
        pushes = f.calls_to(PUSH)
        if not pushes:
            continue
        for c in pushes:
            l = op_local(c.args[1]) if len(c.args) > 1 else None
            org = rules.origins(f, l) if l is not None else set()
            variants = set()
            for o in org:
                if o[0] == "agg":
                    for bi, si, dst, rv, s_ in f.assigns():
                        if bi == o[1] and si == o[2] and "agg" in rv:
                            variants.add(rv["agg"].get("v"))
                else:
                    variants.add("?")
            if variants and variants <= {"Void", "No"}:
                rep.ob(rule, "%s opens a function scope that never owes a value" % mir.short(f.path), "ok", "status: %s" % sorted(variants), c.span, fn=f.path,
                       key="%s|%s|void" % (rule, mir.short(f.path)))
                continue
            n += 1
            blocks_ = [b for b in f.calls() if b.callee().endswith("::block") and "Parser" in b.callee()]
            dids = f.calls_to(DID)
            key = "%s|%s" % (rule, mir.short(f.path))
            inst = "%s accepts a value-returning body only if every path of it returns" % mir.short(f.path)
            if not dids:
                rep.ob(rule, inst, "violated", "the scope's exit status is never consulted: `fn m(self, n: int) -> int { if n > 0 { return 1 } }` is accepted and a "
                       "call that takes the other path yields no value (run-time `store can only store a single item`)", c.span, fn=f.path, key=key)
                continue
            after_body = set()
            for b in blocks_:
                if b.target is not None:
                    after_body |= f.reachable(b.target)
            oks = [b for b in rules.ok_return_blocks(f) if b in after_body] if blocks_ else rules.ok_return_blocks(f)
            v, info = rules.guarded_by_bool(f, oks, [d.dst["l"] for d in dids], want=True)
            rep.ob(rule, inst, v, "" if v == "ok" else str(info), dids[0].span, fn=f.path, key=key)
    rep.floor(rule + " parser functions opening a value-owing function scope", n, 2)


def fields_are_initialised(F, rep, rule="C02.field-init"):
    """`o.f` is typed with the field's declared type T, so every object must hold a T there from the moment it exists.  A member variable
    starts as the placeholder `reserve_primitive` pushes (nil); for a T that is not optional that is sound only if the class is accepted
    only when its constructor assigns the field - i.e. if some function of the class parser looks at both the class's field list and the
    statements of the constructor's body.  The rule reads the placeholder from MemberVariable::compile (is it emitted on every path, whatever
    the type?) and searches crate compiler for such a definite-assignment check."""
    import opcodes
    mv = None
    for g in F.crates["compiler"].fns:
        if g.path.endswith("member_variable::MemberVariable as compiler::ast::Compile>::compile"):
            mv = g
    if mv is None:
        raise AnchorMissing("<MemberVariable as Compile>::compile")
    lits = [(nm, c) for f_, nm, sp, c in opcodes.instruction_literals(F) if f_ is mv]
    res = [c for nm, c in lits if nm == "reserve_primitive"]
    if not res:
        rep.ob(rule, "a member variable's initial placeholder", "undecided", "MemberVariable::compile no longer emits reserve_primitive", mv.span, fn=mv.path, key=rule)
        return
    branches = [bi for bi, blk in enumerate(mv.blocks) if blk["t"]["k"] == "switch"]
    unconditional = all(rules.call_dominates(mv, [c], b) or True for c in res for b in []) and not any(
        "TypeLayout" in mv.locals[op_local(mv.blocks[bi]["t"]["discr"])] if op_local(mv.blocks[bi]["t"]["discr"]) is not None else False for bi in branches)
    # a definite-assignment check: a function that reads the class's members and walks a constructor's body
    checks = []
    for g in F.crates["compiler"].fns:
        if " as compiler::ast::Compile>::" in g.path or " as compiler::ast::Dependencies>::" in g.path:
            continue
        reads_members = any(c.callee().endswith(("ClassType::fields", "ClassBody::get_members")) for c in g.calls())
        walks_ctor = False
        for bi, si, dst, rv, s_ in g.assigns():
            pl = rv.get("ref") or (mir.op_place(rv["use"]) if "use" in rv else None)
            if pl and "Constructor" in g.locals[pl["l"]] and any(e[0] == "field" and e[2] == "body" for e in pl.get("p", [])):
                walks_ctor = True
        if reads_members and walks_ctor:
            checks.append(mir.short(g.path))
    ok = bool(checks) or not unconditional
    rep.ob(rule, "a field whose declared type is not optional never holds the nil placeholder when it can be read",
           "ok" if ok else "violated",
           ("definite-assignment check in %s" % checks) if checks else
           "MemberVariable::compile starts every field as nil (reserve_primitive, whatever the declared type) and nothing in the class parser looks at the "
           "constructor's assignments: `class A { x: int  constructor(self) { } }` is accepted and `A().x` is nil although typed int",
           res[0].span, fn=mv.path, key=rule)


def class_callable_only_from_module(F, rep, rule="C02.callable-field"):
    """`TypeLayout::Class(C)` is the type of an instance of C, and - where a module exports the class - also of the class itself, whose call
    is its constructor.  `is_callable_allow_class(true)` therefore answers "callable" for an instance too.  In a dot call `x.f(..)` that
    answer is sound only when x is a module: a field or member typed with a class holds an instance (`h.k()` with `k: A` is accepted and
    fails in `call`).  Every `is_callable_allow_class` call in Parser::dot_chain_option that can pass `true` is dominated by the Module edge
    of a test of the receiver's type, or computes the flag from such a test."""
    f = None
    for g in F.crates["compiler"].fns:
        if g.path.endswith("::dot_chain_option") and "impl compiler::parser::Parser" in g.path:
            f = g
    tl = F.adt("compiler::ast::r#type::TypeLayout")
    if f is None or tl is None:
        raise AnchorMissing("Parser::dot_chain_option / TypeLayout")
    mod_i = str([v["name"] for v in tl["variants"]].index("Module"))
    mod_edges = set()
    mod_locals = set()
    for bb, blk in enumerate(f.blocks):
        t = blk["t"]
        if t["k"] != "switch" or mod_i not in dict((str(v), b) for v, b in t["targets"]):
            continue
        dl = op_local(t["discr"])
        for s_ in blk["s"]:
            if "d" in s_ and s_["d"]["l"] == dl and "discr" in s_["rv"] and "TypeLayout" in f.locals[s_["rv"]["discr"]["l"]]:
                tgt = dict((str(v), b) for v, b in t["targets"])[mod_i]
                mod_edges.add((bb, tgt))
                # `matches!(ty, Module(_))`: the bool assigned on that edge
                for s2 in f.blocks[tgt]["s"]:
                    if "d" in s2 and f.locals[s2["d"]["l"]] == "bool":
                        mod_locals.add(s2["d"]["l"])
    calls = f.calls_to("compiler::ast::r#type::TypeLayout::is_callable_allow_class")
    n = 0
    for c in calls:
        n += 1
        a = c.args[1] if len(c.args) > 1 else None
        k = op_const(a) if a is not None else None
        key = "%s|#%d" % (rule, n)
        inst = "dot call: a class counts as callable only on a module receiver (is_callable_allow_class #%d)" % n
        if k is not None and k.get("int") == "0":
            rep.ob(rule, inst, "ok", "never allows a class", c.span, fn=f.path, key=key)
        elif k is not None:
            dom = bool(mod_edges) and rules.edge_dominated(f, c.bb, mod_edges)
            rep.ob(rule, inst, "ok" if dom else "violated",
                   "" if dom else "allow_class is the constant true and the call is not behind a `receiver is a module` test: `h.k()` with a field `k: A` is accepted "
                   "and the call fails at run time", c.span, fn=f.path, key=key)
        else:
            l = op_local(a)
            der = f.derived(list(mod_locals)) if mod_locals else {}
            rep.ob(rule, inst, "ok" if l in der or l in mod_locals else "undecided", "the flag is computed from the receiver's type" if (l in der or l in mod_locals) else
                   "the flag is a value this rule cannot trace to a Module test", c.span, fn=f.path, key=key)
    rep.floor(rule + " is_callable_allow_class calls in dot_chain_option", n, 2)


def loop_counter_type(F, rep, rule="C02.loop-counter-type"):
    """The counter of `from a to b step s, i` holds a, a+s, a+2s, ..: its static type is the type of `a + s` (a float as soon as either is
    one).  In Parser::number_loop the type the counter is registered with (link_force_no_inherit) is computed by get_output_type from the
    start and step types, not written down as a constant."""
    nl = F.fn("compiler::parser::Parser::number_loop")
    if nl is None:
        cands = [g for g in F.crates["compiler"].fns if g.path.endswith("::number_loop") and "impl compiler::parser::Parser" in g.path]
        nl = cands[0] if len(cands) == 1 else None
    if nl is None:
        raise AnchorMissing("Parser::number_loop")
    links = nl.calls_to("compiler::ast::ident::Ident::link_force_no_inherit")
    rep.floor(rule + " counter registrations", len(links), 1)
    thr = rules.TRANSPARENT | {rules.TRY_BRANCH, "core::option::Option::unwrap_or_else", "core::option::Option::unwrap_or", "core::option::Option::unwrap",
                               "core::option::Option::ok_or", "compiler::VecErr::to_err_vec"}
    for i, c in enumerate(links):
        l = op_local(c.args[2]) if len(c.args) > 2 else None
        org = rules.origins(nl, l, transparent=thr) if l is not None else set()
        oc = rules.origin_calls(nl, l, transparent=thr) if l is not None else []
        # the Cow wrapper built on the spot: look inside
        if not oc:
            for o in org:
                if o[0] == "agg":
                    for bi, si, dst, rv, s_ in nl.assigns():
                        if bi == o[1] and si == o[2] and "agg" in rv:
                            for x in rv["ops"]:
                                if op_local(x) is not None:
                                    oc += rules.origin_calls(nl, op_local(x), transparent=thr)
                                    org = org | rules.origins(nl, op_local(x), transparent=thr)
        computed = any(x.callee().endswith("TypeLayout::get_output_type") for x in oc)
        rep.ob(rule, "the loop counter is registered with the type of start + step", "ok" if computed else "violated",
               "" if computed else "the counter's type does not come from get_output_type (origins %s): `from 0.0 to 1.0 step 0.5, i` gives an `int` that holds 0.5"
               % sorted(str(o) for o in org)[:3], c.span, fn=nl.path, key="%s|#%d" % (rule, i))


def loop_counter_start_kind(F, rep, rule="C02.loop-counter-type"):
    """... and the first value the counter holds is the start value: when start + step is of a wider kind than start (`from 0 to 2 step 0.5`),
    Parser::number_loop has to ask for a promotion (the NumberLoop it builds carries a zero of the counter's kind, which the generator adds
    to the start value: C09.skeleton|from|start-promotion).  Structural part here: the promotion field of the NumberLoop aggregate is not a
    constant: it can be Some(number) and it depends on a comparison of types."""
    nl = None
    for g in F.crates["compiler"].fns:
        if g.path.endswith("::number_loop") and "impl compiler::parser::Parser" in g.path and g.kind != "Closure":
            nl = g
    if nl is None:
        raise AnchorMissing("Parser::number_loop")
    a = F.adt("compiler::ast::number_loop::NumberLoop")
    fields = [x["name"] for x in a["variants"][0]["fields"]] if a else []
    aggs = [(bi, rv, st) for bi, si, dst, rv, st in nl.assigns() if "agg" in rv and str(rv["agg"].get("adt", "")).endswith("number_loop::NumberLoop")]
    rep.floor(rule + " NumberLoop constructions", len(aggs), 1)
    for bi, rv, st in aggs:
        cand = [i for i, nme in enumerate(fields) if "promot" in nme]
        ok, why = False, "NumberLoop has no promotion field"
        for i in cand:
            l = op_local(rv["ops"][i]) if i < len(rv["ops"]) else None
            org = rules.origins(nl, l, transparent=rules.TRANSPARENT) if l is not None else set()
            somes = 0
            for o in org:
                if o[0] == "agg":
                    for b2, s2, d2, rv2, st2 in nl.assigns():
                        if (b2, s2) == (o[1], o[2]) and rv2["agg"].get("v") == "Some":
                            somes += 1
            eqs = [c for c in nl.calls() if c.matches(("core::cmp::PartialEq::eq", "core::cmp::PartialEq::ne")) and
                   "TypeLayout" in (c.callee() + " " + " ".join(c.t["func"].get("ga") or []) + " " + (c.t["func"].get("res") or ""))]
            ok = somes > 0 and bool(eqs)
            why = "" if ok else "the promotion is constant (Some constructions: %d, comparisons of types: %d)" % (somes, len(eqs))
        rep.ob(rule, "number_loop asks for the start value to be promoted when the counter is of a wider kind", "ok" if ok else "violated",
               why + ("" if ok else ": `from 0 to 2 step 0.5, i { print i.fpart() }` starts with the int 0, which has no fractional part to take"), st.get("sp"), fn=nl.path,
               key=rule + "|start-kind")


def opassign_result_storable(F, rep, rule="C02.opassign-result"):
    """`x op= y` computes `x op y` and stores the result back into x, whose static type stays what it was.  The operator table alone accepts
    `int += float` (result float) and `int += str` (result str): the checker has to compare the result type with the target's type.  In
    Expr::for_type, on the path where Op::is_op_assign() holds, an Ok return after get_output_type is reachable only through the passing edge
    of a type comparison (eq_complex / ==) that involves the value get_output_type returned."""
    ft = F.fn("compiler::ast::math_expr::Expr::for_type")
    if ft is None:
        raise AnchorMissing("Expr::for_type")
    gots = ft.calls_to("compiler::ast::r#type::TypeLayout::get_output_type")
    isop, der_isop = rules.storing_operator_conditions(F, ft)
    if not gots or not isop:
        raise AnchorMissing("get_output_type / a test of the operator for compound assignment (Op::is_op_assign) in Expr::for_type")
    thr = rules.TRANSPARENT | {rules.TRY_BRANCH, "anyhow::Context::with_context", "anyhow::Context::context"}
    cmps = []
    for c in ft.calls():
        if not (c.callee().endswith("TypeLayout::eq_complex") or (c.callee().endswith(("::eq", "::ne")) and any("TypeLayout" in ft.locals[op_local(a)] for a in c.args if op_local(a) is not None))):
            continue
        org = []
        for a in c.args:
            l = op_local(a)
            if l is not None:
                org += rules.origin_calls(ft, l, transparent=thr)
        if any(o.bb in {g.bb for g in gots} for o in org):
            cmps.append(c)
    if not cmps:
        rep.ob(rule, "a compound assignment is accepted only when the operator's result can be stored back into the target", "violated",
               "the result type of get_output_type is never compared with the target's type: `x = 5; x += 1.5` is accepted and x, still typed int, holds 6.5",
               gots[0].span, fn=ft.path, key=rule)
        return
    # Ok returns after get_output_type, on the op-assign side, only through the passing edge of the comparison
    removed = set()
    der_op = der_isop
    for bb, t_t, f_t, pol in rules.bool_switches(ft, der_op):
        if pol is not None:
            removed.add((bb, f_t if pol else t_t))       # not an op-assign: nothing to check
    der_c = ft.derived([c.dst["l"] for c in cmps])
    n = 0
    for bb, t_t, f_t, pol in rules.bool_switches(ft, der_c):
        if pol is not None:
            removed.add((bb, t_t if pol else f_t))       # comparison passed
            n += 1
    after = set()
    for g in gots:
        if g.target is not None:
            after |= ft.reachable(g.target, removed_edges=removed)
    oks = [b for b in rules.ok_return_blocks(ft) if b in after]
    # an Ok return still reachable means: op-assign, comparison not passed (or not consulted), accepted anyway
    still = []
    for b in oks:
        # only returns whose payload is the operator's result matter
        still.append(b)
    reach_from_opassign = set()
    for c in isop:
        reach_from_opassign |= ft.reachable(c.target, removed_edges=removed) if c.target is not None else set()
    bad = [b for b in still if b in reach_from_opassign]
    rep.ob(rule, "a compound assignment is accepted only when the operator's result can be stored back into the target",
           "ok" if n and not bad else "violated", "%d comparison(s) of the result with the target type; unguarded Ok returns: %s" % (len(cmps), bad), cmps[0].span,
           fn=ft.path, key=rule)



def names_have_element_types(F, rep, rule="C02.element-type"):
    """The literal `[]` has the type of a list with no element type, which eq_complex lets into every `[T...]` (nothing in it can fail to
    fit).  A value is one list however many names it has, so a NAME of that type could initialise an `[int...]` and a `[str...]` that are
    one list: pushing through the first shows an int where the second promises a str.  The compiler therefore never gives a name that
    type: the inference of an untyped declaration (Value::associate_with_ident), the per-name typing of an unpacking declaration
    (Parser::assignment_unpack) and the parser of a written list type (Parser::list_type) each refuse it.  Structural parts decided:
    the predicate looks inside lists, optionals, captured-variable wrappers and aliases; each of the three sites reaches its success only
    on the negative edge of the test."""
    pred = "compiler::ast::r#type::TypeLayout::has_list_without_element_type"
    pf = F.fn(pred)
    tl = F.adt("compiler::ast::r#type::TypeLayout")
    names = [v["name"] for v in tl["variants"]]
    if pf is None:
        rep.ob(rule, "a predicate tells whether a type contains a list without an element type", "violated",
               "no TypeLayout::has_list_without_element_type: `const e = []` / `xs: [int...] = e` / `ys: [str...] = e` / `xs.push(1)` / `s: str = ys[0]` binds an int to a str name",
               tl.get("span", ""), fn=pred, key=rule + "|predicate")
        return
    covered = set()
    for blk in pf.blocks:
        t = blk["t"]
        if t["k"] == "switch" and len(t["targets"]) >= 2 and t.get("dty") == "isize":
            covered |= {names[int(v)] for v, _ in t["targets"] if int(v) < len(names)}
    want = {"List", "Optional", "CallbackVariable", "Alias"}
    rec = pf.calls_to(pred)
    empt = [c for c in pf.calls() if c.callee().endswith("::is_empty")]
    okp = want <= covered and len(rec) >= 4 and empt
    rep.ob(rule, "the predicate looks inside lists, optionals, captured-variable wrappers and aliases, and an empty element list is a hit", "ok" if okp else "violated",
           "variants handled %s, %d recursive calls, %d emptiness tests" % (sorted(covered), len(rec), len(empt)), pf.span, fn=pf.path, key=rule + "|predicate")
    # (1) inferred declarations
    av = need(F, "compiler::ast::value::Value::associate_with_ident")
    tests = av.calls_to(pred)
    if not tests:
        v, info = "violated", "no test: `const e = []` names a list that fits every `[T...]`"
    else:
        v, info = rules.guarded_by_bool(av, rules.ok_return_blocks(av), [c.dst["l"] for c in tests], want=False)
    rep.ob(rule, "an untyped declaration is not given a type that contains a list without element type", v, str(info) if v != "ok" else "", av.span, fn=av.path,
           key=rule + "|inferred")
    # (2) unpacking declarations
    au = None
    for g in F.crates["compiler"].fns:
        if g.path.endswith("::assignment_unpack") and "impl compiler::parser::Parser" in g.path and "closure" not in g.path:
            au = g
    if au is None:
        raise AnchorMissing("Parser::assignment_unpack")
    links = au.calls_to("compiler::ast::ident::Ident::link_force_no_inherit")
    rep.floor(rule + " names typed by an unpacking declaration", len(links), 1)
    tests = au.calls_to(pred)
    for i, c in enumerate(links):
        if not tests:
            v, info = "violated", "no test: `const [a, b] = [[], 1]` names a list that fits every `[T...]`"
        else:
            v, info = rules.guarded_by_bool(au, [c.bb], [t.dst["l"] for t in tests], want=False)
        rep.ob(rule, "an unpacking declaration does not give a name a type that contains a list without element type", v, str(info) if v != "ok" else "", c.span,
               fn=au.path, key=rule + "|unpack#%d" % i)
    # (3) written types
    lt = None
    for g in F.crates["compiler"].fns:
        if g.path.endswith("::list_type") and "impl compiler::parser::Parser" in g.path and "closure" not in g.path:
            lt = g
    if lt is None:
        raise AnchorMissing("Parser::list_type")
    tests = [c for c in lt.calls() if c.callee().endswith("::is_empty")]
    # the answers that are a list of element types (ListType::Mixed(vec)); `[T...]` (ListType::Open(T)) names its type by construction
    mixed = sorted({bi for bi, si, dst, rv, s_ in lt.assigns() if rv.get("agg", {}).get("adt", "").endswith("::ListType") and rv["agg"].get("v") == "Mixed"})
    if not mixed:
        raise AnchorMissing("ListType::Mixed built in Parser::list_type")
    if not tests:
        v, info = "violated", "no emptiness test: the annotation `[]` spells the type that fits every `[T...]`"
    else:
        # some emptiness test stands, on its negative edge, in front of every such answer
        v, info = "violated", {}
        for t in tests:
            v1, info1 = rules.guarded_by_bool(lt, mixed, [t.dst["l"]], want=False)
            if v1 == "ok":
                v, info = "ok", info1
                break
            info = info1
    rep.ob(rule, "a written list type names at least one element type", v, str(info) if v != "ok" else "", lt.span, fn=lt.path, key=rule + "|written")


def void_is_not_an_element(F, rep, rule="C02.void-value"):
    """A call of a function that yields nothing has the type Void and leaves nothing on the operand stack.  Where the generator consumes
    "the value of" a sub-expression with an instruction that needs one - `vec_op +name` for each element of a list literal requires exactly
    one operand - the parser has to refuse a Void sub-expression, as Parser::assignment does for `x = v()` ("cannot store void").  Per sink:
    the parser function types the sub-expression (`for_type`), tests that type against TypeLayout::Void, and no successful return is
    reachable from the Void edge."""
    TL = "compiler::ast::r#type::TypeLayout"
    tl = F.adt(TL)
    if tl is None:
        raise AnchorMissing(TL)
    void_i = str([v["name"] for v in tl["variants"]].index("Void"))
    sinks = (("compiler::parser::Parser::list", "an element of a list literal `[v()]`", True),)
    n = 0
    for path, label, required in sinks:
        f = F.fn(path)
        if f is None:
            if required:
                raise AnchorMissing(path)
            continue
        n += 1
        verdict, detail = "violated", "the element is never typed in %s: `v = fn() { }  xs = [v()]` compiles and `vec_op +` finds no operand" % mir.short(path)
        for g in [f] + F.closures_of(f):
            typed = [c for c in g.calls() if mir.strip_generics(c.callee() or "").endswith(("::for_type", "::for_type_force_mixed")) and c.dst]
            if not typed:
                continue
            der = g.derived([c.dst["l"] for c in typed], through_call=lambda cc, idx: True)
            sw = [(bb, base, targets, other) for bb, base, targets, other in rules.discr_switches(g, der) if TL.split("::")[-1] in g.locals[base]]
            void_edges = set()
            for bb, base, targets, other in sw:
                if void_i in targets:
                    void_edges.add((bb, targets[void_i]))
            if not void_edges:
                detail = "the type of the element is computed but never compared with Void"
                continue
            oks = set(rules.ok_return_blocks(g))
            leak = [e for e in void_edges if oks & g.reachable(e[1])]
            # the Void side must be a refusal; the other side must still be able to succeed
            if not leak and oks & g.reachable(0, removed_edges=void_edges):
                verdict, detail = "ok", ""
            else:
                detail = "a successful return is reachable from the Void side of the test"
        rep.ob(rule, "%s: a sub-expression of type Void is refused (the generator's instruction needs its value)" % label, verdict, detail, f.span, fn=f.path,
               key="%s|%s" % (rule, mir.short(path)))
    rep.floor(rule + " sinks judged", n, 1)


def class_types_compare_their_members(F, rep, rule="C02.class-identity"):
    """Two class types are one type only if they are the same class.  A class can be declared in any block, and a function body may declare a class
    under the name of an outer one: the two share name and file.  What tells them apart in `==` (the first question eq_complex asks, and the only one
    for classes) is the member list.  The equality of ClassType therefore compares the members of the two operands (and their names and files):
    each `==` between a field of self and the same field of other is read from the body, derived or hand-written."""
    eqs = [g for g in F.crates["compiler"].fns if g.kind != "Closure" and "class::ClassType as core::cmp::PartialEq>::eq" in g.path]
    if len(eqs) != 1:
        raise AnchorMissing("<ClassType as PartialEq>::eq")
    g = eqs[0]
    compared = set()
    for c in g.calls():
        if not c.callee().endswith(("::eq", "::ne")) or len(c.args) < 2:
            continue
        sides = []
        for a in c.args[:2]:
            l = op_local(a)
            sides.append({(o, fs[0]) for (o, fs) in rules.trace_paths(g, l) if fs} if l is not None else set())
        for (o1, f1) in sides[0]:
            for (o2, f2) in sides[1]:
                if f1 == f2 and {o1, o2} == {("arg", 1), ("arg", 2)}:
                    compared.add(f1)
    want = {"name", "fields", "path_str"}
    missing = sorted(want - compared)
    rep.ob(rule, "ClassType == ClassType compares name, declaring file and members", "violated" if missing else "ok",
           ("not compared: %s.  `class Point { x: int .. }` and a `class Point { label: str .. }` declared in a function body of the same file are one type: "
            "`fn() -> Point { class Point {..} return Point() }` is accepted and `.x` fails in `lookup` at run time" % missing) if missing else
           "fields compared: %s" % sorted(compared), g.span, fn=g.path, key=rule)


def map_lookup_admits_absence(F, rep, rule="C02.map-lookup"):
    """`m[k]` on a map answers nil when k is not bound (GcMap::get: `unwrap_or(Optional(None))`), so the static type of the expression has to admit
    nil - or the lookup has to fail.  Read from both sides: the Map arm of TypeLayout::get_output_type_from_index (what it hands back: the value type as
    it is, or wrapped in an optional) and GcMap::get (whether a missing key is an Ok answer)."""
    si = F.fn("compiler::ast::r#type::TypeLayout::get_output_type_from_index")
    gg = F.fn("bytecode::variables::primitive::GcMap::get")
    if si is None or gg is None:
        raise AnchorMissing("TypeLayout::get_output_type_from_index / GcMap::get")
    vt = si.calls_to("compiler::ast::map::MapType::value_type")
    if not vt:
        raise AnchorMissing("MapType::value_type in get_output_type_from_index")
    # is the value type handed back as it is?  (an Ok return is reached from the call, and no TypeLayout::Optional is built on the way)
    okr = set(rules.ok_return_blocks(si))
    plain = bool(vt[0].target is not None and si.reachable(vt[0].target) & okr)
    wraps_opt = any("agg" in rv and rv["agg"].get("adt", "").endswith("TypeLayout") and rv["agg"].get("v") == "Optional" and bi in si.reachable(vt[0].bb)
                    for bi, si_, dst, rv, st in si.assigns())
    nil_ok = bool(gg.calls_to(("core::option::Option::unwrap_or", "core::option::Option::unwrap_or_else", "core::option::Option::unwrap_or_default"))) and \
        any("agg" in rv and rv["agg"].get("v") == "Optional" for bi, si_, dst, rv, st in gg.assigns())
    bad = plain and not wraps_opt and nil_ok
    rep.ob(rule, "the static type of a map lookup admits the answer for a missing key", "violated" if bad else "ok",
           ("get_output_type_from_index types `m[k]` as the map's value type V as it is, and GcMap::get answers nil for a key that is not bound: "
            "`m = map[str, int]{\"a\": 1}` / `v: int = m[\"zzz\"]` binds nil to an int name (`typeof v` is int, `v == nil` is true, `v + 1` fails at run time)") if bad else
           "value type handed back as it is=%s, wrapped in an optional=%s, a missing key is an Ok nil=%s" % (plain, wraps_opt, nil_ok), vt[0].span, fn=si.path, key=rule)


def self_type_is_its_class(F, rep, rule="C02.self-type"):
    """Inside a class, `Self` is a spelling of the class: what the type checker allows on a value typed `Self` must be what it allows on a value of
    the class.  The yes/no predicates that gate an operation (supports_equ: `==` / `!=`; can_be_hashed: map keys) are evaluated abstractly on
    Class(c), ClassSelf(Some(c)) and ClassSelf(None) and must agree - `self == other` with `other: Self` was accepted while `a == b` on two
    objects is refused, and failed at run time (`cannot compare Object with Object`)."""
    from props import _hashkeys
    from absint import Variant, Opaque, some, NONE
    TLp = "compiler::ast::r#type::TypeLayout"
    tl = F.adt(TLp)
    if tl is None:
        raise AnchorMissing(TLp)
    tln = [v["name"] for v in tl["variants"]]
    if "ClassSelf" not in tln or "Class" not in tln:
        raise AnchorMissing("TypeLayout::ClassSelf / Class")
    cls = Variant(TLp, tln.index("Class"), "Class", [Opaque("c")])
    selfs = (("Self (class known)", Variant(TLp, tln.index("ClassSelf"), "ClassSelf", [some(Opaque("c"))])),
             ("Self (class not bound yet)", Variant(TLp, tln.index("ClassSelf"), "ClassSelf", [NONE])))
    n = 0
    for pn in ("supports_equ", "can_be_hashed"):
        f = F.fn("compiler::ast::r#type::TypeLayout::" + pn)
        if f is None:
            continue
        want = _hashkeys.eval_pred(F, f, cls)
        for label, v in selfs:
            got = _hashkeys.eval_pred(F, f, v)
            key = "%s|%s|%s" % (rule, pn, "known" if "known" in label else "unbound")
            if want is None or got is None:
                rep.ob(rule, "%s answers for %s what it answers for the class" % (pn, label), "undecided", "not evaluated (class: %s, Self: %s)" % (want, got), f.span, fn=f.path, key=key)
                continue
            n += 1
            rep.ob(rule, "%s answers for %s what it answers for the class" % (pn, label), "ok" if got == want else "violated",
                   "" if got == want else "%s(class) = %s but %s(%s) = %s: `self == other` with `other: Self` type-checks and the interpreter refuses to compare two objects"
                   % (pn, want, pn, label, got), f.span, fn=f.path, key=key)
    rep.floor(rule + " predicate evaluations", n, 2)


def open_coercion_compares_with_the_result(F, rep, rule="C02.coerce-open"):
    """A fixed-shape list `[T1, T2, ..]` is offered the built-ins of an open list `[T...]` (push, remove, map ..) when it can be read as one:
    ListType::try_coerce_to_open answers with the element type it picked.  Compatibility (eq_complex) is not transitive - `int?` takes nil, nil is
    taken by `str?` - so every element type has to be compared *with the picked type*; a walk over neighbouring pairs lets `[int?, nil, str?]`
    through as `[int?...]`, and `xs.remove(2)` then hands out a str typed int.  In the closures of try_coerce_to_open every eq_complex call has an
    operand that comes from outside the closure's own item (the captured, picked type)."""
    f = F.fn("compiler::ast::list::ListType::try_coerce_to_open")
    if f is None:
        raise AnchorMissing("ListType::try_coerce_to_open")
    n, bad = 0, []
    for g in [f] + F.closures_of(f):
        for c in g.calls_to("compiler::ast::r#type::TypeLayout::eq_complex"):
            n += 1
            if g is f:
                continue            # a loop in the function itself: judged by its operands below as well
            srcs = []
            for a in c.args[:2]:
                l = op_local(a)
                tp = rules.trace_paths(g, l, transparent=rules.TRANSPARENT | {"core::ops::index::Index::index", "core::slice::<impl [T]>::get", "core::option::Option::unwrap"}) if l is not None else set()
                srcs.append({o for o, _ in tp})
            item_only = [all(o[0] == "arg" and o[1] >= 2 for o in s_) and bool(s_) for s_ in srcs]     # arg 1 = the closure environment, 2.. = the item(s)
            if all(item_only):
                bad.append(c)
    if f.calls_to("core::slice::<impl [T]>::windows") or any(g.calls_to("core::slice::<impl [T]>::windows") for g in F.closures_of(f)):
        pass
    rep.floor(rule + " compatibility tests in try_coerce_to_open", n, 1)
    rep.ob(rule, "try_coerce_to_open compares every element type with the element type it answers with (not neighbour with neighbour)", "violated" if bad else "ok",
           ("both operands of the eq_complex call at %s come from the closure's own item: the types are compared pairwise along the list, and compatibility is not "
            "transitive (`const xs = [a, nil, b]` with a: int?, b: str? reads as [int?...])" % bad[0].span) if bad else "", bad[0].span if bad else f.span, fn=f.path,
           key=rule + "|against-result")


def strings_have_no_slots(F, rep, rule="C02.str-slot"):
    """`xs[i] = v` and `xs[i] op= v` write through the view that indexing a list or a map leaves on the operand stack (ptr_mut, bin_op_assign
    without a name: both fail on anything that is not a view).  Indexing a *string* yields a new one-character string, a value: there is nothing
    to write to, so the two parser sites that accept an index step as an assignment target have to refuse a `str` receiver.  Per site: a
    discriminant test of a NativeType against Str on a value that comes from the receiver's type, whose Str edge reaches no acceptance."""
    NT = "compiler::ast::r#type::NativeType"
    nt = F.adt(NT)
    if nt is None:
        raise AnchorMissing(NT)
    str_i = str([v["name"] for v in nt["variants"]].index("Str"))

    def str_tests(g):
        out = []
        for bb, blk in enumerate(g.blocks):
            t = blk["t"]
            if t["k"] != "switch" or str_i not in dict(t["targets"]):
                continue
            dl = op_local(t["discr"])
            for s_ in blk["s"]:
                if "d" in s_ and s_["d"]["l"] == dl and "discr" in s_["rv"]:
                    pl = s_["rv"]["discr"]
                    # the place whose discriminant is read is a NativeType (the payload of a TypeLayout::Native)
                    fields = [e for e in pl.get("p", []) if e[0] == "field"]
                    pty = fields[-1][3] if fields and len(fields[-1]) > 3 else g.locals[pl["l"]]
                    if "NativeType" in pty and "TypeLayout" not in pty.replace("NativeType", ""):
                        out.append((bb, dict(t["targets"])[str_i]))
        return out
    sites = []
    pp = F.fn("compiler::ast::reassignment::parse_path")
    if pp is None:
        raise AnchorMissing("reassignment::parse_path")
    for g in [pp] + F.closures_of(pp):
        li = g.calls_to("compiler::parser::Parser::list_index")
        if li:
            tests = str_tests(g)
            good = [t for t in tests if not any(c.bb in g.reachable(t[1]) for c in li)]
            sites.append(("`s[i] = v`", g, bool(good), li[0].span))
    ft = F.fn("compiler::ast::math_expr::Expr::for_type")
    if ft is None:
        raise AnchorMissing("Expr::for_type")
    isop, _ = rules.storing_operator_conditions(F, ft)
    region = set()
    for c in isop:
        region |= ft.reachable(c.bb)
    gots = ft.calls_to("compiler::ast::r#type::TypeLayout::get_output_type")
    tests = [t for t in str_tests(ft) if t[0] in region]
    good = [t for t in tests if not any(c.bb in ft.reachable(t[1]) for c in gots)]
    sites.append(("`s[i] op= v`", ft, bool(good), ft.span))
    rep.floor(rule + " index-write sites", len(sites), 2)
    for label, g, ok, where in sites:
        rep.ob(rule, "%s is refused when s is a str (a string has no slots to write through)" % label, "ok" if ok else "violated",
               "" if ok else "no test of the receiver's type against str on the way to accepting the target: the program compiles and ptr_mut / bin_op_assign fail at run time "
               "(`expected a mutable heap primitive`)", where, fn=g.path, key="%s|%s" % (rule, "assign" if "op=" not in label else "op-assign"))


def only_methods_get_the_object(F, rep, rule="C02.method-self"):
    """`obj.m(args)` passes obj as the first argument when m is a *method* (a function type built as associated); a function that is merely stored
    in a field (`cb: fn(int) -> int`) takes its declared arguments only.  The flag `assume_self_is_on_top` of a method-call link says which it
    is: every value that reaches the field of DotLookupOption::FunctionCall is the constant false (calls through a module) or comes from
    FunctionType::is_associated_fn - a constant `true` makes `b.cb(21)` call cb(b, 21), which type-checks and fails in the callee
    (`<Object * Int> is invalid`)."""
    g = F.fn("compiler::parser::Parser::dot_chain_option")
    DLO = "compiler::ast::dot_lookup::DotLookupOption"
    a = F.adt(DLO)
    if g is None or a is None:
        raise AnchorMissing("Parser::dot_chain_option / DotLookupOption")
    n, bad = 0, []
    for bi, si, dst, rv, s_ in g.assigns():
        if "agg" in rv and rv["agg"].get("adt") == DLO and rv["agg"].get("v") == "FunctionCall":
            vi = [i for i, v in enumerate(a["variants"]) if v["name"] == "FunctionCall"][0]
            names = [x["name"] for x in a["variants"][vi]["fields"]]
            if "assume_self_is_on_top" not in names:
                raise AnchorMissing("DotLookupOption::FunctionCall.assume_self_is_on_top")
            op = rv["ops"][names.index("assume_self_is_on_top")]
            l = op_local(op)
            n += 1
            k0 = op_const(op)
            if k0 is not None:
                if k0.get("int") != "0":
                    bad.append(s_.get("sp"))
                continue
            seen, todo = set(), [l]
            while todo:
                x = todo.pop()
                if x in seen or len(seen) > 40:
                    continue
                seen.add(x)
                for d in rules.defs_of(g, x):
                    if d[0] == "assign" and "use" in d[4] and not d[3].get("p"):
                        k = op_const(d[4]["use"])
                        if k is not None:
                            if k.get("int") == "1":
                                bad.append("block %d" % d[1])
                        elif op_local(d[4]["use"]) is not None:
                            todo.append(op_local(d[4]["use"]))
    rep.floor(rule + " method-call links built", n, 1)
    rep.ob(rule, "a call through a dot chain passes the object only to a method (the flag is false or FunctionType::is_associated_fn)", "violated" if bad else "ok",
           "the flag is the constant true at %s: a function stored in a field is called with the object as an extra first argument" % bad[:2] if bad else "", g.span, fn=g.path,
           key=rule + "|flag-source")
