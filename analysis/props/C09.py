"""C09 (and the landing clause of C01) — jump landing and frame balance of the control-flow generators.

What is decided (see analysis/jumps.py for the engine):
  landing     every jump operand emitted by IfStatement / ElseStatement / WhileLoop / NumberLoop / `&&` `||` / `or`, read as a linear expression
              in the opaque block lengths, added to the position of its instruction, equals the start of an item of the generator's own word or
              its end -- never a position inside a sub-block or outside the word.  By induction over the AST (children are such words) every
              jump of a compiled function lands on an instruction of the same function or one past its last one.
  intended    ... and it is the boundary the semantics names: if-false -> else arm / end; then-arm -> end; loop-false -> first item after the loop;
              back edge -> first item of the condition; break -> first item after the loop; continue -> back edge (while) / step code (from).
  balance     walking the word as a control-flow graph (children = balanced black boxes), every position is reached with one frame depth only and
              the end with depth 0; a break / continue placeholder at nesting depth f-1 inside the body pops f / f-1 frames.
  contract    f really is that depth + 1: AssocFileData::scopes_since_loop, evaluated on scripted scope stacks, returns (#block scopes before the
              loop) + 1 and fails at a function boundary; each parser function of a block construct pushes exactly one scope of its kind before
              parsing the body and no other function pushes one; each generator places the body exactly one frame deep.
  handlers    if_stmt / while_loop / jmp / jmp_pop / done / else_stmt signal the exit state the word machine assumes (tables by abstract
              interpretation); Function::run applies Goto* without the +1 step, PushScope / PopScope with it, and pushes / pops one frame each.
Not decided: operand-stack shapes; frames across `ret` (pop_until_function); values.
"""
import itertools
import re
import absint
import jumps
import mir
import rules
import tables
from absint import Interp, Variant, Opaque, Ptr, Int, Lin, Str, Tup, some, NONE, TRUE, FALSE
from core import AnchorMissing
from mir import op_local, op_const

IF = "compiler::ast::if_statement::IfStatement"
ELSE = "compiler::ast::if_statement::ElseStatement"
WHILE = "compiler::ast::while_loop::WhileLoop"
FROM = "compiler::ast::number_loop::NumberLoop"
EXPR = "compiler::ast::math_expr::Expr"
OP = "compiler::ast::math_expr::Op"
PRIM = tables.PRIM if hasattr(tables, "PRIM") else "bytecode::variables::primitive::Primitive"
P = "C09"     # rule prefix; props/C01.py runs the landing / skeleton clauses under its own id
COND_JUMPS = {"if_stmt": 0, "while_loop": 0, "store_skip": 2, "jmp_not_nil": 0}


def compile_fn(F, adt):
    f = F.fn("<%s as compiler::ast::Compile>::compile" % adt)
    if f is None:
        raise AnchorMissing("impl Compile for " + adt)
    return f


def node(F, adt, over=None, variant=0):
    a = F.adt(adt)
    if a is None:
        raise AnchorMissing(adt)
    v = a["variants"][variant]
    return Variant(adt, variant, v["name"], [(over or {}).get(f["name"], Opaque(f["name"])) for f in v["fields"]])


def ok_words(rows):
    return [r["word"] for r in rows if r["word"] is not None]


def x_index(word):
    for k, x in enumerate(word):
        if x[0] == "code" and x[1].endswith("[<i]"):
            return k + 1
    return None


def index_of_code(word, tag):
    return [k for k, x in enumerate(word) if x[0] == "code" and jumps.base(x[1]) == tag and not x[1].endswith("[>i]")]


def ins_at(word, k, name=None):
    return k is not None and 0 <= k < len(word) and word[k][0] == "ins" and (name is None or word[k][1] == name)


def target_of(pos, word, k, ai=0):
    a = word[k][3] if len(word[k]) > 3 else ()
    if len(a) <= ai or Lin.of(a[ai]) is None:
        return None
    return jumps.find_boundary(pos, Lin.of(pos[k]).add(Lin.of(a[ai])))


class Shape:
    def __init__(self, rep, F, gen, label, key, fn):
        self.rep, self.F, self.gen, self.label, self.key, self.fn = rep, F, gen, label, key, fn

    def judge(self, rows, exhausted, x=None, intended=None, body_tag="body", body_depth=1, extra_depths=()):
        rep = self.rep
        words = ok_words(rows)
        if exhausted or not words:
            rep.ob(P + ".landing", "%s: emitted word" % self.label, "undecided", "no word could be read (exhausted=%s, paths=%d)" % (exhausted, len(rows)),
                   self.fn.span, fn=self.fn.path, key=P + ".landing|%s" % self.key)
            return 0
        n = 0
        base_key = self.key
        for wi, w in enumerate(sorted(set(words), key=jumps.show)):
            n += 1
            self.key = base_key if wi == 0 else "%s#%d" % (base_key, wi + 1)     # several words per shape (named / generated counter register)
            xi = x_index(w) if x else None
            xd = Lin({"f": 1}, -1) if x else None
            pos, edges, problems, ends, seen = jumps.machine(w, xi, xd)
            land = [m for kind, k, m in problems if kind in ("landing", "unknown")]
            unread = [m for kind, k, m in problems if kind == "operand"]
            if unread and not land:
                # the operand of a jump could not be read as a linear expression: not decided (the floor on decided shapes then fails the check)
                rep.ob(P + ".landing", "%s: every jump lands on an item boundary of the emitted word" % self.label, "undecided",
                       "; ".join(unread) + " -- word: " + jumps.show(w), self.fn.span, fn=self.fn.path, key=P + ".landing|%s" % self.key)
                n -= 1
                continue
            rep.ob(P + ".landing", "%s: every jump lands on an item boundary of the emitted word" % self.label, "violated" if land else "ok",
                   ("; ".join(land) + " -- word: " if land else "word: ") + jumps.show(w), self.fn.span, fn=self.fn.path, key=P + ".landing|%s" % self.key,
                   sample={"word": jumps.show(w), "positions": [repr(q) for q in pos]})
            bal = [m for kind, k, m in problems if kind in ("depth", "placeholder")]
            if not land:
                wrong_end = [repr(d) for d in ends if not (isinstance(d, Int) and d.v == 0)]
                if wrong_end:
                    bal.append("the end of the word is reached with frame depth %s (frames opened and closed do not pair up)" % ", ".join(wrong_end))
                if not ends:
                    bal.append("the end of the word is not reachable")
                for tag, want in [(body_tag, body_depth)] + list(extra_depths):
                    for k in index_of_code(w, tag):
                        d = seen.get(k)
                        if d is not None and not (isinstance(d, Int) and d.v == want):
                            bal.append("code(%s) starts %s frames deep, the parser counts %d scope(s) for it" % (tag, d, want))
                rep.ob(P + ".balance", "%s: each position has one frame depth, the end has depth 0%s" % (
                    self.label, ", the %s placeholder pops exactly the frames open at it" % x.lower() if x else ""), "violated" if bal else "ok",
                    "; ".join(bal) if bal else "depths: %s" % [repr(seen.get(k, "-")) for k in range(len(w) + 1)], self.fn.span, fn=self.fn.path,
                    key=P + ".balance|%s" % self.key)
                if intended is not None:
                    bad = intended(w, pos, xi)
                    rep.ob(P + ".intended", "%s: each jump goes where the construct's meaning says" % self.label, "violated" if bad else "ok",
                           "; ".join(bad) + " -- word: " + jumps.show(w) if bad else jumps.show(w), self.fn.span, fn=self.fn.path, key=P + ".intended|%s" % self.key)
        return n


# ---- intended landings -------------------------------------------------------------------------------------------------------------------

def want(bad, what, got, exp, word):
    if got != exp:
        def nm(k):
            if k is None:
                return "nowhere"
            return "the end" if k == len(word) else "item %d (%s)" % (k, jumps.show_item(word[k]))
        bad.append("%s lands on %s, expected %s" % (what, nm(got), nm(exp)))


def intended_if(has_else):
    def f(w, pos, xi):
        bad = []
        ifs = [k for k, x in enumerate(w) if ins_at(w, k, "if_stmt")]
        if len(ifs) != 1:
            return ["expected exactly one if_stmt, found %d" % len(ifs)]
        k = ifs[0]
        body = index_of_code(w, "body")
        if body != [k + 1] or not ins_at(w, k + 2, "done"):
            bad.append("expected `if_stmt <body> done` in sequence")
            return bad
        if has_else:
            el = index_of_code(w, "else_statement")
            if not ins_at(w, k + 3, "jmp") or el != [k + 4]:
                return bad + ["expected `done jmp <else>`"]
            want(bad, "the false edge of if_stmt", target_of(pos, w, k), k + 4, w)
            want(bad, "the jmp that ends the then-arm", target_of(pos, w, k + 3), len(w), w)
            if len(w) != k + 5:
                bad.append("items after the else arm")
        else:
            want(bad, "the false edge of if_stmt", target_of(pos, w, k), len(w), w)
            if len(w) != k + 3:
                bad.append("items after `done`")
        return bad
    return f


def intended_else(w, pos, xi):
    ok_ = len(w) == 3 and ins_at(w, 0, "else_stmt") and w[1][0] == "code" and ins_at(w, 2, "done")
    return [] if ok_ else ["expected `else_stmt <content> done`"]


def intended_loop(kind, x):
    def f(w, pos, xi):
        bad = []
        tests = [k for k in range(len(w)) if ins_at(w, k, "while_loop")]
        if len(tests) != 1:
            return ["expected exactly one while_loop instruction, found %d" % len(tests)]
        t = tests[0]
        backs = [k for k in range(len(w)) if ins_at(w, k, "jmp_pop") and k != xi and k > t]
        if not backs:
            return ["no back edge (jmp_pop) after the body"]
        b = backs[-1]
        exit_ = b + 1
        if kind == "while":
            cond = 0
            if not (w[0][0] == "code" and jumps.base(w[0][1]) == "condition" and t == 1):
                bad.append("expected `<condition> while_loop`")
        else:
            # the test starts right after the initialisation (the last store / store_fast before the loop instruction): the back edge re-runs the
            # test, never the initialisation.  What the test consists of is the skeleton rule's business.
            inits = [k for k in range(t) if ins_at(w, k, "store_fast") or ins_at(w, k, "store")]
            cond = inits[-1] + 1 if inits else None
            if cond is None:
                bad.append("no counter initialisation (store_fast) before the loop test")
        want(bad, "the false edge of the loop test", target_of(pos, w, t), exit_, w)
        want(bad, "the back edge", target_of(pos, w, b), cond, w)
        a = w[b][3] if len(w[b]) > 3 else ()
        if len(a) > 1 and not (isinstance(a[1], Int) and a[1].v == 1):
            bad.append("the back edge pops %r frames, expected 1" % (a[1],))
        if x and xi is not None:
            if not ins_at(w, xi, "jmp_pop"):
                bad.append("the %s placeholder was rewritten to %s" % (x, jumps.show_item(w[xi])))
                return bad
            xa = w[xi][3] if len(w[xi]) > 3 else ()
            pops = xa[1] if len(xa) > 1 else Int(1)
            if x == "Break":
                want(bad, "break", target_of(pos, w, xi), exit_, w)
                exp = Lin({"f": 1}, 0)
            else:
                if kind == "while":
                    want(bad, "continue", target_of(pos, w, xi), b, w)
                else:
                    rest = [k for k, y in enumerate(w) if y[0] == "code" and y[1].endswith("[>i]")]
                    want(bad, "continue", target_of(pos, w, xi), rest[0] + 1 if rest else None, w)
                exp = Lin({"f": 1}, -1)
            if Lin.of(pops) is None or Lin.of(pops) != exp and Lin.of(pops).add(exp, -1) != Int(0, Lin.of(pops).ty):
                d = Lin.of(pops).add(exp, -1) if Lin.of(pops) is not None else None
                if not (isinstance(d, Int) and d.v == 0):
                    bad.append("%s pops %r frames, expected %r (f = scopes_since_loop at the placeholder)" % (x.lower(), pops, exp))
        return bad
    return f


PROMOTED = []


def from_skeleton(inclusive, step, coll, names):
    """the fixed part of a from-loop: counter and bound are parked in two different registers, the test compares those two with `<` (to) or
    `<=` (through), the step (default: the integer constant 1) is added to the counter with `+=` after the body, and the two registers are
    dropped after the loop unless the counter's name collides with an existing variable."""
    def reg(x, ai=0):
        a = x[3] if len(x) > 3 else ()
        return a[ai].tag if len(a) > ai and isinstance(a[ai], Opaque) else None

    def lit(x, ai=0):
        a = x[3] if len(x) > 3 else ()
        if len(a) > ai and isinstance(a[ai], Int) and a[ai].ty not in ("bool", "char"):
            return str(a[ai].v)          # instruction!(make_int 1): the number's text is its decimal form
        return a[ai].s if len(a) > ai and isinstance(a[ai], Str) else None

    def f(w):
        bad = []
        # the counter is parked with store_fast (a new name) or store (an existing variable, assigned in place): which of the two is right is
        # C07's business (`C07.fresh-cell`).  When the counter reuses an existing variable the end bound may mention it (`from 0 to n, n`), so
        # both bounds are evaluated before the counter is written: the start value waits in a register of its own.
        def is_code(i, name):
            return len(w) > i and w[i][0] == "code" and jumps.base(w[i][1]) == name
        # the start value may be promoted to the counter's kind first (`from 0 to 2 step 0.5`: `<val_start> <zero of the counter's kind> bin_op +`)
        if is_code(0, "val_start") and is_code(1, "start_promotion") and ins_at(w, 2, "bin_op"):
            if lit(w[2]) != "+":
                bad.append("the start value is combined with the promotion constant by %r, expected `+`" % lit(w[2]))
            w = [w[0]] + list(w[3:])
            PROMOTED.append(1)
        if len(w) > 10 and is_code(0, "val_start") and ins_at(w, 1, "store_fast") and is_code(2, "val_end") and ins_at(w, 3, "store_fast") \
                and ins_at(w, 4, "load_fast") and (ins_at(w, 5, "store") or ins_at(w, 5, "store_fast")):
            if reg(w[4]) != reg(w[1]):
                bad.append("the counter is not initialised from the register the start value was parked in")
            c, e = reg(w[5]), reg(w[3])
            t0 = 6
        elif len(w) > 8 and is_code(0, "val_start") and (ins_at(w, 1, "store_fast") or ins_at(w, 1, "store")) and is_code(2, "val_end") and ins_at(w, 3, "store_fast"):
            # (a new counter too: inside a function, `from 0 to n, n` with an outer `n` reads the outer variable in the bound - the type checker binds it
            # there, the counter does not exist yet - and `store_fast n` before the bound makes `load n` find the counter, 0)
            bad.append("the counter is written before the end bound is evaluated: `n = 5; from 0 to n, n {..}` (and, for a new counter, `const n = 3` outside and "
                       "`from 0 to n, n {..}` in a function) runs zero times")
            c, e = reg(w[1]), reg(w[3])
            t0 = 4
        else:
            return ["expected `<val_start> store_fast C <val_end> store_fast E` (new counter) or `<val_start> store_fast S <val_end> store_fast E load_fast S store C` "
                    "(counter reuses a variable) first"]
        if c is None or e is None or c == e:
            bad.append("counter and bound are parked in the same register (%s)" % c if c == e else "the registers could not be read")
        if not (ins_at(w, t0, "load_fast") and ins_at(w, t0 + 1, "load_fast") and ins_at(w, t0 + 2, "bin_op") and ins_at(w, t0 + 3, "while_loop")):
            return bad + ["expected `load_fast C load_fast E bin_op while_loop` as the test"]
        if reg(w[t0]) != c or reg(w[t0 + 1]) != e:
            bad.append("the test loads %s, %s; expected the counter then the bound" % (reg(w[t0]), reg(w[t0 + 1])))
        op = lit(w[t0 + 2])
        if op != ("<=" if inclusive else "<"):
            bad.append("`%s` loop tests with %r, expected %r" % ("through" if inclusive else "to", op, "<=" if inclusive else "<"))
        body = index_of_code(w, "body")
        if body != [t0 + 4]:
            return bad + ["expected the body right after the test"]
        k = t0 + 5
        if step:
            if not (k < len(w) and w[k][0] == "code" and jumps.base(w[k][1]) == "step"):
                bad.append("expected the step expression after the body")
        else:
            nm = names[9] if len(names) > 9 else None
            if not (ins_at(w, k) and w[k][1] in ("#9", nm) and lit(w[k]) == "1" and nm == "make_int"):
                bad.append("expected the integer constant 1 as the default step, found %s" % (jumps.show_item(w[k]) if k < len(w) else "nothing"))
        k += 1
        if not (ins_at(w, k, "bin_op_assign") and lit(w[k]) == "+=" and reg(w[k], 1) == c):
            bad.append("expected `bin_op_assign += <counter>` after the step, found %s" % (jumps.show_item(w[k]) if k < len(w) else "nothing"))
        k += 1
        if not ins_at(w, k, "jmp_pop"):
            bad.append("expected the back edge after the step")
        k += 1
        if coll:
            if k != len(w):
                bad.append("the registers are dropped although the counter's name belongs to an existing variable")
        else:
            if not (k == len(w) - 1 and ins_at(w, k, "delete_name_scoped") and reg(w[k], 0) == c and reg(w[k], 1) == e):
                bad.append("expected `delete_name_scoped <counter> <bound>` after the loop")
        return bad
    return f


# ---- contract: scopes_since_loop and the parser's scope pushes ------------------------------------------------------------------------

def scope_value(F, kind):
    adt = F.adt("compiler::scope::ScopeType")
    sc = F.adt("compiler::scope::Scope")
    if adt is None or sc is None:
        raise AnchorMissing("compiler::scope::ScopeType / Scope")
    names = [v["name"] for v in adt["variants"]]
    vi = names.index(kind)
    tyv = Variant("compiler::scope::ScopeType", vi, kind, [Opaque("payload%d" % i) for i in range(len(adt["variants"][vi]["fields"]))])
    return Variant("compiler::scope::Scope", 0, "Scope", [tyv if f["name"] == "ty" else Opaque(f["name"]) for f in sc["variants"][0]["fields"]])


def scopes_since_loop(F, rep):
    f = F.fn("compiler::parser::AssocFileData::scopes_since_loop")
    if f is None:
        raise AnchorMissing("AssocFileData::scopes_since_loop")
    from props.C15 import scripted_next, NEXT
    n = 0
    bad = []
    undec = []

    def run(script):
        models = dict(absint.DEFAULT_MODELS)
        models[NEXT] = scripted_next([scope_value(F, k) for k in script])
        it = Interp(F, models=models, max_depth=5, max_paths=64, loop_bound=8)
        outs = it.run(f, [Opaque("self")])
        res = set()
        for o in outs:
            v = o.value
            if o.kind == "return" and isinstance(v, Variant) and v.adt == "core::result::Result":
                if v.name == "Ok":
                    res.add(("ok", v.fields[0].v) if isinstance(v.fields[0], Int) else ("ok", None))
                else:
                    res.add(("err", None))
            else:
                res.add((o.kind, None))
        return res, it.exhausted
    blocks = ("IfBlock", "ElseBlock")
    for k in range(0, 4):
        for pre in itertools.product(blocks, repeat=k):
            for loop in ("WhileLoop", "NumberLoop"):
                res, ex = run(list(pre) + [loop, "Function", "File"])
                n += 1
                if ex or len(res) != 1:
                    undec.append("%s -> %s" % (list(pre) + [loop], sorted(res, key=str)))
                elif res != {("ok", k + 1)}:
                    bad.append("scopes %s: %s, expected Ok(%d)" % (list(pre) + [loop], sorted(res, key=str), k + 1))
            res, ex = run(list(pre) + ["Function", "WhileLoop", "File"])
            n += 1
            if ex or len(res) != 1:
                undec.append("%s -> %s" % (list(pre) + ["Function"], sorted(res, key=str)))
            elif res != {("err", None)}:
                bad.append("scopes %s + Function + loop: %s, expected Err (a loop outside the function is not this break's loop)" % (list(pre), sorted(res, key=str)))
    rep.ob(P + ".contract", "scopes_since_loop = (block scopes between the statement and its loop) + 1, Err across a function boundary",
           "violated" if bad else ("undecided" if undec else "ok"), "; ".join((bad or undec)[:4]) or "%d scripted scope stacks" % n, f.span, fn=f.path,
           key=P + ".contract|scopes_since_loop")
    rep.floor(P + ".contract scripted scope stacks", n, 40)


PUSHERS = {   # helper -> (owner, scope kind, the call that parses what the scope encloses)
    "compiler::parser::AssocFileData::push_if_typed": ("Parser::if_statement", "IfBlock", "compiler::parser::Parser::block"),
    "compiler::parser::AssocFileData::push_else_typed": ("Parser::if_statement", "ElseBlock", "compiler::parser::Parser::else_statement"),
    "compiler::parser::AssocFileData::push_while_loop": ("Parser::while_loop", "WhileLoop", "compiler::parser::Parser::block"),
    "compiler::parser::AssocFileData::push_number_loop": ("Parser::number_loop", "NumberLoop", "compiler::parser::Parser::block"),
}


def scope_pushes(F, rep):
    n = 0
    for pusher, (owner, kind, body_parse) in sorted(PUSHERS.items()):
        pf = F.fn(pusher)
        if pf is None:
            raise AnchorMissing(pusher)
        callers = [(g, c) for g, c in F.callers_of(pusher)]
        owners = sorted({mir.short(g.path) for g, c in callers})
        n += len(callers)
        ok_ = len(callers) == 1 and owners == [owner]
        detail = "called from %s" % owners
        if ok_:
            g, c = callers[0]
            bodies = [b for b in g.calls() if b.matches(body_parse)]
            if not bodies:
                ok_ = False
                detail += "; the owner does not parse a body (%s)" % mir.short(body_parse)
            elif not all(rules.call_dominates(g, [c], b.bb) for b in bodies):
                ok_ = False
                detail += "; the body is parsed before the scope is pushed"
            # the scope is closed again: the handle returned by the push reaches ScopeHandle::consume after the body was parsed
            der = g.derived([c.dst["l"]], through_call=lambda cc, idx: None)
            cons = [cc for cc in g.calls() if cc.matches("compiler::scope::ScopeHandle::consume") and cc.args and op_local(cc.args[0]) in der]
            if not cons:
                ok_ = False
                detail += "; the scope handle is never consumed"
            elif kind == "IfBlock":
                # the else arm is not inside the if scope (at run time the If frame is not open while the else arm runs)
                els = g.calls_to("compiler::parser::AssocFileData::push_else_typed")
                if els and not all(rules.call_dominates(g, cons, e.bb) for e in els):
                    ok_ = False
                    detail += "; the else scope is opened while the if scope is still open"
        rep.ob(P + ".contract", "exactly one parser function opens a %s scope, once, around the body it parses" % kind, "ok" if ok_ else "violated", detail,
               pf.span, fn=pf.path, key=P + ".contract|push|%s" % kind)
    # nothing else pushes a block scope kind: push_scope_typed is called by the named pushers (and the function / class / module ones) only
    pst = [g.path for g, c in F.callers_of("compiler::parser::AssocFileData::push_scope_typed")]
    extra = sorted(set(mir.short(p) for p in pst if not p.startswith("compiler::parser::AssocFileData::push_")))
    rep.ob(P + ".contract", "scopes are pushed only through the named push_* helpers", "violated" if extra else "ok", "other callers of push_scope_typed: %s" % extra if extra else
           "%d helper(s)" % len(set(pst)), None, key=P + ".contract|push|helpers-only")
    rep.floor(P + ".contract scope push sites", n, 4)


# ---- handlers and the interpreter loop ----------------------------------------------------------------------------------------------------

def run_handler(F, fn, top, argc):
    """exit states signalled by a handler, per path: [(Ok|Err|Panic, [exit-state values], data_dep)]"""
    TOP = 9000

    def ensure(p):
        fr = p.frames.setdefault(-1, {})
        fr.setdefault(TOP, top)
        return fr

    def pop(it, p, fid, f, t, args):
        fr = ensure(p)
        k = fr.get("pops", 0)
        fr["pops"] = k + 1
        return some(fr[TOP]) if (k == 0 and top is not None) else NONE

    def last(it, p, fid, f, t, args):
        ensure(p)
        return some(Ptr(-1, TOP)) if top is not None else NONE

    def first(it, p, fid, f, t, args):
        return some(Str("A0")) if argc > 0 else NONE

    def get(it, p, fid, f, t, args):
        i = args[1] if len(args) > 1 else None
        if isinstance(i, Int):
            return some(Str("A%d" % i.v)) if i.v < argc else NONE
        return NotImplemented

    def parse(it, p, fid, f, t, args):
        s = args[0]
        k = 0
        while isinstance(s, Ptr) and k < 6:
            s = it.deref(p, s)
            k += 1
        return absint.ok(Opaque("int(%s)" % (s.s if isinstance(s, Str) else "?"), "isize"))

    def signal(it, p, fid, f, t, args):
        p.events.append(("signal", args[1] if len(args) > 1 else None))
        return absint.UNIT

    def size(it, p, fid, f, t, args):
        return Int(1 if top is not None else 0, "usize")

    def map_or_else(it, p, fid, f, t, args):
        o = args[0]
        if not isinstance(o, Variant) or o.adt != "core::option::Option":
            return NotImplemented
        cl = args[1] if o.name == "None" else args[2]
        if not isinstance(cl, absint.Closure):
            return NotImplemented
        g = it.lookup_fn(cl.defn)
        if g is None:
            return NotImplemented
        return ("enter", g, [cl] if o.name == "None" else [cl, o.fields[0]], None)
    models = dict(tables.MODELS)
    models.update({
        "bytecode::context::Ctx::pop": pop,
        "bytecode::context::Ctx::get_last_op_item": last,
        "bytecode::context::Ctx::stack_size": size,
        "bytecode::context::Ctx::clear_stack": lambda *a: absint.UNIT,
        "core::slice::<impl [T]>::first": first,
        "core::slice::<impl [T]>::get": get,
        "core::option::Option::map_or_else": map_or_else,
        "core::str::<impl str>::parse": parse,
        "bytecode::context::Ctx::signal": signal,
        "alloc::string::String::as_str": absint._ident,
    })
    it = Interp(F, models=models, max_depth=6, max_paths=256)
    outs = it.run(fn, [Opaque("ctx"), Opaque("args")])
    res = []
    for o in outs:
        sig = [e[1] for e in o.events if e[0] == "signal"]
        if o.kind == "return" and isinstance(o.value, Variant) and o.value.adt == "core::result::Result":
            res.append((o.value.name, sig, o.data_dep))
        else:
            res.append(("Panic" if o.kind == "panic" else o.kind, sig, o.data_dep))
    return res, it.exhausted


def sig_text(v):
    if isinstance(v, Variant):
        def a(x):
            if isinstance(x, Opaque):
                return x.tag
            if isinstance(x, Int):
                return str(x.v)
            if isinstance(x, Variant):
                return x.name
            return "?"
        return "%s(%s)" % (v.name, ", ".join(a(x) for x in v.fields)) if v.fields else v.name
    return "?"


def handler_tables(F, rep):
    T = tables.Tables(F)
    bi = T.prim_names.index("Bool")
    tv = Variant(PRIM, bi, "Bool", [TRUE])
    fv = Variant(PRIM, bi, "Bool", [FALSE])
    H = "bytecode::instruction::implementations::"
    cases = [
        ("if_stmt", fv, 1, {"Goto(int(A0))"}, "a false condition jumps by the operand"),
        ("if_stmt", tv, 1, {"PushScope(If)"}, "a true condition opens one frame and falls through"),
        ("while_loop", fv, 1, {"Goto(int(A0))"}, "a false condition jumps by the operand"),
        ("while_loop", tv, 1, {"PushScope(WhileLoop)"}, "a true condition opens one frame and falls through"),
        ("jmp", None, 1, {"Goto(int(A0))"}, "jumps by the operand"),
        ("jmp_pop", None, 2, {"GotoPopScope(int(A0), int(A1))"}, "jumps by the first operand and closes as many frames as the second says"),
        ("jmp_pop", None, 1, {"GotoPopScope(int(A0), 1)"}, "with one operand closes one frame"),
        ("done", None, 0, {"PopScope"}, "closes one frame"),
        ("else_stmt", None, 0, {"PushScope(Else)"}, "opens one frame"),
    ]
    n = 0
    for name, top, argc, expect, what in cases:
        fn = F.fn(H + name)
        if fn is None:
            raise AnchorMissing("instruction handler " + name)
        res, ex = run_handler(F, fn, top, argc)
        oks = [r for r in res if r[0] == "Ok"]
        got = {", ".join(sig_text(s) for s in sig) for _, sig, _ in oks}
        others = [r for r in res if r[0] not in ("Ok", "Err")]
        st = "ok" if (oks and not ex and got == expect and not others) else ("undecided" if ex else "violated")
        n += 1
        rep.ob(P + ".handlers", "%s (%s, %d operand(s)): %s" % (name, "no stack value" if top is None else ("true" if top is tv else "false"), argc, what), st,
               "signals on Ok paths: %s; expected %s%s" % (sorted(got), sorted(expect), ("; other outcomes: %s" % [r[0] for r in others]) if others else ""),
               fn.span, fn=fn.path, key=P + ".handlers|%s|%s|%d" % (name, "none" if top is None else ("true" if top is tv else "false"), argc))
    rep.floor(P + ".handler table rows", n, 9)


def interpreter_loop(F, rep):
    """Function::run: how each exit state moves the instruction pointer and the frame stack."""
    run_ = F.fn("bytecode::function::Function::run")
    if run_ is None:
        raise AnchorMissing("Function::run")
    ies = F.adt("bytecode::function::InstructionExitState")
    if ies is None:
        raise AnchorMissing("InstructionExitState")
    vnames = [v["name"] for v in ies["variants"]]
    # the dispatch: a switch on the discriminant of the polled exit state
    poll = run_.calls_to("bytecode::context::Ctx::poll")
    if not poll:
        raise AnchorMissing("Ctx::poll in Function::run")
    der = run_.derived([c.dst["l"] for c in poll], through_call=lambda c, idx: None)
    sw = None
    for bi, blk in enumerate(run_.blocks):
        t = blk["t"]
        if t["k"] == "switch" and t.get("dty") == "isize" and len(t["targets"]) >= 5:
            for _, _, d, rv, _ in [(0, 0, s["d"], s["rv"], s) for s in blk["s"] if "d" in s]:
                if "discr" in rv and op_local({"copy": rv["discr"]}) is not None:
                    base = rv["discr"]["l"]
                    if base in der and d["l"] == op_local(t["discr"]):
                        sw = (bi, t)
    if sw is None:
        raise AnchorMissing("dispatch on InstructionExitState in Function::run")
    bi, t = sw
    arm = {}
    for v, tg in t["targets"]:
        if int(v) < len(vnames):
            arm[vnames[int(v)]] = tg
    # the +1 step: the block that adds the constant 1 to instruction_ptr
    ip = [l for l, nm in run_.names.items() if nm == "instruction_ptr"]
    incs = set()
    for b, si, d, rv, s in run_.assigns():
        if "bin" in rv and rv["bin"] in ("Add", "AddWithOverflow") and op_local(rv["l"]) in ip:
            c = op_const(rv["r"])
            if c is not None and c.get("int") == "1":
                incs.add(b)
    head = [c.bb for c in run_.calls() if c.callee().endswith("::len") and False]
    rep.floor(P + ".loop +1 step sites in Function::run", len(incs), 1)
    goto_cl = [g for g in F.closures_of(run_) if any("bin" in rv and rv["bin"] in ("Add", "AddWithOverflow") for _, _, _, rv, _ in g.assigns()) or
               g.calls_to("core::num::<impl usize>::checked_add_signed")]
    ADD = "bytecode::context::Ctx::add_frame"
    POP = "bytecode::context::Ctx::pop_frame"
    expect = {
        "Goto": (False, 0, 0), "GotoPushScope": (False, 1, 0), "GotoPopScope": (False, 0, 1),
        "PushScope": (True, 1, 0), "PopScope": (True, 0, 1), "NoExit": (True, 0, 0),
    }
    n = 0
    for name, (steps, adds, pops) in sorted(expect.items()):
        if name not in arm:
            rep.ob(P + ".loop", "Function::run handles exit state %s" % name, "violated", "no arm in the dispatch", run_.span, fn=run_.path, key=P + ".loop|%s" % name)
            continue
        n += 1
        # blocks of this arm: reachable from the arm entry without passing the dispatch again
        reach = run_.reachable(arm[name], removed_blocks={bi})
        reach = {b for b in reach if not run_.blocks[b].get("cleanup")}
        does_step = bool(reach & incs)
        a = [c for c in run_.calls() if c.bb in reach and c.matches(ADD)]
        p_ = [c for c in run_.calls() if c.bb in reach and c.matches(POP)]
        jumps_ = [c for c in run_.calls() if c.bb in reach and any(c.callee() == g.path or c.callee().startswith(g.path) for g in goto_cl)]
        # Fn::call of the goto closure
        jc = [c for c in run_.calls() if c.bb in reach and ("FnMut::call_mut" in c.callee() or "Fn::call" in c.callee() or "FnOnce::call_once" in c.callee())
              and rules.closure_def_of_arg(run_, c.args[0]) in [g.path for g in goto_cl]] if goto_cl else []
        problems = []
        if does_step != steps:
            problems.append("the instruction pointer is %sadvanced by one afterwards" % ("" if does_step else "not "))
        if (len(a) > 0) != (adds > 0) or len(a) > 1:
            problems.append("%d add_frame call(s), expected %d" % (len(a), adds))
        if (len(p_) > 0) != (pops > 0) or len(p_) > 1:
            problems.append("%d pop_frame call site(s), expected %d" % (len(p_), pops))
        if name.startswith("Goto") and not (jumps_ or jc):
            problems.append("the offset is not applied (no call of the goto closure)")
        if not name.startswith("Goto") and (jumps_ or jc):
            problems.append("applies a jump offset")
        rep.ob(P + ".loop", "Function::run on %s: %s, opens %d / closes %s frame(s)" % (name, "then steps to the next instruction" if steps else "jumps without the +1 step",
                                                                                         adds, "n" if name == "GotoPopScope" else pops),
               "violated" if problems else "ok", "; ".join(problems), run_.span, fn=run_.path, key=P + ".loop|%s" % name)
    # --- `done` really closes a frame: if the pop in the PopScope arm is conditional, the condition is the book-keeping vector of open block
    #     scopes, which grows with every frame opened here and shrinks nowhere else (so it is non-empty whenever a block frame is open)
    if "PopScope" in arm:
        reaches = {nm: {b for b in run_.reachable(arm[nm], removed_blocks={bi}) if not run_.blocks[b].get("cleanup")} for nm in arm}
        common = set.intersection(*reaches.values()) if reaches else set()
        own = {nm: r - common for nm, r in reaches.items()}
        pops_ = [c for c in run_.calls() if c.bb in own["PopScope"] and c.matches(POP)]
        problems = []
        detail = ""
        if pops_:
            pc = pops_[0]
            # is the pop unconditional within the arm?  (every path from the arm entry to the shared tail passes it)
            tail_entry = [b for b in common if any(p in own["PopScope"] or p == arm["PopScope"] for p in run_.preds(b))]
            uncond = all(b not in run_.reachable(arm["PopScope"], removed_blocks={bi, pc.bb}) for b in tail_entry) if tail_entry else False
            if uncond:
                detail = "pop_frame is unconditional in the PopScope arm"
            else:
                vecs = [l for l, ty in enumerate(run_.locals) if ty.replace(" ", "").startswith("alloc::vec::Vec<bytecode::context::SpecialScope")]
                refs = {}
                for b, si, d, rv, st in run_.assigns():
                    if "ref" in rv and rv["ref"].get("l") in vecs and not rv["ref"].get("p") and rv.get("mut"):
                        refs[d["l"]] = rv["ref"]["l"]
                uses = []
                for c in run_.calls():
                    if c.args and op_local(c.args[0]) in refs and not run_.blocks[c.bb].get("cleanup"):
                        uses.append(c)
                shrink = [c for c in uses if not c.callee().endswith("::push") and not c.callee().endswith("::len") and not c.callee().endswith("::is_empty")]
                grow = [c for c in uses if c.callee().endswith("::push")]
                guard_pops = [c for c in shrink if c.callee().endswith("::pop") and c.bb in own["PopScope"]]
                stray = [c for c in shrink if c not in guard_pops]
                if not vecs or not guard_pops:
                    problems.append("pop_frame in the PopScope arm is conditional on something other than the scope book-keeping vector")
                if stray:
                    problems.append("the scope book-keeping vector also shrinks outside the PopScope arm (%s): `done` can then find it empty while a frame is open and leave the frame open"
                                    % ", ".join("%s at %s" % (mir.short(c.callee()), c.span) for c in stray[:3]))
                for nm in ("PushScope", "GotoPushScope"):
                    if nm in own and any(c.bb in own[nm] and c.matches(ADD) for c in run_.calls()) and not any(c.bb in own[nm] for c in grow):
                        problems.append("the %s arm opens a frame without recording it in the book-keeping vector" % nm)
                detail = "%d push / %d pop / %d other mutation(s) of the book-keeping vector" % (len(grow), len(guard_pops), len(stray))
        else:
            problems.append("no pop_frame in the PopScope arm")
        n += 1
        rep.ob(P + ".loop", "`done` closes a frame whenever one is open (the pop is unconditional, or guarded only by a vector that records every frame opened and shrinks nowhere else)",
               "violated" if problems else "ok", "; ".join(problems) or detail, run_.span, fn=run_.path, key=P + ".loop|PopScope-effective")
    if "ReturnValue" in arm:
        reach = run_.reachable(arm["ReturnValue"], removed_blocks={bi})
        reach = {b for b in reach if not run_.blocks[b].get("cleanup")}
        pu = [c for c in run_.calls() if c.bb in reach and c.matches("bytecode::stack::Stack::pop_until_function")]
        rets = [b for b in reach if run_.blocks[b]["t"]["k"] == "return"]
        back = bool(reach & incs)
        problems = []
        if not pu:
            problems.append("the block frames of the function are not dropped (no pop_until_function)")
        if not rets or back:
            problems.append("execution of the function continues after ret")
        n += 1
        rep.ob(P + ".loop", "Function::run on ReturnValue: drops the function's block frames and returns", "violated" if problems else "ok", "; ".join(problems),
               run_.span, fn=run_.path, key=P + ".loop|ReturnValue")
    rep.floor(P + ".loop exit-state arms judged", n, 8)
    # the goto closure adds the offset to the pointer of the jumping instruction, nothing else
    for g in goto_cl:
        consts = []
        for _, _, d, rv, _ in g.assigns():
            if "bin" in rv and rv["bin"] in ("Add", "AddWithOverflow", "Sub", "SubWithOverflow"):
                for side in ("l", "r"):
                    c = op_const(rv[side])
                    if c is not None and "int" in c:
                        consts.append(c["int"])
        rep.ob(P + ".loop", "the jump target is instruction_ptr + offset (no constant correction)", "violated" if consts else "ok",
               "constants in the target computation: %s" % consts if consts else "", g.span, fn=g.path, key=P + ".loop|goto-target")
    rep.floor(P + ".loop goto closure", len(goto_cl), 1)


def returns(F, rep):
    """`return` from any depth: `<value> ret`; ret signals ReturnValue; Function::run then drops every block frame of the function."""
    RET = "compiler::ast::r#return::ReturnStatement"
    ra = F.adt(RET) or F.adt("compiler::ast::return::ReturnStatement")
    rc = None
    for f in F.crates["compiler"].fns:
        if re.match(r"<compiler::ast::(r#)?return::ReturnStatement as compiler::ast::Compile>::compile$", f.path):
            rc = f
    if rc is None:
        raise AnchorMissing("impl Compile for ReturnStatement")
    adt = rc.path[1:].split(" as ")[0]
    n = 0
    for has_value in (True, False):
        rows, ex = jumps.words(F, rc, [Variant(adt, 0, "ReturnStatement", [some(Opaque("value")) if has_value else NONE]), Opaque("state")])
        ws = sorted(set(ok_words(rows)), key=jumps.show)
        good = bool(ws) and not ex and all((len(w) == 2 and w[0][0] == "code" and ins_at(w, 1, "ret")) if has_value else (len(w) == 1 and ins_at(w, 0, "ret")) for w in ws)
        n += 1
        rep.ob(P + ".return", "`return%s` compiles to `%sret`" % (" v" if has_value else "", "<v> " if has_value else ""), "ok" if good else ("undecided" if (ex or not ws) else "violated"),
               "emitted: %s" % [jumps.show(w) for w in ws], rc.span, fn=rc.path, key=P + ".return|emission|%s" % ("value" if has_value else "plain"))
    H = "bytecode::instruction::implementations::ret"
    rf = F.fn(H)
    if rf is None:
        raise AnchorMissing(H)
    T = tables.Tables(F)
    top = T.prim_value("Int", "top")
    for tv, exp in ((top, "ReturnValue(Value)"), (None, "ReturnValue(NoValue)")):
        res, ex = run_handler(F, rf, tv, 0)
        oks = [r for r in res if r[0] == "Ok"]
        got = {", ".join(sig_text(x) for x in sig) for _, sig, _ in oks}
        others = [r for r in res if r[0] not in ("Ok", "Err")]
        n += 1
        rep.ob(P + ".return", "ret with %s signals %s" % ("a value on the stack" if tv is not None else "an empty stack", exp),
               "ok" if (oks and not ex and got == {exp} and not others) else ("undecided" if ex else "violated"), "signals on Ok paths: %s" % sorted(got), rf.span, fn=rf.path,
               key=P + ".return|handler|%s" % ("value" if tv is not None else "empty"))
    # labels: every frame a special scope pushes is recognised as one by pop_until_function
    ss = F.adt("bytecode::context::SpecialScope")
    ident = F.fn("bytecode::context::SpecialScope::identity_str")
    isl = F.fn("bytecode::context::SpecialScope::is_label_special_scope")
    if ss is None or ident is None or isl is None:
        raise AnchorMissing("SpecialScope::identity_str / is_label_special_scope")
    for vi, v in enumerate(ss["variants"]):
        it = Interp(F, max_depth=4, max_paths=32)
        outs = it.run(ident, [Variant("bytecode::context::SpecialScope", vi, v["name"], [])])
        labels = {o.value.s if (o.kind == "return" and isinstance(o.value, Str)) else None for o in outs}
        verdict, detail = "undecided", "label not read: %s" % [repr(o.value)[:40] for o in outs]
        if len(labels) == 1 and None not in labels:
            lab = labels.pop()
            it2 = Interp(F, max_depth=4, max_paths=32)
            o2 = it2.run(isl, [Str(lab)])
            vals = {bool(o.value.v) if (o.kind == "return" and isinstance(o.value, Int)) else None for o in o2}
            detail = "label %r -> %s" % (lab, sorted(vals, key=str))
            verdict = "ok" if vals == {True} else ("undecided" if None in vals else "violated")
        n += 1
        rep.ob(P + ".return", "a %s frame is labelled as a block frame (dropped by pop_until_function on return)" % v["name"], verdict, detail, ident.span, fn=isl.path,
               key=P + ".return|label|%s" % v["name"])
    puf = F.fn("bytecode::stack::Stack::pop_until_function")
    if puf is None:
        raise AnchorMissing("Stack::pop_until_function")
    uses = puf.calls_to("bytecode::context::SpecialScope::is_label_special_scope")
    rep.ob(P + ".return", "pop_until_function decides with is_label_special_scope which frames to drop", "ok" if uses else "violated", "", puf.span, fn=puf.path,
           key=P + ".return|pop_until_function")
    rep.floor(P + " return clauses", n, 7)


# ---- driver ------------------------------------------------------------------------------------------------------------------------------

def generators(F, rep):
    import opcodes
    names = opcodes.tables(F)["names"]
    n = 0
    nsk = 0
    ifc, elc, whc, frc = compile_fn(F, IF), compile_fn(F, ELSE), compile_fn(F, WHILE), compile_fn(F, FROM)
    st = Opaque("state")
    # if / if-else
    for has_else in (False, True):
        over = {"else_statement": some(Opaque("else_statement")) if has_else else NONE}
        rows, ex = jumps.words(F, ifc, [node(F, IF, over), st])
        n += Shape(rep, F, IF, "`if c {..}%s`" % (" else .." if has_else else ""), "if%s" % ("-else" if has_else else ""), ifc).judge(
            rows, ex, intended=intended_if(has_else))
    # else arm
    ea = F.adt(ELSE)
    if ea is None:
        raise AnchorMissing(ELSE)
    for vi, v in enumerate(ea["variants"]):
        rows, ex = jumps.words(F, elc, [Variant(ELSE, vi, v["name"], [Opaque("content")]), st])
        n += Shape(rep, F, ELSE, "`else` arm (%s)" % v["name"], "else|%s" % v["name"], elc).judge(rows, ex, intended=intended_else, body_tag="content")
    # while
    for x in (None, "Break", "Continue"):
        rows, ex = jumps.words(F, whc, [node(F, WHILE), st], x=x)
        n += Shape(rep, F, WHILE, "`while c {..}`%s" % (" with a %s in the body" % x.lower() if x else ""), "while|%s" % (x or "plain"), whc).judge(
            rows, ex, x=x, intended=intended_loop("while", x), extra_depths=[("condition", 0)])
    # from-loop
    for inclusive, step, coll in itertools.product((True, False), (False, True), (False, True)):
        for x in (None, "Break", "Continue"):
            over = {"inclusive": TRUE if inclusive else FALSE, "step": some(Opaque("step")) if step else NONE,
                    "name_is_collision": TRUE if coll else FALSE}
            rows, ex = jumps.words(F, frc, [node(F, FROM, over), st], x=x)
            lab = "`from a %s b%s`%s%s" % ("through" if inclusive else "to", " step s" if step else "", " (counter name collides)" if coll else "",
                                           " with a %s in the body" % x.lower() if x else "")
            key = "from|%s|%s|%s|%s" % ("through" if inclusive else "to", "step" if step else "nostep", "collision" if coll else "fresh", x or "plain")
            n += Shape(rep, F, FROM, lab, key, frc).judge(rows, ex, x=x, intended=intended_loop("from", x),
                                                          extra_depths=[("val_start", 0), ("val_end", 0), ("step", 1)])
            if x is None:
                sk = from_skeleton(inclusive, step, coll, names)
                for wi, w in enumerate(sorted(set(ok_words(rows)), key=jumps.show)):
                    bad = sk(w)
                    rep.ob(P + ".skeleton", "%s: counter / bound registers, test operator, step and clean-up" % lab, "violated" if bad else "ok",
                           ("; ".join(bad) + " -- " if bad else "") + jumps.show(w), frc.span, fn=frc.path,
                           key=P + ".skeleton|%s%s" % (key, "" if wi == 0 else "#%d" % (wi + 1)))
                    nsk += 1
    rep.ob(P + ".skeleton", "a from loop whose counter is of a wider kind than its start value starts the counter at that kind (`<val_start> <zero> bin_op +`)",
           "ok" if PROMOTED else "violated", "" if PROMOTED else "no emitted word promotes the start value: `from 0 to 2 step 0.5, i` starts with the int 0 in a float counter",
           frc.span, fn=frc.path, key=P + ".skeleton|from|start-promotion")
    del PROMOTED[:]
    rep.floor(P + " generator shapes judged", n, 2 + 2 + 3 + 24)
    rep.floor(P + " from-loop skeletons judged", nsk, 8)
    return n


def short_circuit(F, rep):
    """`a && b`, `a || b`, `(x) or y`: the skip lands right after the operator's own code."""
    ea, oa = F.adt(EXPR), F.adt(OP)
    cd = F.fn("compiler::ast::math_expr::compile_depth")
    if ea is None or oa is None or cd is None:
        raise AnchorMissing("Expr / Op / compile_depth")
    en = [v["name"] for v in ea["variants"]]
    on = [v["name"] for v in oa["variants"]]
    n = 0
    shapes = [(op, Variant(EXPR, en.index("BinOp"), "BinOp", [Opaque("lhs"), Variant(OP, on.index(op), op, []), Opaque("rhs")])) for op in ("And", "Or") if op in on]
    if "NilEval" in en:
        shapes.append(("NilEval", Variant(EXPR, en.index("NilEval"), "NilEval", [Opaque("lhs"), Opaque("rhs")])))
    for op, e in shapes:
        rows, ex = jumps.words(F, cd, [e, Opaque("state"), Opaque("depth")])
        words = ok_words(rows)
        if ex or not words:
            rep.ob(P + ".landing", "`%s`: emitted word" % op, "undecided", "no word read (exhausted=%s)" % ex, cd.span, fn=cd.path, key=P + ".landing|short|%s" % op)
            continue
        for w in words:
            n += 1
            pos = jumps.positions(w)
            bad = []
            js = [k for k in range(len(w)) if w[k][0] == "ins" and w[k][1] in ("store_skip", "jmp_not_nil")]
            if len(js) != 1:
                bad.append("expected one skip instruction, found %d" % len(js))
            for k in js:
                tg = target_of(pos, w, k, COND_JUMPS[w[k][1]])
                rhs = [q for q in index_of_code(w, "rhs")]
                if tg is None:
                    bad.append("%s at %s does not land on an item boundary" % (w[k][1], pos[k]))
                elif not rhs or tg <= rhs[-1]:
                    bad.append("the skip lands on item %d, not past the right operand" % tg)
                elif w[k][1] == "jmp_not_nil" and tg != len(w):
                    bad.append("the skip lands on item %d (%s), expected the end" % (tg, jumps.show_item(w[tg])))
                elif w[k][1] == "store_skip" and tg != len(w):
                    bad.append("the skip lands on item %d (%s), expected the end of the operator's code" % (tg, jumps.show_item(w[tg])))
            rep.ob(P + ".landing", "`%s`: the short-circuit skip lands right after the operator's own code" % {"And": "a && b", "Or": "a || b", "NilEval": "(x) or y"}[op],
                   "violated" if bad else "ok", ("; ".join(bad) + " -- " if bad else "") + jumps.show(w), cd.span, fn=cd.path, key=P + ".landing|short|%s" % op)
    rep.floor(P + " short-circuit shapes", n, 3)



def function_end(F, rep, rule="C09.function-end"):
    """The forward jumps of a trailing `if` (`if_stmt N` without else, the `jmp M` behind an if-arm) target the slot one past the statement's closing
    `done`.  Inside a body that slot holds the next statement; at the end of a function it holds the implicit `void; ret` that Function::compile
    appends - unless the body's *last* instruction is `ret`, in which case nothing jumps past it (a `ret` that ends the body is the code of a
    `return` statement standing at block level).  So the decision not to append looks at the last item of the body and at no earlier one: looking
    past trailing `done`s (`.. ret done`) removes the landing slot of the if's own exits."""
    fc = [g for g in F.crates["compiler"].fns if g.path.endswith("function::Function as compiler::ast::Compile>::compile")]
    if len(fc) != 1:
        raise AnchorMissing("<Function as Compile>::compile")
    g = fc[0]
    bodies = [g] + F.closures_of(g)
    pushes = [c for c in g.calls() if mir.short(c.callee()).endswith("Vec::push")]
    lasts = [c for c in g.calls() if mir.strip_generics(c.callee()).endswith("[T]>::last") or mir.short(c.callee()).endswith("]::last")
             or mir.short(c.callee()) == "[T]::last"]
    SCANS = ("::rev", "::find", "::rfind", "::rposition", "::position", "::skip_while", "::take_while", "::rfind_map", "::find_map", "::nth_back", "::next_back",
             "::rsplit", "::iter", "::any", "::all", "::ends_with")
    # only what is done to the compiled body counts (the value that comes out of <Block as Compile>::compile, and whatever is made from it)
    src = [c.dst["l"] for c in g.calls() if "function_body::Block as compiler::ast::Compile>::compile" in c.callee()]
    if not src:
        raise AnchorMissing("<Block as Compile>::compile in Function::compile")
    der = g.derived(src, through_call=lambda c, idx: True)
    scans = sorted({mir.short(c.callee()) for c in g.calls() if mir.strip_generics(c.callee()).endswith(SCANS) and c.args and op_local(c.args[0]) in der})
    lasts = [c for c in lasts if c.args and op_local(c.args[0]) in der]
    if not pushes:
        raise AnchorMissing("the implicit return pushed by Function::compile")
    st = "ok" if lasts and not scans else "violated"
    rep.ob(rule, "Function::compile leaves out the implicit `void; ret` only when the last item of the body is `ret`", st,
           "" if st == "ok" else ("the body is examined through %s (no plain last()): with `.. ret done` at the end no implicit return is appended and the exits of the "
                                  "trailing `if` jump to an index equal to the function's length (`goto position index N is too big`)" % (scans or "something else")),
           g.span, fn=g.path, key=rule)


def run(ctx, rep):
    F = ctx.facts("default", ["compiler", "bytecode"])
    rep.explain("C09: the control-flow generators are evaluated abstractly over their MIR with opaque children; lengths and jump operands are linear "
                "expressions in the opaque block lengths (exact normal forms, no solver), break / continue placeholders are a generic element at an opaque "
                "index of the body.  Each emitted word is walked as a control-flow graph (positions = prefix sums, state = frame depth).  The "
                "handlers and the interpreter loop are read as tables / by reachability.  Nothing is executed.")
    rep.assume("children of a construct are themselves words of this kind (induction over the AST); Block::compile concatenates the code of its statements")
    rep.assume("every CompiledItem becomes exactly one instruction (seal_compiled_items maps items 1:1)")
    rep.assume("block lengths fit the machine integer types (no overflow in the offset arithmetic)")
    rep.assume("not decided: frames across `ret`, the values conditions take, the kinds of the operands (C02); the operand-stack clause takes the hypothesis "
               "`code(expression): empty stack -> one value` for the children and decides the step for the shapes it lists (Index / DotChain code, unary minus and "
               "the argument re-load loop of a call are not followed)")
    generators(F, rep)
    short_circuit(F, rep)
    scopes_since_loop(F, rep)
    scope_pushes(F, rep)
    handler_tables(F, rep)
    returns(F, rep)
    interpreter_loop(F, rep)
    children_code_is_not_edited(F, rep)
    # "each instruction finds the operand-stack shape it requires": handler stack effects x emitted words (props/_opstack.py)
    from props import _opstack
    nd = _opstack.run_clause(F, rep, P + ".operands")
    function_end(F, rep, P + ".function-end")
    rep.floor(P + ".operands generator shapes decided", nd, 60)



_SHRINK = re.compile(r"alloc::vec::Vec::<[^>]*>::(pop|pop_if|truncate|remove|swap_remove|drain|retain|retain_mut|clear|split_off|dedup\w*|set_len|splice)$"
                     r"|<impl \[T\]>::(swap|reverse|sort\w*|rotate_\w+|fill\w*)$")
# one line of reason per exception
_EDIT_ALLOWED = {
    "Function::in_place_compile_for_value": "takes the single make_function instruction out of the two-item code of a function literal (`remove(0)` of its own output)",
}


def children_code_is_not_edited(F, rep):
    """The generators above are evaluated with their children as opaque words: every offset is a sum of child lengths, and every child ends with
    the operand stack as its own statements left it.  That is only the emitted code if a generator composes its children's code by
    concatenation: no function of the compiler removes, reorders or overwrites items of a Vec<CompiledItem> (who-may-call rule over the
    resolved callees, exceptions listed with a reason)."""
    rule = P + ".no-edit"
    n = 0
    bad = []
    for f in F.crates["compiler"].fns:
        for c in f.calls():
            n += 1
            if not _SHRINK.search(c.callee()):
                continue
            ga = c.t["func"].get("ga") or []
            if not ga or "CompiledItem" not in str(ga[0]):
                continue
            owner = mir.short(re.sub(r"::\{closure#\d+\}", "", f.path))
            if owner in _EDIT_ALLOWED:
                rep.ob(rule, "%s calls %s on compiled code" % (owner, mir.short(mir.strip_generics(c.callee()))), "exempt", _EDIT_ALLOWED[owner], c.span, fn=f.path,
                       key="%s|%s|%s" % (rule, owner, c.callee().rsplit("::", 1)[-1]))
                continue
            bad.append((owner, c))
    for owner, c in bad:
        rep.ob(rule, "%s edits compiled code with %s" % (owner, mir.short(mir.strip_generics(c.callee()))), "violated",
               "the offsets and the operand-stack shape of the surrounding construct are computed for the child's code as it was compiled", c.span,
               fn=c.fn.path if hasattr(c, "fn") else None, key="%s|%s|%s" % (rule, owner, c.callee().rsplit("::", 1)[-1]))
    if not bad:
        rep.ob(rule, "no generator removes, reorders or overwrites items of compiled code", "ok", "%d call sites inspected" % n, None, key=rule + "|summary")
    rep.floor(rule + " call sites of the compiler inspected", n, 10000)
