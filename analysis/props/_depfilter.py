"""C07 — the capture list: a dependency is dropped only when it *equals* a supplied variable, name and type.

Inside a closure a captured `x` has type CallbackVariable(int) while the local introduced by `x = x + 1` has type int: that the two are
different Dependencies is what keeps the read of the captured `x` in the capture list of make_function.  So

  supply-filter       every comparison that decides whether a dependency is kept, in get_net_dependencies and in each hand-written
                      `Dependencies::net_dependencies`, is a comparison of two Dependency values (`==`/`!=` or eq_allow_callbacks),
                      never of their names (or types) alone;
  dependency-equality `Dependency == Dependency` is true exactly when both the name comparison and the type comparison are true
                      (truth table of the function's boolean skeleton, comparisons taken as free booleans).
"""
import re
import mir
from mir import op_local
from core import AnchorMissing

CMP = re.compile(r"(^|::|> as |\bfor )(core::cmp::)?PartialEq(<[^>]*>)?(>| for [^:]+)?::(eq|ne)$|::(eq|ne)$")
DEP_EQ = "compiler::ast::Dependency::eq_allow_callbacks"


def _strip(ty):
    ty = ty.strip()
    while ty.startswith("&"):
        ty = ty[1:].strip()
        ty = re.sub(r"^'\w+\s+", "", ty)
        if ty.startswith("mut "):
            ty = ty[4:]
    return ty


def _is_cmp(c):
    n = c.callee()
    return n.endswith("::eq") or n.endswith("::ne") or c.matches(DEP_EQ)


def filter_bodies(F):
    out = []
    gnd = F.fn("compiler::ast::get_net_dependencies")
    if gnd is None:
        raise AnchorMissing("compiler::ast::get_net_dependencies")
    out.append(gnd)
    for f in F.all_fns():
        if f.crate == "compiler" and f.path.endswith("as compiler::ast::Dependencies>::net_dependencies"):
            out.append(f)
    d = F.fn("compiler::ast::Dependencies::net_dependencies")
    if d is not None:
        out.append(d)
    full = []
    for f in out:
        full.append((f, f))
        for g in F.closures_of(f):
            full.append((g, f))
    return full


def supply_filter(F, rep, rule):
    bodies = filter_bodies(F)
    sites = 0
    impls = 0
    for g, owner in bodies:
        if g is owner:
            impls += 1
        bad, odd, good = [], [], []
        for c in g.calls():
            if not _is_cmp(c) or not c.args:
                continue
            l = op_local(c.args[0])
            ty = _strip(g.locals[l]) if l is not None and l < len(g.locals) else "?"
            if ty.startswith("compiler::ast::Dependency"):
                good.append(c)
            elif ty in ("str", "alloc::string::String") or ty.startswith("compiler::ast::ident::Ident") or "TypeLayout" in ty:
                bad.append((c, ty))
            else:
                odd.append((c, ty))
        sites += len(good) + len(bad) + len(odd)
        if not (good or bad or odd):
            continue
        st = "violated" if bad else ("undecided" if odd else "ok")
        rep.ob(rule, "%s keeps or drops a dependency on Dependency equality (name and type), never on a part of it" % mir.short(owner.path), st,
               "; ".join("%s compares two `%s` at %s" % (mir.short(g.path), ty, c.span) for c, ty in bad + odd) or
               "%d Dependency comparison(s)" % len(good),
               g.span, fn=g.path, key="%s|%s" % (rule, mir.short(owner.path)))
    rep.floor(rule + " net_dependencies implementations", impls, 4)
    rep.floor(rule + " comparison sites", sites, 2)


def dependency_equality(F, rep, rule):
    eq = None
    for f in F.all_fns():
        if f.crate == "compiler" and re.match(r"<compiler::ast::Dependency(<[^>]*>)? as core::cmp::PartialEq>::eq$", f.path):
            eq = f
    if eq is None:
        raise AnchorMissing("<compiler::ast::Dependency as PartialEq>::eq")
    cmps = []
    for c in eq.calls():
        if _is_cmp(c) and c.args:
            l = op_local(c.args[0])
            ty = _strip(eq.locals[l])
            neg = c.callee().endswith("::ne")
            # what the operands are: look at the calls feeding them
            src = set()
            der_back = _feeding_calls(eq, l)
            for n in der_back:
                if n.endswith("Ident::name") or n.endswith("Dependency::name"):
                    src.add("name")
                if n.endswith("Ident::ty"):
                    src.add("type")
            cmps.append((c, neg, src, ty))
    kinds = set()
    for _, _, s, _ in cmps:
        kinds |= s
    if not cmps:
        rep.ob(rule, "Dependency == Dependency compares name and type", "undecided", "no comparison call found", eq.span, fn=eq.path, key=rule)
        return
    # truth table over the comparison results
    n = len(cmps)
    dst = {c.dst["l"]: i for i, (c, _, _, _) in enumerate(cmps)}
    wrong = []
    undec = False
    for bits in range(1 << n):
        val = {l: bool(bits >> i & 1) for l, i in dst.items()}
        r = _eval_bool(eq, val)
        if r is None:
            undec = True
            continue
        # "equal" outcome of comparison i: eq -> bit, ne -> not bit
        want = all((bool(bits >> i & 1) != cmps[i][1]) for i in range(n))
        if r != want:
            wrong.append("%s -> %s" % (["%s%s=%s" % ("/".join(sorted(cmps[i][2])) or "?", "!=" if cmps[i][1] else "==", bool(bits >> i & 1)) for i in range(n)], r))
    if undec:
        st = "undecided"
    elif wrong or not {"name", "type"} <= kinds:
        st = "violated"
    else:
        st = "ok"
    rep.ob(rule, "Dependency == Dependency is true exactly when the names are equal and the types are equal", st,
           ("compared parts: %s; " % sorted(kinds)) + ("; ".join(wrong[:4]) if wrong else "truth table over %d comparisons agrees" % n),
           eq.span, fn=eq.path, key=rule)


def _feeding_calls(fn, local, depth=10):
    """names of calls whose results flow (by ref / copy / deref / unwrap) into `local`"""
    seen, names, work = set(), set(), [local]
    while work and depth:
        nxt = []
        for l in work:
            if l in seen:
                continue
            seen.add(l)
            for _bi, _si, d, rv, _s in fn.assigns():
                if d.get("l") != l:
                    continue
                for o in mir.rvalue_operands(rv):
                    ol = op_local(o)
                    if ol is not None:
                        nxt.append(ol)
                if "ref" in rv:
                    nxt.append(rv["ref"]["l"])
            for c in fn.calls():
                if c.dst and c.dst.get("l") == l:
                    names.add(c.callee())
                    for a in c.args:
                        al = op_local(a)
                        if al is not None:
                            nxt.append(al)
        work = nxt
        depth -= 1
    return names


def _eval_bool(fn, val, limit=200):
    """Walk the CFG with the given boolean values of some locals; return the bool stored in _0 at `return`, or None."""
    env = dict(val)
    b = 0
    for _ in range(limit):
        blk = fn.blocks[b]
        for s in blk["s"]:
            if "d" not in s:
                continue
            d, rv = s["d"], s["rv"]
            if d.get("p"):
                continue
            v = None
            if "use" in rv:
                o = rv["use"]
                if "const" in o and o["const"].get("ty") == "bool":
                    v = o["const"].get("int") == "1"
                else:
                    ol = op_local(o)
                    v = env.get(ol) if ol is not None else None
            elif "un" in rv:
                x = env.get(op_local(rv["op"])) if op_local(rv["op"]) is not None else None
                v = (not x) if (x is not None and rv["un"] == "Not") else None
            elif "bin" in rv:
                x = env.get(op_local(rv["l"])) if op_local(rv["l"]) is not None else None
                y = env.get(op_local(rv["r"])) if op_local(rv["r"]) is not None else None
                if x is not None and y is not None:
                    v = {"BitAnd": x and y, "BitOr": x or y, "Eq": x == y, "Ne": x != y, "BitXor": x != y}.get(rv["bin"])
            if v is None:
                env.pop(d["l"], None)
            else:
                env[d["l"]] = v
        t = blk["t"]
        k = t["k"]
        if k == "return":
            return env.get(0)
        if k == "goto":
            b = t["target"]
        elif k == "switch":
            dl = op_local(t["discr"])
            x = env.get(dl)
            if x is None or t.get("dty") != "bool":
                return None
            if not x:
                tgt = next((tg for vv, tg in t["targets"] if vv == "0"), t["otherwise"])
            else:
                tgt = next((tg for vv, tg in t["targets"] if vv == "1"), t["otherwise"])
            b = tgt
        elif k == "call":
            dstl = t["dst"]["l"] if t.get("dst") else None
            if dstl is not None and dstl not in val:
                env.pop(dstl, None)
            elif dstl is not None:
                env[dstl] = val[dstl]
            if t.get("target") is None:
                return None
            b = t["target"]
        elif k in ("drop", "assert"):
            b = t.get("target")
            if b is None:
                return None
        else:
            return None
    return None


def walk_bodies(F):
    """every body of the capture walk: the Dependencies impls (dependencies / supplies / net_dependencies), the trait defaults, get_net_dependencies,
    and their closures"""
    out = []
    for f in F.crates["compiler"].fns:
        topp = re.sub(r"::\{closure#\d+\}", "", f.path)
        if re.search(r" as compiler::ast::Dependencies>::(dependencies|supplies|net_dependencies)$", topp) or topp in (
                "compiler::ast::get_net_dependencies", "compiler::ast::Dependencies::net_dependencies", "compiler::ast::Dependencies::supplies",
                "compiler::ast::Dependencies::dependencies"):
            out.append((f, topp))
    return out


KEYED = re.compile(r"(HashSet|HashMap|BTreeSet|BTreeMap|IndexMap|IndexSet)")


def name_identity(F, rep, rule):
    """Inside the capture walk a dependency is (name, type): the captured `x` (CallbackVariable(int)) and a local `x` (int) are two dependencies.
    Code in the walk that files dependencies under their *name* -- a name handed to a set / map, a name compared with a name, a dedup -- merges
    them, and the capture of `x` is lost for `modify x = ..` after a local `x = ..`."""
    bodies = walk_bodies(F)
    rep.floor(rule + " bodies of the capture walk", len(bodies), 50)
    hits = []
    for f, topp in bodies:
        names = [c for c in f.calls() if mir.strip_generics(c.callee()).endswith("Dependency::name") or mir.strip_generics(c.callee()).endswith("ident::Ident::name")]
        der = f.derived([c.dst["l"] for c in names], through_call=lambda c, idx: True if (c.matches(("alloc::borrow::ToOwned::to_owned", "alloc::string::ToString::to_string",
                                                                                                     "core::clone::Clone::clone", "core::convert::Into::into",
                                                                                                     "core::convert::From::from", "core::ops::deref::Deref::deref",
                                                                                                     "alloc::string::String::as_str")) or c.callee().endswith("::as_ref") or c.callee().endswith("::to_owned") or c.callee().endswith("::to_string")) else None) if names else {}
        for c in f.calls():
            if f.blocks[c.bb].get("cleanup"):
                continue
            cal = c.callee()
            fed = [a for a in c.args if op_local(a) in der]
            if fed and (KEYED.search(cal) or _is_cmp(c)):
                hits.append((f, topp, c, "a dependency's name is %s" % ("compared with another name" if _is_cmp(c) else "used as a key (%s)" % mir.short(cal))))
            elif re.search(r"Vec::(dedup|dedup_by|dedup_by_key)$", mir.strip_generics(cal)):
                hits.append((f, topp, c, "dependencies are de-duplicated (%s)" % mir.short(cal)))
    seen = set()
    for f, topp, c, why in hits:
        k = (topp, why)
        if k in seen:
            continue
        seen.add(k)
        rep.ob(rule, "%s keeps dependencies apart by name and type" % mir.short(topp), "violated", "%s at %s: a captured variable and a same-named local become one entry" % (why, c.span),
               c.span, fn=f.path, key="%s|%s|%s" % (rule, mir.short(topp), why.split(" (")[0]))
    if not hits:
        rep.ob(rule, "nothing in the capture walk files dependencies under their name alone (%d bodies)" % len(bodies), "ok", "", None, key=rule + "|summary")


def run(F, rep, rule_prefix="C07"):
    name_identity(F, rep, rule_prefix + ".dependency-identity")
    supply_filter(F, rep, rule_prefix + ".supply-filter")
    dependency_equality(F, rep, rule_prefix + ".dependency-equality")
