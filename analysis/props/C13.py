"""C13 — lists and maps: the interface and the index arithmetic are sound (partial by nature).

 (a) built-in signature agreement for list and map receivers (declared signature == what the implementation
     destructures and returns);
 (b) no wrapped index / truncated length: no narrowing or sign-changing cast on a program value in the index paths;
 (c) element pointers are only created under a bounds check.
Model conformance of each operation and aliasing over histories are not decided.
"""
import mir
import re
import rules
from mir import op_local
from core import AnchorMissing
from props import _builtins

try:
    from props import _casts
except ImportError:
    _casts = None


def run(ctx, rep):
    F = ctx.facts("default", ["bytecode", "compiler"])
    rep.explain("C13: the declared signatures of list/map built-ins (TypeLayout::get_property_type), the run-time name lookup "
                "(Primitive::lookup -> PrimitiveModule accessor -> BuiltInFunction variant) and the implementation arms (BuiltInFunction::run) are "
                "read by abstract interpretation and compared; index-arithmetic casts and the bounds check guarding element pointers are checked on MIR.")
    rep.assume("model conformance of each list/map operation and aliasing over histories are not decided")
    _builtins.run(F, rep, "C13.builtin", "list+map")
    list_equality(F, rep)
    value_equality(F, rep)
    element_store(F, rep)
    map_delegation(F, rep)
    from props import _hashkeys
    _hashkeys.run(F, rep)
    _hashkeys.hash_eq_agree(F, rep)
    fresh_results(F, rep)
    effects_confined(F, rep)
    index_dispatch(F, rep)
    index_guard(F, rep)
    filter_keeps_what_it_tested(F, rep)
    result_identity(F, rep)
    methods_answered_by_the_interpreter(F, rep)
    equality_reaches_elements(F, rep)
    list_identity_is_the_cell(F, rep)
    values_not_views(F, rep)
    # what an assignment instruction writes into a list / map slot is a value, never a view of another slot (shared rule with C08)
    from props import C08 as _c08
    _c08.no_view_stored(F, rep, ctx, rule="C13.no-view-stored")
    map_entries_are_values(F, rep)
    if _casts is not None:
        _casts.run_c13(F, rep)


def list_equality(F, rep):
    """`==` on lists compares whole sequences: the (Vector, Vector) cell of Primitive::equals is slice equality (which
    compares lengths), and no interpreter code pairs two sequences with Iterator::zip (which silently truncates to the
    shorter one) without first comparing their lengths."""
    import absint
    import tables
    from absint import Interp
    T = tables.Tables(F)
    eq = F.fn(tables.PRIM + "::equals")
    if eq is None:
        raise AnchorMissing("Primitive::equals")
    it = Interp(F, models=tables.MODELS, max_depth=3, max_paths=64)
    outs = it.run(eq, [T.prim_value("Vector", "l"), T.prim_value("Vector", "r")])
    calls = set()
    for o in outs:
        for e in o.events:
            if e[0] == "call":
                calls.add(e[1])
    slice_eq = [c for c in calls if ("PartialEq" in c and ("[" in c or "slice" in c)) or c.startswith("core::slice::cmp::")]
    zips = [c for c in calls if c.endswith("::zip")]
    rep.ob("C13.list-equality", "list == list is whole-slice equality (lengths included)",
           "ok" if slice_eq and not zips else ("violated" if zips else "undecided"),
           "the (Vector, Vector) arm of Primitive::equals calls %s" % sorted(mir.short(c) for c in calls if "fmt" not in c)[:6], eq.span, fn=eq.path,
           key="C13.list-equality|equals")
    n = 0
    for f in F.crates["bytecode"].fns:
        for c in f.calls():
            if not c.matches("core::iter::traits::iterator::Iterator::zip"):
                continue
            n += 1
            lens = [x for x in f.calls() if x.matches(("alloc::vec::Vec::len", "core::slice::<impl [T]>::len"))]
            cmp_ok = False
            for bi, si, dst, rv, s in f.assigns():
                if "bin" in rv and rv["bin"] in ("Eq", "Ne") and {op_l for op_l in (mir.op_local(rv["l"]), mir.op_local(rv["r"]))} <= {x.dst["l"] for x in lens} and len(lens) >= 2:
                    cmp_ok = f.dominates(bi, c.bb)
            rep.ob("C13.list-equality", "Iterator::zip in %s pairs sequences whose lengths were compared" % mir.short(f.path), "ok" if cmp_ok else "violated",
                   "zip stops at the shorter sequence: without a length comparison a list equals / matches every list it is a prefix of", c.span, fn=f.path,
                   key="C13.list-equality|zip|%s" % mir.short(f.path))
    rep.extra["zip_sites_in_interpreter"] = n


VALUE_TYPES = ("bytecode::variables::primitive::Primitive", "bytecode::stack::PrimitiveFlagsPair", "bytecode::variables::primitive::HeapPrimitive")
# the equality implementation itself: the only code that may compare program values structurally
EQUALITY_IMPL = ("bytecode::variables::primitive::Primitive::equals", "bytecode::variables::primitive::Primitive::runtime_addr_check")


def value_equality(F, rep):
    """Language-level equality of values is Primitive::equals (numeric kinds compare by value, T? looks through a present optional).
    Rust's structural `==` on a Primitive (derived PartialEq: Int(7) != BigInt(7), Optional(Some(7)) != Int(7)) may be used only inside the
    equality implementation and the PartialEq/Ord impls; a built-in or handler that searches or compares with `==` answers differently
    from the program's own `==` (index_of, contains, write-if-changed ...)."""
    n = 0
    allowed = 0
    for f in F.crates["bytecode"].fns:
        for c in f.calls():
            fu = c.t["func"]
            if (fu.get("def") or "") not in ("core::cmp::PartialEq::eq", "core::cmp::PartialEq::ne"):
                continue
            ga = " ".join(fu.get("ga") or []) + " " + (fu.get("res") or "")
            if not any(v in ga for v in VALUE_TYPES):
                continue
            n += 1
            owner = f.path
            sh = mir.short(owner)
            in_impl = (" as PartialEq>::" in sh or " as Ord>::" in sh or " as PartialOrd>::" in sh
                       or any(owner == e or owner.startswith(e + "::{closure") for e in EQUALITY_IMPL))
            if in_impl:
                allowed += 1
                continue
            rep.ob("C13.value-equality", "%s compares program values with Rust's structural == instead of Primitive::equals" % mir.short(f.path), "violated",
                   "structural equality distinguishes int/bigint/byte/float of equal value and a boxed optional from its content; the language's == does not",
                   c.span, fn=f.path, key="C13.value-equality|%s" % mir.short(f.path))
    rep.ob("C13.value-equality", "structural == on program values occurs only inside the equality implementation (%d sites)" % allowed,
           "ok" if allowed == n else "violated", "", None, key="C13.value-equality|summary")
    rep.floor("C13.value-equality structural comparisons inside the equality implementation", allowed, 8)
    # searching built-ins use Primitive::equals
    run = F.fn("bytecode::function::BuiltInFunction::run")
    if run is None:
        raise AnchorMissing("BuiltInFunction::run")
    users = [g for g in [run] + F.closures_of(run) if g.calls_to("bytecode::variables::primitive::Primitive::equals")]
    rep.ob("C13.value-equality", "list.index_of compares elements with Primitive::equals", "ok" if users else "violated",
           "no built-in calls Primitive::equals any more", run.span, fn=run.path, key="C13.value-equality|index_of-uses-equals")


def element_store(F, rep):
    """`xs[i] = v` / `m[k] = v` reach HeapPrimitive::set: in the ArrayPtr arm every Ok return passes the store of the *given* value into the
    slot obtained from the list (get_mut / IndexMut on the borrowed Vec), in the MapPtr arm the insert of the given value: no path skips the
    write (an elided write leaves two names for what should be one list)."""
    import rules
    from mir import op_local
    from props import _cells
    hs = F.fn("bytecode::variables::primitive::HeapPrimitive::set")
    if hs is None:
        raise AnchorMissing("HeapPrimitive::set")
    adt = F.adt("bytecode::variables::primitive::HeapPrimitive")
    names = [v["name"] for v in adt["variants"]]
    t0 = None
    for bi, blk in enumerate(hs.blocks):
        if blk["t"]["k"] == "switch":
            t0 = bi
            break
    if t0 is None:
        raise AnchorMissing("match on self in HeapPrimitive::set")
    okret = [bi for bi, si, dst, rv, s in hs.assigns() if dst["l"] == 0 and "agg" in rv and rv["agg"].get("v") == "Ok"]
    for arm, what in (("ArrayPtr", "list element"), ("MapPtr", "map entry")):
        tgt = _cells.variant_edge(hs, t0, names.index(arm))
        others = {x for x in hs.succs(t0) if x != tgt}
        reg = hs.reachable(tgt, removed_blocks=others)
        if arm == "ArrayPtr":
            # the store `*slot = new_val`: an assignment through a deref whose value is the parameter
            stores = [bi for bi, si, dst, rv, s in hs.assigns() if bi in reg and dst.get("p") and dst["p"][0][0] == "deref" and "use" in rv
                      and op_local(rv["use"]) is not None and rules.trace_paths(hs, op_local(rv["use"]), transparent=set()) == {(("arg", 2), ())}]
            slot_ok = True
            for bi, si, dst, rv, s in hs.assigns():
                if bi in stores and dst.get("p"):
                    oc = rules.origin_calls(hs, dst["l"], transparent=rules.TRANSPARENT | {"core::option::Option::unwrap", "core::option::Option::expect"})
                    if not any(c.matches(("core::slice::<impl [T]>::get_mut", "core::ops::index::IndexMut::index_mut", "alloc::vec::Vec::get_mut")) for c in oc):
                        slot_ok = False
            blockers = set(stores)
        else:
            ins = [c for c in hs.calls() if c.bb in reg and c.callee().endswith("::insert")
                   and len(c.args) >= 3 and rules.trace_paths(hs, op_local(c.args[2]), transparent=set()) == {(("arg", 2), ())}]
            blockers = {c.bb for c in ins}
            slot_ok = True
        through = bool(blockers) and all(b not in hs.reachable(tgt, removed_blocks=blockers) for b in okret)
        rep.ob("C13.element-store", "HeapPrimitive::set (%s): an assignment to a %s stores the given value on every path" % (arm, what),
               "ok" if through and slot_ok else "violated",
               "store of the parameter on every Ok path=%s slot from the container=%s" % (through, slot_ok), hs.span, fn=hs.path,
               key="C13.element-store|HeapPrimitive::set|%s" % arm)


def map_entries_are_values(F, rep, rule="C13.no-view-stored"):
    """What a map holds is values: GcMap::insert hands HashMap::insert a key and a value that each went through move_out_of_heap_primitive.  Its callers
    do not all resolve first - `fast_map_insert` (map literals) pops the value straight off the operand stack, where `xs[0]` leaves a *view* of the list
    slot - so an insert that trusts them stores a view: `m = map[str, int]{"a": xs[0]}` then follows `xs[0] = 10`."""
    g = F.fn("bytecode::variables::primitive::GcMap::insert")
    if g is None:
        raise AnchorMissing("GcMap::insert")
    ins = g.calls_to("std::collections::hash::map::HashMap::insert")
    if len(ins) != 1 or len(ins[0].args) < 3:
        raise AnchorMissing("HashMap::insert in GcMap::insert")
    T = rules.TRANSPARENT | {rules.TRY_BRANCH}
    for what, ai in (("key", 1), ("value", 2)):
        l = op_local(ins[0].args[ai])
        oc = rules.origin_calls(g, l, transparent=T) if l is not None else []
        ok = bool(oc) and all(c.matches("bytecode::variables::primitive::Primitive::move_out_of_heap_primitive") for c in oc)
        rep.ob(rule, "GcMap::insert stores the %s as a value (copied out of any field / element view)" % what, "ok" if ok else "violated",
               "" if ok else "the %s reaches HashMap::insert from %s: a map literal whose value is an element read keeps following the list slot"
               % (what, sorted({mir.short(c.callee()) for c in oc}) or "the parameter as it is"), ins[0].span, fn=g.path, key="%s|GcMap::insert|%s" % (rule, what))


MAP_DELEGATION = {"insert": "insert", "get": "get", "len": "len", "contains_key": "contains_key", "keys": "keys", "values": "values", "pairs": "iter",
                  "clear": "clear", "remove": "remove"}


def map_delegation(F, rep):
    """GcMap is a thin wrapper around a HashMap<Primitive, Primitive>: each of its operations answers from the HashMap operation of the same
    meaning, and from no other (contains_key answered through get() reads a key bound to nil as absent; len through keys().len() is fine but is
    not what the code does -- any change of the delegate is reported and has to be looked at)."""
    n = 0
    for m, std in sorted(MAP_DELEGATION.items()):
        f = F.fn("bytecode::variables::primitive::GcMap::" + m)
        if f is None:
            raise AnchorMissing("GcMap::" + m)
        bodies = [f] + F.closures_of(f)
        std_calls = sorted({mir.strip_generics(c.callee()).rsplit("::", 1)[-1] for g in bodies for c in g.calls()
                            if "collections::hash::map::HashMap" in c.callee() or "hashbrown" in c.callee()})
        own = sorted({mir.short(c.callee()) for g in bodies for c in g.calls() if c.callee().startswith("bytecode::variables::primitive::GcMap::")})
        n += 1
        # answering through another wrapper operation imports that operation's extra meaning (get() turns "absent" into nil): a violation.
        # answering from a different HashMap primitive may well be equivalent: reported as undecided, never as an alarm.
        st = "violated" if (own or not std_calls) else ("ok" if std in std_calls else "undecided")
        rep.ob("C13.map-delegation", "GcMap::%s answers from the inner HashMap (HashMap::%s), not through another wrapper operation" % (m, std), st,
               "calls on the inner map: %s; calls of other GcMap operations: %s" % (std_calls, own), f.span, fn=f.path, key="C13.map-delegation|%s" % m)
    rep.floor("C13.map-delegation operations", n, 9)


NEW_LIST_METHODS = {"VecClone": "clone", "VecMap": "map", "VecFilter": "filter", "MapClone": "clone (map)"}
FRESH_CTORS = ("bytecode::variables::primitive::GcVector::new", "bytecode::variables::primitive::GcVector::with_capacity",
               "bytecode::variables::primitive::GcMap::new")


def fresh_results(F, rep):
    """`clone`, `map` and `filter` hand out a container of their own: the list / map they return is allocated by the call (directly, or as the
    result buffer of the callback bridge, a field that only ever holds a freshly allocated cell) -- never the receiver or an argument under
    another name, which later updates through either name would show through the other."""
    from props import _casts, _borrows
    import rules
    run_, arms = _casts.arms_of_run(F)
    prim = F.adt(PRIM) if "PRIM" in globals() else F.adt("bytecode::variables::primitive::Primitive")
    n = 0

    def payload_sources(fn, local):
        """(fresh ctor calls, alias sources) feeding a GcVector / GcMap value"""
        o = rules.origins(fn, local, transparent=rules.TRANSPARENT - {"core::clone::Clone::clone"})
        by_bb = {c.bb: c for c in fn.calls()}
        fresh, alias = [], []
        for x in o:
            if x[0] == "call":
                c = by_bb[x[1]]
                if c.matches(FRESH_CTORS):
                    fresh.append(c)
                elif c.matches("core::clone::Clone::clone"):
                    # a pointer copy of something: what?
                    pl = _borrows._recv_place(fn, c)
                    if pl is not None and _borrows.fresh_field(F, fn, pl, "bytecode"):
                        fresh.append(c)
                    else:
                        alias.append("a copy of the pointer %s" % (fn.local_name(pl[0]) + "".join(".%s" % e[1] for e in pl[1] if e[0] == "field") if pl else "of an existing container"))
                else:
                    alias.append(mir.short(c.callee()))
            else:
                alias.append(str(x))
        return fresh, alias
    # (1) the arms of BuiltInFunction::run that return a container directly
    for variant, meth in sorted(NEW_LIST_METHODS.items()):
        blocks = arms.get(variant)
        if blocks is None:
            continue
        bad, good = [], 0
        for bi, si, d, rv, st in run_.assigns():
            if bi in blocks and "agg" in rv and rv["agg"].get("k") == "adt" and rv["agg"].get("adt", "").endswith("primitive::Primitive") and rv["agg"].get("v") in ("Vector", "Map"):
                l = mir.op_local(rv["ops"][0])
                fresh, alias = payload_sources(run_, l) if l is not None else ([], ["?"])
                if alias:
                    bad.append("%s at %s" % (", ".join(alias), st.get("sp")))
                elif fresh:
                    good += 1
        if good or bad:
            n += 1
            rep.ob("C13.fresh-result", "`%s` returns a container allocated by the call, not the receiver under another name" % meth, "violated" if bad else "ok",
                   "; ".join(bad) if bad else "%d return site(s), all freshly allocated" % good, run_.span, fn=run_.path, key="C13.fresh-result|%s" % variant)
    # (2) the callback bridges: finish() returns the result buffer
    for f in F.crates["bytecode"].fns:
        m = re.match(r"<bytecode::function::BuiltInFunction::run::(\w+) as bytecode::function::RuntimeExecutionBridgeNotifier>::finish$", f.path)
        if not m:
            continue
        bad, good = [], 0
        for bi, si, d, rv, st in f.assigns():
            if "agg" in rv and rv["agg"].get("k") == "adt" and rv["agg"].get("adt", "").endswith("primitive::Primitive") and rv["agg"].get("v") in ("Vector", "Map"):
                l = mir.op_local(rv["ops"][0])
                fresh, alias = payload_sources(f, l) if l is not None else ([], ["?"])
                if alias:
                    bad.append("%s at %s" % (", ".join(alias), st.get("sp")))
                elif fresh:
                    good += 1
        n += 1
        rep.ob("C13.fresh-result", "%s::finish returns its own result buffer, never the traversed list" % m.group(1), "violated" if bad else ("ok" if good else "undecided"),
               "; ".join(bad) if bad else "%d return site(s)" % good, f.span, fn=f.path, key="C13.fresh-result|%s::finish" % m.group(1))
    rep.floor("C13.fresh-result container-returning operations judged", n, 4)


def effects_confined(F, rep):
    """A list / map operation changes the container it is called on and nothing else: in every arm of BuiltInFunction::run, each mutable borrow
    of a container cell - taken directly, or inside a method of crate bytecode that mutably borrows its own receiver (GcMap::insert, ...) - is
    rooted at `arguments.first()`, the receiver.  A mutable borrow rooted at another argument changes a list the caller merely passed in
    (`a.join(b)` emptying b), which every alias of that argument then sees."""
    from props import _casts
    import rules
    run_, arms = _casts.arms_of_run(F)
    BM = ("gc::GcCell<T>::borrow_mut", "gc::GcCell::<T>::borrow_mut")
    # methods of crate bytecode that mutably borrow (a cell of) their own receiver
    mutators = set()
    for f in F.crates["bytecode"].fns:
        if f.argc < 1 or f is run_:
            continue
        for c in f.calls():
            if c.matches(BM) and c.args and op_local(c.args[0]) is not None and rules.origins(f, op_local(c.args[0])) == {("arg", 1)}:
                mutators.add(f.path)
    n = 0
    for variant, blocks in sorted(arms.items()):
        sites = []
        for c in run_.calls():
            if c.bb not in blocks or not c.args:
                continue
            if c.matches(BM) or c.callee() in mutators or any(nm in mutators for nm in c.names):
                sites.append(c)
        if not sites:
            continue
        bad, undec = [], []
        for c in sites:
            l = op_local(c.args[0])
            oc = rules.origin_calls(run_, l) if l is not None else []
            roots = set()
            for o in oc:
                if o.matches(("core::slice::<impl [T]>::first", "[T]::first")) or mir.short(o.callee()) == "[T]::first":
                    roots.add(0)
                elif mir.short(o.callee()) == "[T]::get" and len(o.args) > 1 and isinstance(o.args[1], dict) and "const" in o.args[1]:
                    roots.add(int(o.args[1]["const"].get("int", -1)))
                else:
                    roots.add(mir.short(o.callee()))
            if not roots:
                undec.append("%s: target of the mutable borrow not traced" % c.span)
            for r in roots:
                if isinstance(r, int) and r >= 1:
                    bad.append("mutable borrow of argument %d at %s" % (r, c.span))
                elif not isinstance(r, int):
                    undec.append("%s: borrow rooted at %s" % (c.span, r))
        n += 1
        rep.ob("C13.effects-confined", "%s changes its receiver only, never a container passed as an argument" % variant,
               "violated" if bad else ("undecided" if undec else "ok"), "; ".join(bad or undec) or "%d mutation site(s), all on argument 0" % len(sites),
               sites[0].span, fn=run_.path, key="C13.effects-confined|%s" % variant)
    rep.floor("C13.effects-confined mutating operations judged", n, 6)


def index_dispatch(F, rep, rule="C13.index-dispatch"):
    """`x[i]` compiles to a map lookup or to a list access depending on a flag Parser::list_index computes from the type of x (Index.origin_is_map).
    The flag must say `map` exactly when a value of that type is a map at run time -- also when the type is wrapped (a variable captured by a
    closure has type CallbackVariable(T)).  The computation is evaluated abstractly for each container type."""
    import absint
    from absint import Interp, Opaque, Int, Variant
    from props import _hashkeys
    li = None
    for f in F.crates["compiler"].fns:
        if f.path.endswith("<impl compiler::parser::Parser>::list_index"):
            li = f
    if li is None:
        raise AnchorMissing("Parser::list_index")
    ia = F.adt("compiler::ast::list::Index")
    if ia is None:
        raise AnchorMissing("compiler::ast::list::Index")
    fnames = [x["name"] for x in ia["variants"][0]["fields"]]
    if "origin_is_map" not in fnames:
        raise AnchorMissing("Index.origin_is_map")
    k = fnames.index("origin_is_map")
    flag = None
    for bi, si, d, rv, s_ in li.assigns():
        if "agg" in rv and rv["agg"].get("adt") == "compiler::ast::list::Index" and len(rv["ops"]) > k:
            flag = mir.op_local(rv["ops"][k])
    for _ in range(4):
        src = [mir.op_local(rv["use"]) for bb_, si, d, rv, _s in li.assigns() if d.get("l") == flag and not d.get("p") and "use" in rv and mir.op_local(rv["use"]) is not None]
        if len(src) == 1:
            flag = src[0]
        else:
            break
    if flag is None:
        raise AnchorMissing("origin_is_map operand of Index { .. }")
    ty_param = [i for i in range(1, li.argc + 1) if li.locals[i].strip().startswith("compiler::ast::r#type::TypeLayout")]
    if not ty_param:
        raise AnchorMissing("TypeLayout parameter of Parser::list_index")
    T = _hashkeys.Types(F)
    universe = ["Map", ("Cb", "Map"), ("Open", "Int"), ("Cb", ("Open", "Int")), ("Mixed", ["Int", "Str"]), "Str", ("Cb", "Str"), ("Open", "Map"),
                ("Alias", "Map"), ("Cb", ("Alias", "Map")), ("Alias", ("Open", "Int")), ("Alias", "Str")]
    # a type reaches list_index only if the gate TypeLayout::supports_index lets it be indexed at all: that is evaluated first
    sup = F.fn("compiler::ast::r#type::TypeLayout::supports_index")
    if sup is None:
        raise AnchorMissing("TypeLayout::supports_index")

    def indexable(spec):
        it0 = Interp(F, models=dict(absint.DEFAULT_MODELS), max_depth=6, max_paths=64)
        try:
            outs0 = it0.run(sup, [T.build(spec)])
        except (ValueError, KeyError):
            return None
        names_ = {o.value.name if (o.kind == "return" and isinstance(o.value, Variant)) else "?" for o in outs0}
        if names_ == {"Some"}:
            return True
        if names_ == {"None"}:
            return False
        return None

    def is_map_at_runtime(spec):
        if spec == "Map":
            return True
        if isinstance(spec, tuple) and spec[0] in ("Cb", "Alias"):
            return is_map_at_runtime(spec[1])
        return False
    bad, undec, rows = [], [], []
    n_gate_closed = 0
    for spec in universe:
        gate = indexable(spec)
        if gate is False:
            n_gate_closed += 1
            rows.append("%s->not indexable" % _hashkeys.show(spec))
            continue
        def stop(fn_, bb, p, _l=flag):
            fr = p.frames.get(p.stack[-1][0], {})
            if fn_ is li and isinstance(fr.get(_l), Int):
                return fr[_l]
            return None
        it = Interp(F, models=dict(absint.DEFAULT_MODELS), max_depth=6, max_paths=64, stop_at=stop)
        args = [T.build(spec) if i in ty_param else Opaque("arg%d" % i) for i in range(1, li.argc + 1)]
        outs = it.run(li, args)
        got = {bool(o.value.v) if (o.kind == "stop" and isinstance(o.value, Int)) else None for o in outs}
        want = is_map_at_runtime(spec)
        rows.append("%s->%s" % (_hashkeys.show(spec), sorted(got, key=str)))
        if got == {want}:
            continue
        if None in got or not got or it.exhausted:
            undec.append(_hashkeys.show(spec))
        else:
            bad.append("`%s` is indexed as a %s" % (_hashkeys.show(spec), "map" if not want else "list"))
    rep.ob(rule, "Parser::list_index selects the map lookup exactly for types whose values are maps (also behind a capture wrapper)",
           "violated" if bad else ("undecided" if undec else "ok"), "; ".join(bad) or ("not evaluated: %s" % undec if undec else " ".join(rows)), li.span, fn=li.path,
           key=rule + "|origin_is_map")
    rep.floor(rule + " container types evaluated", len(universe) - len(undec) - n_gate_closed, 6)


def values_not_views(F, rep):
    """What ends up inside a program list is a value, never a view (Primitive::HeapPrimitive) of some other container's slot -- a view keeps
    following that slot.  Three places make that true: (1) `ret` copies the returned value out of a view, (2) BuiltInFunction::run copies every
    argument out before it dispatches, (3) every push into a list outside the operand stack takes its value from one of: a copied-out value, an
    argument (2), a callback's return value (1), or an element of a program list (values by this very rule)."""
    import rules
    from props import _casts
    MOVE = ("bytecode::variables::primitive::Primitive::move_out_of_heap_primitive", "bytecode::variables::primitive::HeapPrimitive::to_owned_primitive")
    T = rules.TRANSPARENT | {rules.TRY_BRANCH, "core::option::Option::unwrap", "core::option::Option::expect", "anyhow::Context::context", "anyhow::Context::with_context",
                            "core::option::Option::cloned", "core::option::Option::transpose", "core::option::Option::map"}
    # (1) ret
    ret = F.fn("bytecode::instruction::implementations::ret")
    if ret is None:
        raise AnchorMissing("instruction handler ret")
    n = 0
    for bi, si, d, rv, s_ in ret.assigns():
        if "agg" in rv and rv["agg"].get("adt", "").endswith("ReturnValue") and rv["agg"].get("v") == "Value":
            n += 1
            l = mir.op_local(rv["ops"][0])
            oc = rules.origin_calls(ret, l, transparent=T) if l is not None else []
            good = bool(oc) and all(c.matches(MOVE) for c in oc)
            rep.ob("C13.values-not-views", "`return v` hands back the value of v, not a view of the slot it was read from", "ok" if good else "violated",
                   "the returned value derives from %s" % sorted({mir.short(c.callee()) for c in oc}), s_.get("sp"), fn=ret.path, key="C13.values-not-views|ret")
    rep.floor("C13.values-not-views ReturnValue::Value constructions in ret", n, 1)
    # (2) arguments are copied out before the dispatch
    run_, arms = _casts.arms_of_run(F)
    arm_blocks = set().union(*arms.values()) if arms else set()
    pre = [c for c in run_.calls() if c.matches(MOVE) and c.bb not in arm_blocks and not run_.blocks[c.bb].get("cleanup")]
    loops = [c for c in run_.calls() if c.callee().endswith("Iterator>::next") and "IterMut" in c.callee() and c.bb not in arm_blocks]
    sanitised = bool(pre) and bool(loops)
    rep.ob("C13.values-not-views", "BuiltInFunction::run copies every argument out of its view before it dispatches on the built-in", "ok" if sanitised else "violated",
           "%d copy-out call(s) in a loop over the arguments ahead of the dispatch" % len(pre), run_.span, fn=run_.path, key="C13.values-not-views|arguments")
    # (3) pushes into program lists
    np = 0
    for f in F.crates["bytecode"].fns:
        if f.path.startswith("bytecode::context::Ctx::"):
            continue              # the operand stack: views live there on purpose
        for c in f.calls():
            if not c.matches(("alloc::vec::Vec::push", "alloc::vec::Vec::insert")) or "bytecode::variables::primitive::Primitive" not in " ".join(c.t["func"].get("ga") or [])[:160]:
                continue
            np += 1
            l = mir.op_local(c.args[1 if c.matches("alloc::vec::Vec::push") else 2])
            o = rules.origins(f, l, transparent=T) if l is not None else set()
            by = {x.bb: x for x in f.calls()}
            why_bad = []
            for x in o:
                if x[0] == "call":
                    cc = by[x[1]]
                    if cc.matches(MOVE):
                        continue
                    ga = " ".join(cc.t["func"].get("ga") or [])
                    if cc.matches(("core::slice::<impl [T]>::get", "core::slice::<impl [T]>::first", "core::ops::index::Index::index", "alloc::vec::Vec::remove")) and \
                            "bytecode::variables::primitive::Primitive" in ga + (cc.t["func"].get("res") or ""):
                        continue      # an argument (2) or an element of a program list: a value
                    if cc.matches(("core::option::Option::take", "core::option::Option::replace", "core::mem::take", "core::mem::replace")) and \
                            _stash_holds_values(F, f, cc, T, MOVE):
                        continue      # a value parked in a field of the operation object by a sibling method, which took it from a list
                    why_bad.append(mir.short(cc.callee()))
                elif x[0] == "arg":
                    if "ReturnValue" in f.locals[x[1]] and not why_bad:
                        continue      # a callback's return value (1)
                    why_bad.append("parameter %s" % f.local_name(x[1]))
                elif x[0] != "const":
                    why_bad.append(str(x)[:40])
            rep.ob("C13.values-not-views", "%s pushes a value, not a view, into a list" % mir.short(f.path), "violated" if why_bad else "ok",
                   "the pushed value can come straight from %s" % sorted(set(why_bad)) if why_bad else "", c.span, fn=f.path,
                   key="C13.values-not-views|push|%s" % mir.short(f.path))
    rep.floor("C13.values-not-views pushes into program lists", np, 3)



def index_guard(F, rep, rule="C13.index-guard"):
    """`xs[i]` and `xs.remove(i)` with i outside 0 <= i < len stop the program and leave the list as it was.  Structural part: in the arm of
    `remove` every successful return, and in vec_op every construction of an element view, lies behind the edge of a comparison between the
    index itself (no arithmetic on it) and the length of the list on which index < len holds.  A test of `index + 1` against len, or a
    pop()/get() whose own emptiness test stands in for the bounds test, does not count."""
    from props import _casts
    run, arms = _casts.arms_of_run(F)
    blocks = arms.get("VecRemove")
    if not blocks:
        raise AnchorMissing("BuiltInFunction::run arm VecRemove")
    edges, cmps = rules.in_range_edges(run, blocks)
    oks = [b for b in rules.ok_return_blocks(run) if b in blocks]
    rep.floor(rule + " successful returns of remove", len(oks), 1)
    reach = run.reachable(0, removed_edges=edges) if edges else set(range(len(run.blocks)))
    bad = [b for b in oks if b in reach]
    rep.ob(rule, "`xs.remove(i)` returns an element only behind the in-range edge of a test of i itself against the length", "violated" if bad else "ok",
           ("%d successful return(s) reachable without it (comparisons of a plain index with len in the arm: %d): `[1, 2, 3].remove(7)` takes an element off instead of stopping"
            % (len(bad), len(cmps))) if bad else "%d comparison(s)" % len(cmps), run.blocks[bad[0]]["t"].get("sp") if bad else None, fn=run.path, key=rule + "|remove")
    vo = F.fn("bytecode::instruction::implementations::vec_op")
    if vo is None:
        raise AnchorMissing("implementations::vec_op")
    views = vo.calls_to("bytecode::variables::primitive::HeapPrimitive::new_array_view")
    rep.floor(rule + " element views built by vec_op", len(views), 1)
    edges, cmps = rules.in_range_edges(vo)
    reach = vo.reachable(0, removed_edges=edges) if edges else set(range(len(vo.blocks)))
    for i, c in enumerate(views):
        ok = c.bb not in reach
        rep.ob(rule, "`xs[i]` builds the element view only behind the in-range edge of a test of i itself against the length", "ok" if ok else "violated",
               "" if ok else "the view is reachable without it (%d plain comparisons with len)" % len(cmps), c.span, fn=vo.path, key="%s|index#%d" % (rule, i))



def filter_keeps_what_it_tested(F, rep, rule="C13.filter-kept"):
    """`xs.filter(f)` is the sequence of the elements f said yes to.  The callback runs between FilterOp::wait_for (which reads the element and
    hands it over) and FilterOp::then (which keeps it): it may change the list meanwhile, so `then` must keep the value that was handed
    over - what it pushes onto the result may not come from a second read of the list (slice::get / Index on the shared vector)."""
    th = [g for g in F.crates["bytecode"].fns if "FilterOp as bytecode::function::RuntimeExecutionBridgeNotifier>::then" in g.path and g.kind != "Closure"]
    if len(th) != 1:
        raise AnchorMissing("FilterOp::then")
    th = th[0]
    pushes = [c for c in th.calls() if mir.strip_generics(c.callee()).endswith("Vec::push")]
    rep.floor(rule + " elements kept by FilterOp::then", len(pushes), 1)
    READS = ("core::slice::<impl [T]>::get", "core::ops::index::Index::index", "core::slice::<impl [T]>::first", "core::slice::<impl [T]>::last",
             "core::slice::<impl [T]>::get_unchecked", "alloc::vec::Vec::remove", "alloc::vec::Vec::swap_remove")
    thr = rules.TRANSPARENT | {rules.TRY_BRANCH, "core::option::Option::cloned", "core::option::Option::copied", "anyhow::Context::context", "anyhow::Context::with_context",
                               "core::option::Option::ok_or", "core::option::Option::ok_or_else", "core::option::Option::unwrap", "core::option::Option::expect"}
    for i, c in enumerate(pushes):
        l = op_local(c.args[1]) if len(c.args) > 1 else None
        oc = rules.origin_calls(th, l, transparent=thr) if l is not None else []
        reread = [x for x in oc if x.matches(READS)]
        rep.ob(rule, "filter keeps the element it handed to the callback", "violated" if reread else "ok",
               ("the kept value comes from %s in `then`, after the callback ran: a callback that removes an element makes filter keep a neighbour of the one it tested"
                % sorted({mir.short(mir.strip_generics(x.callee())) for x in reread})) if reread else "", c.span, fn=th.path, key="%s|#%d" % (rule, i))



def _self_field(fn, local, depth=10):
    """The field of `self` (parameter 1) a reference / guard was made from, following borrows, guards and derefs backwards."""
    THROUGH = ("core::cell::RefCell::borrow_mut", "core::cell::RefCell::borrow", "core::ops::deref::DerefMut::deref_mut", "core::ops::deref::Deref::deref",
               "core::option::Option::as_mut", "core::cell::Cell::as_ptr")
    cur = local
    for _ in range(depth):
        if cur is None:
            return None
        ds = [d for d in rules.defs_of(fn, cur) if not (d[3].get("p"))]      # writes *through* the reference are not definitions of it
        if len(ds) != 1:
            return None
        d = ds[0]
        if d[0] == "call":
            c = d[4]
            if c.matches(THROUGH) and c.args:
                cur = op_local(c.args[0])
                continue
            return None
        rv = d[4]
        pl = rv.get("ref") or (mir.op_place(rv["use"]) if "use" in rv else None)
        if not pl:
            return None
        if pl["l"] == 1:
            for e in pl.get("p") or []:
                if e[0] == "field":
                    return e[2]
            return None
        cur = pl["l"]
    return None


def _stash_holds_values(F, fn, take_call, T, MOVE):
    """`self.<field>.borrow_mut().take()`: every sibling method that stores into that field stores an element read from a program list (or a
    copied-out value)."""
    fld = _self_field(fn, op_local(take_call.args[0]) if take_call.args else None)
    if fld is None:
        return False
    prefix = fn.path.rsplit("::", 1)[0] + "::"
    stores, bad = 0, 0
    for g in F.crates["bytecode"].fns:
        if not g.path.startswith(prefix) or g.kind == "Closure":
            continue
        for bi, si, dst, rv, st in g.assigns():
            pr = dst.get("p") or []
            if not pr or pr[0][0] != "deref" or len(pr) != 1:
                continue
            if _self_field(g, dst["l"]) != fld:
                continue
            # `*guard = Some(v)`: the aggregate is built in a temporary first
            agg = rv if "agg" in rv else None
            if agg is None and "use" in rv and op_local(rv["use"]) is not None:
                for d in rules.defs_of(g, op_local(rv["use"])):
                    if d[0] == "assign" and "agg" in d[4]:
                        agg = d[4]
            stores += 1
            if agg is None or agg["agg"].get("v") != "Some":
                if agg is not None and agg["agg"].get("v") == "None":
                    stores -= 1
                    continue
                bad += 1
                continue
            v = op_local(agg["ops"][0])
            by = {x.bb: x for x in g.calls()}
            okv = v is not None
            for x in (rules.origins(g, v, transparent=T | {"core::clone::Clone::clone"}) if v is not None else ()):
                if x[0] == "call":
                    cc = by[x[1]]
                    ga = " ".join(cc.t["func"].get("ga") or [])
                    if cc.matches(MOVE) or (cc.matches(("core::slice::<impl [T]>::get", "core::slice::<impl [T]>::first", "core::ops::index::Index::index")) and
                                            "bytecode::variables::primitive::Primitive" in ga + (cc.t["func"].get("res") or "")):
                        continue
                    okv = False
                elif x[0] != "const":
                    okv = False
            if not okv:
                bad += 1
    return stores > 0 and bad == 0



# which list / map a built-in hands back: the receiver itself (an alias: updates through the result are updates of the receiver) or a container of
# its own.  Confirmed by reading each arm on the pinned tree; `join` is the one operation whose result is the receiver (`xs.join(ys).join(zs)`
# appends twice to xs).
_RESULT_IS = {
    "VecJoin": "receiver",
    "VecClone": "fresh", "MapClone": "fresh", "VecMap": "fresh", "VecFilter": "fresh", "MapKeys": "fresh", "MapValues": "fresh", "MapPairs": "fresh",
    "StrChars": "fresh", "StrSplit": "fresh",
}


def result_identity(F, rep, rule="C13.result-identity"):
    """Every alias of a list sees every update, and a clone is independent: so it matters whether the list a built-in returns *is* the receiver or a
    new one.  Per arm of BuiltInFunction::run that builds a Primitive::Vector / Map result: the container comes from the receiver argument
    (`arguments.first()`, a pointer copy) exactly for the operations listed as returning the receiver, and from a constructor
    (GcVector::new / with_capacity, GcMap::new) for the others.  An arm this table does not list is reported."""
    from props import _casts
    run, arms = _casts.arms_of_run(F)
    n = 0
    for name, blocks in sorted(arms.items()):
        kinds = set()
        where = None
        for bi, si, dst, rv, st in run.assigns():
            if bi in blocks and "agg" in rv and str(rv["agg"].get("adt", "")).endswith("primitive::Primitive") and rv["agg"].get("v") in ("Vector", "Map"):
                l = op_local(rv["ops"][0])
                oc = rules.origin_calls(run, l, transparent=rules.TRANSPARENT) if l is not None else []
                where = where or st.get("us") or st.get("sp")
                for x in oc:
                    nm = mir.short(mir.strip_generics(x.callee()))
                    if nm in ("[T]::first", "[T]::get", "Vec::first", "Vec::get"):
                        kinds.add("receiver")
                    elif nm in ("GcVector::new", "GcVector::with_capacity", "GcMap::new", "GcMap::with_capacity"):
                        kinds.add("fresh")
                    else:
                        kinds.add("?" + nm)
        if not kinds:
            continue
        n += 1
        want = _RESULT_IS.get(name)
        ok = want is not None and kinds == {want}
        rep.ob(rule, "%s hands back %s" % (name, {"receiver": "the receiver itself", "fresh": "a container of its own"}.get(want, "a container (not in the table)")),
               "ok" if ok else "violated",
               "" if ok else ("the returned container comes from %s%s" % (sorted(kinds), "" if want else "; add the arm to the table after reading it")) +
               (": `r = xs.join(ys)` / `r.push(1)` no longer reaches xs" if name == "VecJoin" else ""), where, fn=run.path, key="%s|%s" % (rule, name))
    rep.floor(rule + " arms that build a list or map result", n, 9)


def methods_answered_by_the_interpreter(F, rep, rule="C13.method-dispatch"):
    """`xs.len()`, `m.keys()`, `xs.push(v)`, ..: what a list or map answers depends on its contents at that moment (every alias may have changed
    it), so a member access is answered by the interpreter: the code of a link of a dot chain looks the member up on the receiver (`lookup
    <name>`).  The generator <DotLookupOption as Compile>::compile is evaluated for every variant (boolean fields both ways, the rest opaque);
    a word without `lookup` is a member the compiler answered itself - from the static type, which does not know the contents."""
    import itertools
    import jumps
    import seqgen
    import absint
    from absint import Variant, Opaque, TRUE, FALSE, Interp
    DLO = "compiler::ast::dot_lookup::DotLookupOption"
    a = F.adt(DLO)
    f = F.fn("<%s as compiler::ast::Compile>::compile" % DLO)
    if a is None or f is None:
        raise AnchorMissing("DotLookupOption / its Compile impl")

    def cnew(it, p, fid, fn, t, args):
        return Opaque("callable")
    ms = dict(absint.DEFAULT_MODELS)
    ms.update(seqgen.MODELS)
    ms.update(jumps.MODELS)
    ms["compiler::ast::callable::Callable::new"] = cnew
    n = 0
    for vi, v in enumerate(a["variants"]):
        bools = [fl["name"] for fl in v["fields"] if fl["ty"] == "bool"]
        words, und = [], []
        for combo in itertools.product((TRUE, FALSE), repeat=len(bools)):
            m = dict(zip(bools, combo))
            fields = [m[fl["name"]] if fl["ty"] == "bool" else Opaque(fl["name"] or "f%d" % i) for i, fl in enumerate(v["fields"])]
            it = Interp(F, models=ms, max_depth=5, max_paths=512, loop_bound=16)
            it.jcfg = {"expand": "body", "x": None}
            it.jreg = []
            outs = it.run(f, [Variant(DLO, vi, v["name"], fields), Opaque("state")])
            if it.exhausted:
                und.append("path bound")
            for o in outs:
                if o.kind == "return" and isinstance(o.value, Variant) and o.value.name == "Ok":
                    seq = o.value.fields[0]
                    if isinstance(seq, seqgen.Seq):
                        words.append(seq.items)
                    elif isinstance(seq, absint.Tup):
                        words.append(tuple(jumps.item_of(it, None, x) for x in seq.fields))
                    else:
                        und.append("unreadable result %r" % (seq,))
        bad = [w for w in words if not any(x[0] == "ins" and x[1] == "lookup" for x in w)]
        st = "violated" if bad else ("undecided" if (und or not words) else "ok")
        if st != "undecided":
            n += 1
        rep.ob(rule, "a `.%s` link of a dot chain asks the receiver at run time (`lookup`)" % v["name"], st,
               ("emitted without a lookup: `%s`: the member is answered from the receiver's static type, not from the list / map as it is when the "
                "statement runs (`const xs = [1, 2, 3]  xs.push(4)  xs.len()`)" % " ".join(jumps.show_item(x) for x in bad[0])) if bad
               else ("; ".join(und[:2]) if st == "undecided" else "emitted: %s" % " ".join(jumps.show_item(x) for x in words[0])[:160]),
               f.span, fn=f.path, key="%s|%s" % (rule, v["name"]))
    rep.floor(rule + " variants of DotLookupOption judged", n, 2)


PRIM_PATH = "bytecode::variables::primitive::Primitive"


def equality_reaches_elements(F, rep, rule="C13.element-equality"):
    """`xs == ys` compares two lists element by element and `xs.index_of(v)` compares v with each element (Primitive::equals, which refuses the
    kinds the language gives no `==`: maps, objects, functions - the built-in even unwraps the refusal: "the compiler allowed an illegal type
    comparison").  The type checker's own answer to "does this type have `==`" (TypeLayout::supports_equ) therefore has to look through list
    types: evaluated abstractly, supports_equ([T...]) = supports_equ([T]) = supports_equ([int, T]) = supports_equ(T) for T in a universe that
    contains the refused kinds; and the type checker offers `index_of` on `[T...]` only when T has `==`."""
    from props import _hashkeys
    import absint
    import tables as _tables
    from absint import Str, Interp
    ty = _hashkeys.Types(F)
    se = F.fn("compiler::ast::r#type::TypeLayout::supports_equ")
    gpt = F.fn("compiler::ast::r#type::TypeLayout::get_property_type")
    if se is None or gpt is None:
        raise AnchorMissing("TypeLayout::supports_equ / get_property_type")
    base = ["Int", "Str", "Map", "Class", ("Opt", "Map"), ("Open", "Int"), ("Open", "Map")]
    # (a) a list `==` is the element-wise structural equality (<[Primitive] as PartialEq>): which payload types of Primitive have an `eq` that is
    # not an equality at all - every return is the constant false ("you cannot compare a hash map")?  Read from the MIR of the PartialEq impls.
    pa = F.adt(PRIM_PATH)
    if pa is None:
        raise AnchorMissing(PRIM_PATH)
    never_equal = set()
    for v in pa["variants"]:
        for fl in v["fields"]:
            pty = mir.strip_generics(fl["ty"])
            g = F.fn("<%s as core::cmp::PartialEq>::eq" % pty)
            if g is None:
                continue
            rets = [rv for bi, si, dst, rv, s_ in g.assigns() if dst["l"] == 0 and not dst.get("p")]
            consts = [mir.op_const(rv.get("use")) if "use" in rv else None for rv in rets]
            if rets and all(c is not None and c.get("int") == "0" for c in consts):
                never_equal.add(v["name"])
    rep.extra["payloads_whose_eq_is_constantly_false"] = sorted(never_equal)
    n = 0
    heads = {"Map": "Map"}
    for x in ("Map", ("Opt", "Map"), ("Open", "Map"), ("Alias", "Map"), ("Cb", "Map")):
        for w in (("Open", x), ("Mixed", [x]), ("Mixed", ["Int", x]), ("Opt", ("Open", x))):
            key = "%s|supports_equ|%s" % (rule, _hashkeys.show(w))
            label = "`==` is not offered on %s (a map is equal to nothing, itself included)" % _hashkeys.show(w)
            if "Map" not in never_equal:
                rep.ob(rule, label, "exempt", "the PartialEq of the map payload is no longer constantly false", se.span, fn=se.path, key=key)
                continue
            pw = _hashkeys.eval_pred(F, se, ty.build(w))
            if pw is None:
                rep.ob(rule, label, "undecided", "supports_equ could not be evaluated", se.span, fn=se.path, key=key)
                continue
            n += 1
            rep.ob(rule, label, "violated" if pw else "ok",
                   "supports_equ(%s) = true: `ms == ms` type-checks and prints false" % _hashkeys.show(w) if pw else "", se.span, fn=se.path, key=key)
    rep.floor(rule + " supports_equ evaluations", n, 20)
    m = 0
    for x in base:
        px = _hashkeys.eval_pred(F, se, ty.build(x))
        it = Interp(F, models=_tables.MODELS, max_depth=8, max_paths=512)
        outs = it.run(gpt, [ty.build(("Open", x), "self"), Str("index_of")])
        kinds = set()
        for o in outs:
            if o.kind == "return" and isinstance(o.value, absint.Variant) and o.value.name in ("Some", "None"):
                kinds.add(o.value.name)
            else:
                kinds.add("?")
        key = "%s|index_of|%s" % (rule, _hashkeys.show(x))
        if px is None or it.exhausted or "?" in kinds or len(kinds) != 1:
            rep.ob(rule, "`index_of` on [%s...]" % _hashkeys.show(x), "undecided", "outcomes %s" % sorted(kinds), gpt.span, fn=gpt.path, key=key)
            continue
        m += 1
        offered = kinds == {"Some"}
        rep.ob(rule, "`index_of` is offered on [%s...] exactly when %s has `==`" % (_hashkeys.show(x), _hashkeys.show(x)), "ok" if offered == px else "violated",
               "" if offered == px else "offered=%s, supports_equ=%s: `ms.index_of(ms[0])` on a list of maps compiles and the built-in panics (exit 101)" % (offered, px),
               gpt.span, fn=gpt.path, key=key)
    rep.floor(rule + " index_of evaluations", m, 5)


def list_identity_is_the_cell(F, rep, rule="C13.list-identity"):
    """`a is b` on two lists (two maps) asks whether they are one container: every alias shares the GcCell, so the identity is the address of what is
    *in the cell* (the Vec / HashMap header), or Gc::ptr_eq.  The address of the Vec's *buffer* is not an identity: a Vec that has not allocated
    yet points at the same dangling address as every other empty one (`a: [int...] = []  b: [int...] = []  a is b` is true) and the buffer moves
    when the list grows.  In the functions that answer runtime_addr_check for containers (the `addr` helpers of GcVector / GcMap) no buffer
    pointer is taken (`as_ptr`, `as_mut_ptr`)."""
    import re
    rac = F.fn("bytecode::variables::primitive::Primitive::runtime_addr_check")
    if rac is None:
        raise AnchorMissing("Primitive::runtime_addr_check")
    helpers = []
    for c in rac.calls():
        g = F.fn(c.callee() or "")
        if g is not None and g.path.startswith("bytecode::") and re.search(r"Gc(Vector|Map)", g.path):
            helpers.append(g)
    rep.floor(rule + " identity helpers of containers", len({g.path for g in helpers}), 1)
    for g in {h.path: h for h in helpers}.values():
        bad = [c for c in g.calls() if re.search(r"::as_ptr$|::as_mut_ptr$|::as_ptr_range$", mir.strip_generics(c.callee() or ""))]
        rep.ob(rule, "%s identifies the container by its cell, not by its buffer" % mir.short(g.path), "violated" if bad else "ok",
               ("it takes %s: two empty lists share the dangling buffer address (`a is b` is true for two distinct empty lists) and a list changes "
                "its address when it grows" % mir.short(bad[0].callee())) if bad else "", (bad[0].span if bad else g.span), fn=g.path, key="%s|%s" % (rule, mir.short(g.path)))
