"""C13 — lists and maps: the interface and the index arithmetic are sound (partial by nature).

 (a) built-in signature agreement for list and map receivers (declared signature == what the implementation
     destructures and returns);
 (b) no wrapped index / truncated length: no narrowing or sign-changing cast on a program value in the index paths;
 (c) element pointers are only created under a bounds check.
Model conformance of each operation and aliasing over histories are not decided.
"""
import mir
import rules
from core import AnchorMissing
from props import _builtins

try:
    from props import _casts
except ImportError:
    _casts = None


def run(ctx, rep):
    F = ctx.facts("default", ["bytecode", "compiler"])
    rep.explain("C13: the declared signatures of list/map built-ins (TypeLayout::get_property_type), the run-time name lookup "
                "(Primitive::lookup -> PrimitiveModule accessor -> BuiltInFunction variant) and the implementation arms (BuiltInFunction::run) are "
                "read by abstract interpretation and compared; index-arithmetic casts and the bounds check guarding element pointers are checked on MIR.")
    rep.assume("model conformance of each list/map operation and aliasing over histories are not decided")
    _builtins.run(F, rep, "C13.builtin", "list+map")
    if _casts is not None:
        _casts.run_c13(F, rep)
