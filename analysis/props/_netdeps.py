"""C07 / C02 — get_net_dependencies: a dependency's capture depth is raised only after it survived the supply filter.

`Dependency::eq_allow_callbacks` looks through a CallbackVariable wrapper only when `cycles_needed > 0`, so comparing a
dependency against the block's own supplies *after* `increment_cycle()` lets a same-named local assignment satisfy a captured
variable: the capture is dropped from make_function and the closure reads an undefined variable once the defining frame is gone.
Ordering rule on the MIR of get_net_dependencies (and its closures): no execution order in which increment_cycle precedes the
comparison for the same dependency.
"""
import re
import mir
import rules
from mir import op_local
from core import AnchorMissing

LAZY = ("map", "filter", "filter_map", "inspect", "map_while", "take_while", "skip_while", "flat_map", "scan")
EAGER = ("any", "all", "find", "position", "for_each", "fold", "try_for_each", "find_map", "count", "retain", "retain_mut")


def run(F, rep, rule):
    gnd0 = F.fn("compiler::ast::get_net_dependencies")
    if gnd0 is None:
        raise AnchorMissing("compiler::ast::get_net_dependencies")
    # every walk that both filters dependencies against supplies and raises their capture depth: get_net_dependencies and, since the blocks
    # supply in statement order, Block's in-order walk (found by what it calls, not by name)
    walkers = []
    for g in F.crates["compiler"].fns:
        if g.kind == "Closure":
            continue
        bs = [g] + F.closures_of(g)
        if any(b.calls_to("compiler::ast::Dependency::increment_cycle") for b in bs) and any(b.calls_to("compiler::ast::Dependency::eq_allow_callbacks") for b in bs):
            walkers.append(g)
    if gnd0 not in walkers:
        walkers.append(gnd0)
    rep.floor(rule + " walks that filter and raise", len(walkers), 2)
    for g in sorted(walkers, key=lambda x: x.path):
        _run_one(F, rep, rule, g)


def _run_one(F, rep, rule, gnd):
    INC = "compiler::ast::Dependency::increment_cycle"
    CMP = "compiler::ast::Dependency::eq_allow_callbacks"
    bodies = [gnd] + F.closures_of(gnd)

    def top_closure(g):
        m = re.match(re.escape(gnd.path) + r"::\{closure#\d+\}", g.path)
        return m.group(0) if m else None

    def sites(pat):
        """[(kind, call in gnd, adaptor name or None)]: where, in gnd's own CFG, the operation happens."""
        out = []
        for g in bodies:
            for c in g.calls_to(pat):
                if g is gnd:
                    out.append(("direct", c, None))
                    continue
                tc = top_closure(g)
                found = False
                for a in gnd.calls():
                    for arg in a.args[1:]:
                        if rules.closure_def_of_arg(gnd, arg) == tc:
                            out.append(("closure", a, a.callee().rsplit("::", 1)[-1]))
                            found = True
                if not found:
                    out.append(("lost", c, None))
        return out
    incs = sites(INC)
    cmps = sites(CMP)
    if gnd.path.endswith("::get_net_dependencies"):
        rep.floor(rule + " increment_cycle / eq_allow_callbacks sites in get_net_dependencies", min(len(incs), len(cmps)), 1)
    if not incs or not cmps:
        return
    # the per-dependency loop head: Iterator::next on the by-value iterator over dependencies()
    deps = gnd.calls_to("compiler::ast::Dependencies::dependencies") + gnd.calls_to("compiler::ast::Dependencies::net_dependencies")
    der = gnd.derived([c.dst["l"] for c in deps], through_call=lambda c, idx: True if 0 in idx else None)
    heads = {c.bb for c in gnd.calls() if c.matches("core::iter::traits::iterator::Iterator::next") and op_local(c.args[0]) in der}
    verdict = "ok"
    detail = []
    for ik, ic, ia in incs:
        for ck, cc, ca in cmps:
            lazy_i = ik == "closure" and ia in LAZY
            lazy_c = ck == "closure" and ca in LAZY
            if ik == "lost" or ck == "lost":
                verdict = "undecided" if verdict == "ok" else verdict
                detail.append("a closure of get_net_dependencies is not passed to a call in its body")
            elif lazy_i and lazy_c:
                # adaptor chain: the filter must be upstream of (feed) the adaptor that increments
                up = gnd.derived([cc.dst["l"]], through_call=lambda c, idx: True if 0 in idx else None)
                if op_local(ic.args[0]) not in up:
                    verdict = "violated"
                    detail.append("%s(increment_cycle) is not downstream of %s(eq_allow_callbacks): dependencies are compared after their cycle count was raised" % (ia, ca))
            elif not lazy_i and not lazy_c:
                if not heads:
                    verdict = "undecided" if verdict == "ok" else verdict
                    detail.append("no per-dependency loop head found")
                    continue
                reach = gnd.reachable(ic.target, removed_blocks=heads) if ic.target is not None else set()
                if cc.bb in reach:
                    verdict = "violated"
                    detail.append("increment_cycle at %s can be followed by the comparison at %s for the same dependency" % (ic.span, cc.span))
            else:
                # one lazy, one eager: order is the order of consumption; the lazy adaptor must feed / be fed accordingly
                if lazy_i:
                    up = gnd.derived([ic.dst["l"]], through_call=lambda c, idx: True if 0 in idx else None)
                    consumed_before = op_local(cc.args[0]) in up or any(op_local(a) in up for a in cc.args)
                    if consumed_before:
                        verdict = "violated"
                        detail.append("the comparison consumes an iterator whose items already went through increment_cycle")
                else:
                    verdict = "undecided" if verdict == "ok" else verdict
                    detail.append("mixed lazy/eager form")
    nm = mir.short(gnd.path)
    rep.ob(rule, "%s raises a dependency's capture depth only after comparing it with the block's supplies" % nm, verdict,
           "; ".join(sorted(set(detail))), gnd.span, fn=gnd.path, key=rule + "|" + nm.split("::")[-1])



def cycle_boundary(F, rep, rule):
    """`Dependency::eq_allow_callbacks` reads `cycles_needed > 0` as "this dependency comes out of a nested *function*": only then may a plain
    local `x: T` of the enclosing function satisfy a dependency on `x: CallbackVariable(T)`.  Inside one function the captured `x` and a local
    `x` are two variables, so the depth must count function boundaries and nothing else: every walk that raises it
    (`get_net_dependencies(_, true)`, directly or through a `net_dependencies` impl that calls it so) is requested by the `dependencies()` of
    a node whose `Compile` impl opens a function (`CompiledItem::Function`).  An `if` / `while` / `from` body that raises the depth lets a
    local assigned *after* the block cancel the block's read of the captured variable (run-time `load before store`)."""
    eq = F.fn("compiler::ast::Dependency::eq_allow_callbacks")
    gnd = F.fn("compiler::ast::get_net_dependencies")
    if eq is None or gnd is None:
        raise AnchorMissing("Dependency::eq_allow_callbacks / get_net_dependencies")
    reads_depth = False
    for bi, si, dst, rv, s_ in eq.assigns():
        for o in mir.rvalue_operands(rv):
            pl = mir.op_place(o)
            if pl and any(e[0] == "field" and e[2] == "cycles_needed" for e in pl.get("p", [])):
                reads_depth = True
    if not reads_depth:
        rep.ob(rule, "eq_allow_callbacks keys the callback rule on the capture depth", "undecided",
               "cycles_needed is not read by eq_allow_callbacks: the rule below does not apply as written", eq.span, fn=eq.path, key=rule + "|armed")
        return
    c = F.crates["compiler"]
    # function-like node types: Compile::compile builds a CompiledItem::Function
    opens_fn = set()
    for f in c.fns:
        # the node type whose code generator (its Compile impl, or an inherent method that impl is split into) builds the function item
        owner = mir.strip_generics(f.d.get("impl_self") or "")
        m = re.match(r"<(compiler::[\w:#]+) as compiler::ast::Compile>::compile$", f.path)
        if m:
            owner = m.group(1)
        if not owner.startswith("compiler::") or f.path.endswith("as core::clone::Clone>::clone"):
            continue
        for bi, si, dst, rv, s_ in f.assigns():
            if "agg" in rv and rv["agg"].get("adt", "").endswith("ast::CompiledItem") and rv["agg"].get("v") == "Function":
                opens_fn.add(owner)
    if len(opens_fn) < 3:
        raise AnchorMissing("Compile impls that build CompiledItem::Function (found %s)" % sorted(opens_fn))
    # walks that raise the depth
    raising = {}
    # the walks that can raise the depth: get_net_dependencies(_, flag), and any other function with a bool flag as its last parameter that calls
    # Dependency::increment_cycle (Block's in-order walk)
    helpers = ["compiler::ast::get_net_dependencies"]
    for g in c.fns:
        if g.kind != "Closure" and g.argc >= 2 and g.locals[g.argc].strip() == "bool" and g.path not in helpers and \
                any(x.callee().endswith("Dependency::increment_cycle") or x.callee().endswith("Dependency::<'a>::increment_cycle") for b in [g] + F.closures_of(g) for x in b.calls()):
            helpers.append(g.path)
    for f in c.fns:
        for cl in [x for h in helpers for x in f.calls_to(h)]:
            a = cl.args[-1] if cl.args else None
            if isinstance(a, dict) and "const" in a and a["const"].get("int") == "1":
                raising[f.path] = cl
            elif not (isinstance(a, dict) and "const" in a):
                raising[f.path] = cl      # a computed flag: treated as possibly raising
    n = 0
    for rp, cl in sorted(raising.items()):
        m = re.match(r"<(compiler::[\w:#]+) as compiler::ast::Dependencies>::net_dependencies$", rp)
        owner = m.group(1) if m else None
        if owner in opens_fn:
            rep.ob(rule, "%s raises the capture depth and is itself a function-like node" % mir.short(rp), "ok", "", cl.span, fn=rp,
                   key="%s|raiser|%s" % (rule, mir.short(rp)))
            n += 1
            continue
        # a shared body type (Block, ClassBody): judged at each node that asks for the raised walk
        callers = []
        for f in c.fns:
            if f.calls_to(rp) and f.path != rp:
                callers.append(f)
        for f in sorted(callers, key=lambda x: x.path):
            m2 = re.match(r"<(compiler::[\w:#]+) as compiler::ast::Dependencies>::(dependencies|net_dependencies|supplies)$", f.path)
            t = m2.group(1) if m2 else None
            n += 1
            ok = t in opens_fn
            rep.ob(rule, "%s asks %s for a depth-raising walk and opens a function" % (mir.short(f.path), mir.short(rp)), "ok" if ok else "violated",
                   "" if ok else "%s does not compile to a function of its own: its body is part of the enclosing function, where a dependency on a captured "
                   "`x` (CallbackVariable(T), depth now > 0) is then cancelled by a local `x: T` assigned anywhere in that function" % (mir.short(t) if t else mir.short(f.path)),
                   f.calls_to(rp)[0].span, fn=f.path, key="%s|%s" % (rule, mir.short(f.path)))
    rep.floor(rule + " requests for a depth-raising walk judged", n, 4)
