"""C02 / C01 — a value read off the operand stack is looked at only after it was copied out of a view.

Indexing and field access leave a *view* (Primitive::HeapPrimitive) on the operand stack.  A handler that matches on the variant of such a value
(`let Primitive::Bool(b) = item else { bail!(..) }`) without first calling move_out_of_heap_primitive* rejects a well-typed program at run time:
`if flags[0] { .. }` fails with "if statement can only test booleans".  Rule, per instruction handler: every value that comes straight from
Ctx::pop / get_last_op_item(_mut) / get_many_op_items and has not passed through a move_out call may be matched on only by code that has an
explicit arm for the HeapPrimitive variant; it may be handed only to functions that look through views themselves.
"""
import re
import mir
import rules
from mir import op_local
from core import AnchorMissing

PRIM = "bytecode::variables::primitive::Primitive"
RAW = ("bytecode::context::Ctx::pop", "bytecode::context::Ctx::get_last_op_item", "bytecode::context::Ctx::get_last_op_item_mut",
       "bytecode::context::Ctx::get_many_op_items_mut", "bytecode::context::Ctx::get_nth_op_item", "bytecode::context::Ctx::get_nth_op_item_mut")
MOVE = ("bytecode::variables::primitive::Primitive::move_out_of_heap_primitive", "bytecode::variables::primitive::Primitive::move_out_of_heap_primitive_borrow")
T = rules.TRANSPARENT | {rules.TRY_BRANCH, "core::option::Option::unwrap", "core::option::Option::expect", "anyhow::Context::context", "anyhow::Context::with_context",
                        "core::option::Option::ok_or", "core::option::Option::ok_or_else"}


def hp_index(F):
    a = F.adt(PRIM)
    if a is None:
        raise AnchorMissing(PRIM)
    return [v["name"] for v in a["variants"]].index("HeapPrimitive")


def raw_locals(f):
    """locals (values or references) that hold an operand-stack value not yet copied out of a view"""
    seeds = [c.dst["l"] for c in f.calls() if c.matches(RAW) and c.dst and not c.dst.get("p")]
    if not seeds:
        return {}
    der = f.derived(seeds, through_call=lambda c, idx: True if (c.matches(tuple(T)) and not c.matches(MOVE)) else None)
    return der


def sanitising_stores(f, der):
    """blocks in which a copied-out value is stored back through a raw reference (`*slot = slot.move_out..()?.into_owned()`): from there on the slot
    holds a plain value"""
    out = []
    TT = T | {"alloc::borrow::Cow::into_owned", "alloc::borrow::ToOwned::to_owned", "core::clone::Clone::clone"}
    for bi, si, d, rv, s_ in f.assigns():
        if d.get("l") in der and d.get("p") and d["p"][0][0] == "deref" and len(d["p"]) == 1 and "use" in rv:
            l = op_local(rv["use"])
            oc = rules.origin_calls(f, l, transparent=TT) if l is not None else []
            if oc and all(c.matches(MOVE) for c in oc):
                out.append(bi)
    return out


def _clean_at(f, stores, bb):
    doms = f.dominators()
    return any(sb in doms.get(bb, ()) for sb in stores)


def blind_switches(f, der, hp):
    """discriminant switches on a Primitive reached from a raw local that have no arm for HeapPrimitive"""
    out = []
    for bi, blk in enumerate(f.blocks):
        t = blk["t"]
        if t["k"] != "switch" or t.get("dty") != "isize" or blk.get("cleanup"):
            continue
        dl = op_local(t["discr"])
        for s in blk["s"]:
            if "d" in s and s["d"].get("l") == dl and "discr" in s["rv"]:
                pl = s["rv"]["discr"]
                if pl["l"] not in der:
                    continue
                # the place must be a Primitive (not the Option around it)
                ty = f.locals[pl["l"]]
                proj = pl.get("p", [])
                fty = None
                for e in proj:
                    if e[0] == "field" and len(e) > 3:
                        fty = e[3]
                core = re.sub(r"^(&('\w+\s+)?(mut\s+)?)+", "", (fty or ty).strip())
                if not core.startswith(PRIM) or (fty is None and any(e[0] == "downcast" for e in proj)):
                    continue
                vals = {int(v) for v, _ in t["targets"]}
                if hp not in vals and not _clean_at(f, sanitising_stores(f, der), bi):
                    out.append((bi, s.get("sp"), sorted(vals)))
    return out


def callee_is_blind(F, g, pidx, hp, depth=0):
    """does function g match on parameter pidx (a Primitive) without looking through views?"""
    if g is None or depth > 2:
        return False
    der = g.derived([pidx], through_call=lambda c, idx: True if (c.matches(tuple(T)) and not c.matches(MOVE)) else None)
    if any(c.matches(MOVE) and c.args and op_local(c.args[0]) in der for c in g.calls()):
        # it copies out somewhere: assume it does so before looking (checked where it matters by the handler-level rule)
        return False
    return bool(blind_switches(g, der, hp))


def run(F, rep, rule):
    import opcodes
    from props import _panics
    hp = hp_index(F)
    n, nraw = 0, 0
    emitted = {nm for f_, nm, sp, c in opcodes.instruction_literals(F)} if "compiler" in F.crates else None
    by_id = {}
    if emitted is not None:
        names = opcodes.tables(F)["names"]
        for f_, k, sp in opcodes.id_const_uses(F):
            nm_ = k.get("named", "").split("::")[-1].lower() if k.get("named") else (names[int(k["int"])] if "int" in k and int(k["int"]) < len(names) else None)
            if nm_:
                emitted.add(nm_)
                by_id.setdefault(nm_, set()).add(f_.path)
    dead_vec = _panics.vec_op_dead_blocks(F) if "compiler" in F.crates else set()
    for f in F.crates["bytecode"].fns:
        if not f.path.startswith("bytecode::instruction::implementations::") or "{closure" in f.path:
            continue
        der = raw_locals(f)
        if not der:
            continue
        nraw += 1
        name = f.path.split("::")[-1]
        probs = []
        if emitted is not None and name not in emitted:
            n += 1
            rep.ob(rule, "%s looks at an operand only after copying it out of a view" % name, "exempt", "the compiler never emits `%s` (instruction! literals of this run)" % name,
                   f.span, fn=f.path, key="%s|%s" % (rule, name))
            continue
        if name == "split_lookup_store" and by_id.get(name) and all("import::Import as compiler::ast::Compile>::compile" in p_ for p_ in by_id[name]) and name not in {
                nm for f_, nm, sp, c in opcodes.instruction_literals(F)}:
            n += 1
            rep.ob(rule, "%s looks at an operand only after copying it out of a view" % name, "exempt",
                   "emitted only by Import::compile, right after module_entry: its operand is the module value a call returned, never a view", f.span, fn=f.path,
                   key="%s|%s" % (rule, name))
            continue
        for bi, sp, vals in blind_switches(f, der, hp):
            if name == "vec_op" and bi in dead_vec:
                continue
            probs.append("matches on the variant of a value straight off the operand stack at %s (no arm for a view)" % sp)
        for c in f.calls():
            if c.matches(MOVE) or c.matches(tuple(T)) or f.blocks[c.bb].get("cleanup"):
                continue
            for k, a in enumerate(c.args):
                if op_local(a) in der and not _clean_at(f, sanitising_stores(f, der), c.bb):
                    g = F.fn(c.callee())
                    if g is not None and g.path.startswith("bytecode::variables::primitive::Primitive::") and callee_is_blind(F, g, k + 1, hp):
                        probs.append("hands a value straight off the operand stack to %s, which matches on its variant without looking through a view (%s)" % (mir.short(g.path), c.span))
        n += 1
        rep.ob(rule, "%s looks at an operand only after copying it out of a view" % name, "violated" if probs else "ok", "; ".join(sorted(set(probs))[:3]), f.span, fn=f.path,
               key="%s|%s" % (rule, name))
    rep.floor(rule + " handlers reading the operand stack", nraw, 25)
