"""C05 / C06 — `x << n` is exact or fails.

`checked_shl` (and `<<` itself) only look at the shift *amount*: bits pushed out of the value, or into its sign, are lost without a trace
(`1 << 31 == -2147483648`).  The exact value x * 2^n is representable iff shifting the result back restores x.  So every left shift of a
program integer (i32 / i128 / u8) in the crate is followed, in the same function or one of its closures, by a right shift of the result that
is compared with the operand; a left shift without that round trip can hand out a truncated value.
"""
import re
import mir

INT = r"(i32|i128|u8)"
SHL = re.compile(r"core::num::<impl %s>::(checked|wrapping|overflowing|unchecked|strict)_shl$" % INT)
SHR = re.compile(r"core::num::<impl %s>::(checked|wrapping|overflowing|unchecked|strict)_shr$" % INT)


def run(F, rep, rule, crate, what):
    n = 0
    for f in F.crates[crate].fns:
        if f.kind == "Closure":
            continue
        bodies = [f] + list(F.closures_of(f))
        shl = []
        for g in bodies:
            for c in g.calls():
                m = SHL.search(mir.strip_generics(c.callee()))
                if m:
                    shl.append((m.group(1), c))
            for bi, si, dst, rv, s_ in g.assigns():
                if rv.get("bin") in ("Shl", "ShlUnchecked") and rv.get("lty") in ("i32", "i128", "u8") and not s_.get("mc"):
                    shl.append((rv["lty"], None))
        if not shl:
            continue
        for ty in sorted({t for t, _ in shl}):
            n += 1
            back = any(SHR.search(mir.strip_generics(c.callee())) and SHR.search(mir.strip_generics(c.callee())).group(1) == ty for g in bodies for c in g.calls()) \
                or any(rv.get("bin") in ("Shr", "ShrUnchecked") and rv.get("lty") == ty for g in bodies for bi, si, dst, rv, s_ in g.assigns())
            cmp_ = any(c.callee().endswith(("::eq", "::ne")) for g in bodies for c in g.calls()) \
                or any(rv.get("bin") in ("Eq", "Ne") for g in bodies for bi, si, dst, rv, s_ in g.assigns())
            site = [c for t, c in shl if t == ty and c is not None]
            rep.ob(rule, "%s: a left shift of an %s is shifted back and compared (%s)" % (mir.short(f.path), ty, what), "ok" if back and cmp_ else "violated",
                   "" if back and cmp_ else "`checked_shl` refuses only an out-of-range amount; the bits shifted out of the value or into its sign are lost: "
                   "`1 << 31` is -2147483648 instead of a failure", site[0].span if site else f.span, fn=f.path,
                   key="%s|%s|%s" % (rule, mir.short(f.path), ty))
    rep.floor(rule + " left-shift sites on program integers (%s)" % crate, n, 3)


REM = re.compile(r"core::num::<impl (i32|i128)>::(checked|wrapping|overflowing|unchecked|strict)_rem(_euclid)?$")


def run_rem(F, rep, rule, crate, what):
    """`MIN % -1` is 0, and `checked_rem` reports it as an overflow (of the quotient it shares a machine instruction with).  Every signed
    remainder of a program integer in the crate's number tower therefore looks at the divisor first: the function tests it against the
    constant -1 (an `==`, or a switch with a -1 arm)."""
    n = 0
    for f in F.crates[crate].fns:
        if f.kind == "Closure":
            continue
        bodies = [f] + list(F.closures_of(f))
        sites = []
        for g in bodies:
            for c in g.calls():
                m = REM.search(mir.strip_generics(c.callee()))
                if m:
                    sites.append((m.group(1), c))
        for ty in sorted({t for t, _ in sites}):
            n += 1
            bits = {"i32": 32, "i128": 128}[ty]
            minus1 = {"-1", str((1 << bits) - 1)}
            tested = False
            for g in bodies:
                for bi, si, dst, rv, s_ in g.assigns():
                    if rv.get("bin") in ("Eq", "Ne"):
                        for side in ("l", "r"):
                            k = mir.op_const(rv[side])
                            if k and k.get("ty") == ty and str(k.get("int")) in minus1:
                                tested = True
                for blk in g.blocks:
                    t = blk["t"]
                    if t["k"] == "switch" and (t.get("dty") == ty) and any(str(v) in minus1 for v, _ in t["targets"]):
                        tested = True
            c0 = [c for t, c in sites if t == ty][0]
            rep.ob(rule, "%s: a remainder of an %s looks at a divisor of -1 first (%s)" % (mir.short(f.path), ty, what), "ok" if tested else "violated",
                   "" if tested else "`checked_rem(MIN, -1)` is None although MIN %% -1 is 0: the %s refuses (or fails on) an operation whose exact result is representable" % what,
                   c0.span, fn=f.path, key="%s|%s|%s" % (rule, mir.short(f.path), ty))
    rep.floor(rule + " signed remainder sites (%s)" % crate, n, 2)
