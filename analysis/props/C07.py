"""C07 — closures capture variables by reference; `modify` writes through.

 (a) R-VISIT: every code-bearing field of an AST node is visited by its Dependencies impl
     (an unvisited field = a variable the closure silently does not capture)   [props/_visit.py]
 (b) captures alias cells: cells are created only at declaration sites; make_function stores
     the looked-up cell itself (Clone of PrimitiveFlagsPair == Gc pointer copy)
 (c) writes go through the cell: VariableMapping::update and the found-branch of
     Stack::register_variable_flags call set_primitive and never insert; store_object reaches
     update_callback_variable with the popped value
 (d) each activation gets a fresh frame: Stack::extend pushes VariableMapping::default()
"""
import re
import mir
import rules
from mir import op_local, op_const
from core import AnchorMissing
from props import _cells
from props._cells import need, agg_sites, origin_ok, PASS

try:
    from props import _visit
except ImportError:  # engine not built yet
    _visit = None


def run(ctx, rep):
    F = ctx.facts("default", ["bytecode", "compiler"])
    rep.explain("C07: who-may-create on variable cells (type-resolved Gc::new / PrimitiveFlagsPair::new call sites), pass-through "
                "(origin slicing) of the captured cell in make_function and the lookup helpers, write-through rules on "
                "VariableMapping::update / Stack::register_variable_flags / store_object, visitor completeness of the capture walk.")
    rep.assume("gc::Gc::clone is a pointer copy; gc::GcCell gives interior mutability (crate gc)")
    rep.assume("freshness of cells per activation follows from Stack::extend creating an empty VariableMapping (checked) and declarations creating cells (checked)")

    # ---- (b) ---------------------------------------------------------------------
    _cells.cell_creation(
        rep, "C07.cell-creation", F,
        allowed_creators={"bytecode::stack::PrimitiveFlagsPair::new", "bytecode::stack::PrimitiveModule::new"},
        allowed_new_callers={"bytecode::stack::Stack::register_variable_local", "bytecode::instruction::implementations::export_special"})
    _cells.clone_is_pointer_copy(rep, "C07.capture-aliases", F)

    mf = need(F, "bytecode::instruction::implementations::make_function")
    ins = mf.calls_to("std::collections::hash::map::HashMap::insert")
    rep.floor("C07.make_function capture inserts", len(ins), 1)
    for c in ins:
        origin_ok(rep, "C07.capture-aliases", "make_function: captured value is the looked-up cell itself", mf, op_local(c.args[2]),
                  ["bytecode::context::Ctx::load_variable", "bytecode::context::Ctx::load_callback_variable", "bytecode::context::Ctx::load_local"], where=c.span)
        # name stored == name looked up
        key_src = rules.trace_paths(mf, op_local(c.args[1]), transparent=PASS)
        val_calls = rules.origin_calls(mf, op_local(c.args[2]), transparent=PASS)
        names_ok = True
        for vc in val_calls:
            ns = rules.trace_paths(mf, op_local(vc.args[1]), transparent=PASS)
            if {o for o, _ in ns} != {o for o, _ in key_src}:
                names_ok = False
        rep.ob("C07.capture-aliases", "make_function: the cell is stored under the name it was looked up with",
               "ok" if names_ok and val_calls else "violated", "", c.span, fn=mf.path)
    # the mapping handed to the function value is the one filled above
    pf = mf.calls_to("bytecode::variables::primitive::PrimitiveFunction::new") or mf.calls_to("bytecode::function::PrimitiveFunction::new")
    if not pf:
        raise AnchorMissing("PrimitiveFunction::new call in make_function")
    for c in pf:
        l = op_local(c.args[1])
        hm = [x for x in rules.origin_calls(mf, l, transparent=PASS | {"core::convert::Into::into"}) if "HashMap" in x.callee()]
        # the Some(..) payload derives from the HashMap the inserts fill
        rec = set()
        for i in ins:
            rec |= {x.bb for x in rules.origin_calls(mf, op_local(i.args[0]), transparent=PASS)}
        somes = [a for a in agg_sites(mf, "core::option::Option", "Some")]
        ok = False
        for bi, si, dst, rv, s in somes:
            oc = {x.bb for x in rules.origin_calls(mf, op_local(rv["ops"][0]), transparent=PASS)}
            if oc and oc <= rec:
                ok = True
        rep.ob("C07.capture-aliases", "make_function: the function value carries the filled capture map", "ok" if ok else "violated",
               "", c.span, fn=mf.path)

    # lexical scoping, in `load` and in `make_function` alike (sibling cross-check: a read and a capture of the same name must resolve to the same
    # cell): a name is looked up in the running function's own frames first, then in what the function captured, and only then -- if at all --
    # in the frames of its callers.  (Until fix (see known_findings.json) the two handlers searched the whole call stack first, which is dynamic scoping; an earlier
    # version of this rule had taken that order for the intended one.)
    OWN = ("bytecode::context::Ctx::load_local", "bytecode::stack::Stack::find_name_in_function")
    resolvers = {"bytecode::instruction::implementations::load", "bytecode::instruction::implementations::make_function"}
    for g_ in F.crates["bytecode"].fns:       # ... and every other handler that falls back on the whole call stack
        if g_.path.startswith("bytecode::instruction::implementations::") and "{closure" not in g_.path and g_.calls_to("bytecode::context::Ctx::load_variable"):
            resolvers.add(g_.path)
    rep.floor("C07.lookup-precedence handlers resolving a variable name", len(resolvers), 2)
    for path in sorted(resolvers):
        g = need(F, path)
        own = g.calls_to(OWN)
        lc = g.calls_to("bytecode::context::Ctx::load_callback_variable")
        lv = g.calls_to("bytecode::context::Ctx::load_variable")

        def miss_edges(calls):
            edges = set()
            for c in calls:
                sw = rules.find_discr_switch(g, c.target, c.dst["l"])
                if sw is None:
                    continue
                ty = g.locals[c.dst["l"]]
                # Option: None = variant 0; Result: Err = variant 1
                edges.add((sw, _cells.variant_edge(g, sw, 1 if ty.startswith("core::result::Result") else 0)))
            return edges
        problems = []
        if not own:
            problems.append("the running function's own frames are not searched first (no load_local / find_name_in_function)")
        if not lc:
            problems.append("the captured variables are never consulted")
        if own and lc:
            e_own = miss_edges(own)
            if not e_own or not all(rules.edge_dominated(g, c.bb, e_own) for c in lc):
                problems.append("the captures are consulted on a path where the function's own frames were not searched and found wanting")
            if lv:
                e_cap = miss_edges(lc)
                if not e_cap or not all(rules.edge_dominated(g, c.bb, e_own) and rules.edge_dominated(g, c.bb, e_cap) for c in lv):
                    problems.append("the callers' frames (whole-stack lookup) are searched before the function's own frames and captures: a same-named variable of a caller shadows the captured one")
        elif lv and not own:
            pass
        rep.ob("C07.lookup-precedence", "%s: a name resolves in the running function's frames, then in its captures, then (at most) in its callers' frames" % mir.short(path),
               "violated" if problems else "ok", "; ".join(problems) or "own=%d captures=%d whole-stack=%d" % (len(own), len(lc), len(lv)), g.span, fn=g.path,
               key="C07.lookup-precedence|%s" % mir.short(path))

    # lookup helpers hand out the stored cell
    for path, expect in (
        ("bytecode::context::Ctx::load_variable", ["bytecode::stack::Stack::find_name"]),
        ("bytecode::context::Ctx::load_local", ["bytecode::stack::Stack::find_name_in_function"]),
        ("bytecode::stack::Stack::find_name_in_function", ["bytecode::stack::VariableMapping::get"]),
        ("bytecode::context::Ctx::load_callback_variable", ["bytecode::stack::VariableMapping::get"]),
        ("bytecode::stack::Stack::find_name", ["bytecode::stack::VariableMapping::get"]),
        ("bytecode::stack::VariableMapping::get", ["std::collections::hash::map::HashMap::get"]),
    ):
        f = need(F, path)
        # Some/Ok payload or the returned Option itself
        locs = []
        for bi, si, dst, rv, s in f.assigns():
            if dst["l"] == 0 and not dst.get("p") and "agg" in rv and rv["agg"].get("v") in ("Some", "Ok") and rv["ops"]:
                locs.append(op_local(rv["ops"][0]))
        if not locs:
            locs = [0]
        for l in locs:
            origin_ok(rep, "C07.capture-aliases", "%s returns the stored cell" % mir.short(path), f, l, expect)

    # ---- (c) ---------------------------------------------------------------------
    up = need(F, "bytecode::stack::VariableMapping::update")
    sp = up.calls_to("bytecode::stack::PrimitiveFlagsPair::set_primitive")
    bad = [c for c in up.calls() if c.matches(("std::collections::hash::map::HashMap::insert", "bytecode::stack::PrimitiveFlagsPair::new",
                                               "std::collections::hash::map::HashMap::entry", "std::collections::hash::map::HashMap::remove"))]
    okret = [bi for bi, si, dst, rv, s in up.assigns() if dst["l"] == 0 and "agg" in rv and rv["agg"].get("v") == "Ok"]
    dom = bool(sp) and all(rules.call_dominates(up, sp, b) for b in okret) and bool(okret)
    rep.ob("C07.write-through", "VariableMapping::update writes through the existing cell (set_primitive on every Ok path, no insert)",
           "ok" if dom and not bad else "violated", "inserting calls: %s" % [mir.short(c.callee()) for c in bad], up.span, fn=up.path)
    for c in sp:
        origin_ok(rep, "C07.write-through", "VariableMapping::update: the cell written is the one mapped to the name", up, op_local(c.args[0]),
                  ["std::collections::hash::map::HashMap::get"], where=c.span)
        o = rules.trace_paths(up, op_local(c.args[1]), transparent=set())
        rep.ob("C07.write-through", "VariableMapping::update stores the given value", "ok" if o == {(("arg", 3), ())} else "violated",
               "value derives from %s" % sorted(str(x) for x in o), c.span, fn=up.path)
    # read-only respected
    cu = up.calls_to("bytecode::stack::VariableFlags::can_update")
    if cu and sp:
        verdict, info = rules.guarded_by_bool(up, [c.bb for c in sp], [c.dst["l"] for c in cu], want=True)
        rep.ob("C07.write-through", "VariableMapping::update refuses read-only cells", verdict, str(info), up.span, fn=up.path)

    rv_ = need(F, "bytecode::stack::Stack::register_variable_flags")
    gets = rv_.calls_to("bytecode::stack::VariableMapping::get")
    rep.floor("C07.register_variable_flags lookups", len(gets), 1)
    sps = rv_.calls_to("bytecode::stack::PrimitiveFlagsPair::set_primitive")
    locals_ = rv_.calls_to("bytecode::stack::Stack::register_variable_local")
    for g in gets:
        sw = rules.find_discr_switch(rv_, g.target, g.dst["l"])
        if sw is None:
            rep.ob("C07.write-through", "register_variable_flags: lookup result is matched", "undecided", "", g.span, fn=rv_.path)
            continue
        some_t = _cells.variant_edge(rv_, sw, 1)
        none_t = _cells.variant_edge(rv_, sw, 0)
        found = rv_.reachable(some_t, removed_edges={(sw, none_t)}, removed_blocks={g.bb})
        fresh = [c for c in locals_ if c.bb in found]
        okw = [bi for bi, si, dst, rv, s in rv_.assigns() if bi in found and dst["l"] == 0 and "agg" in rv and rv["agg"].get("v") == "Ok"]
        through = bool(okw) and all(b not in rv_.reachable(some_t, removed_blocks={c.bb for c in sps} | {g.bb}) for b in okw)
        rep.ob("C07.write-through", "register_variable_flags: an existing variable is updated in place (set_primitive), never re-declared",
               "ok" if through and not fresh else "violated",
               "found-branch can create a fresh cell" if fresh else ("Ok reachable without set_primitive" if not through else ""), g.span, fn=rv_.path)
        for c in sps:
            origin_ok(rep, "C07.write-through", "register_variable_flags: the cell written is the one found", rv_, op_local(c.args[0]),
                      ["bytecode::stack::VariableMapping::get"], where=c.span)
    so = need(F, "bytecode::instruction::implementations::store_object")
    uc = so.calls_to("bytecode::context::Ctx::update_callback_variable")
    okret = [bi for bi, si, dst, rv, s in so.assigns() if dst["l"] == 0 and "agg" in rv and rv["agg"].get("v") == "Ok"]
    ok = bool(uc) and bool(okret) and all(rules.call_dominates(so, uc, b) for b in okret)
    rep.ob("C07.write-through", "store_object (modify) reaches Ctx::update_callback_variable on every Ok path", "ok" if ok else "violated", "", so.span, fn=so.path)
    for c in uc:
        origin_ok(rep, "C07.write-through", "store_object stores the popped operand", so, op_local(c.args[2]),
                  ["bytecode::context::Ctx::pop"], transparent=PASS | {"bytecode::variables::primitive::Primitive::move_out_of_heap_primitive"}, where=c.span)
    ucv = need(F, "bytecode::context::Ctx::update_callback_variable")
    ups = ucv.calls_to("bytecode::stack::VariableMapping::update")
    ok = len(ups) == 1 and rules.trace_paths(ucv, op_local(ups[0].args[0]), transparent=PASS) == {(("arg", 1), ("callback_state", "@Some", "0"))}
    rep.ob("C07.write-through", "update_callback_variable updates the closure's own capture map", "ok" if ok else "violated",
           "receiver: %s" % (sorted(str(x) for x in rules.trace_paths(ucv, op_local(ups[0].args[0]), transparent=PASS)) if ups else "none"), ucv.span, fn=ucv.path)
    # plain `x = ..` never reaches the capture map: Stack methods cannot see Ctx.callback_state (type-level); store -> register_variable
    st = need(F, "bytecode::instruction::implementations::store")
    rep.ob("C07.write-through", "store (plain assignment) does not touch the capture map",
           "ok" if not st.calls_to("bytecode::context::Ctx::update_callback_variable") and st.calls_to("bytecode::context::Ctx::register_variable") else "violated",
           "", st.span, fn=st.path)

    # ---- (d) ---------------------------------------------------------------------
    ex = need(F, "bytecode::stack::Stack::extend")
    frames = agg_sites(ex, "bytecode::stack::StackFrame")
    rep.floor("C07.Stack::extend frame constructions", len(frames), 1)
    sf = F.adt("bytecode::stack::StackFrame")
    vi = [i for i, f in enumerate(sf["variants"][0]["fields"]) if f["name"] == "variables"][0]
    for bi, si, dst, rv, s in frames:
        origin_ok(rep, "C07.fresh-frame", "Stack::extend: a new frame starts with an empty variable mapping", ex, op_local(rv["ops"][vi]),
                  ["core::default::Default::default"], where=s.get("sp"))
    run_ = need(F, "bytecode::function::Function::run")
    exts = run_.calls_to("bytecode::stack::Stack::extend")
    handlers = [c for c in run_.calls() if c.callee().startswith("bytecode::instruction::implementations::")]
    ok = bool(exts) and all(rules.call_dominates(run_, exts, c.bb) for c in handlers) and len(handlers) > 40
    rep.ob("C07.fresh-frame", "Function::run pushes a frame before any instruction executes", "ok" if ok else "violated", "", run_.span, fn=run_.path)

    # ---- (a') capture depth ordering ------------------------------------------------
    from props import _netdeps
    _netdeps.run(F, rep, "C07.net-dependencies")
    _netdeps.cycle_boundary(F, rep, "C07.cycle-boundary")
    fresh_activation(F, rep)
    parameters_supply_their_own_function_only(F, rep)
    from props import _depfilter
    _depfilter.run(F, rep, "C07")
    fresh_cell_for_new_names_only(F, rep)
    every_dependency_is_captured(F, rep)
    written_registers_are_reserved(F, rep)
    supply_matching(F, rep)
    from props import C10 as _c10x
    _c10x.existence_is_asked_function_wide(F, rep, rule="C07.fresh-cell")
    modify_targets_a_capture(F, rep)
    cell_writes_only_by_assignments(F, rep)
    captured_values_keep_their_kind(F, rep)

    # ---- (a) ---------------------------------------------------------------------
    if _visit is not None:
        _visit.run(F, rep, "C07.visit")
        _visit.deep(F, rep, "C07.visit-deep")
    capture_lists_are_complete(F, rep)
    modify_depends_on_the_declared_variable(F, rep)
    fields_supply_no_variable(F, rep)
    declarations_supply_what_follows(F, rep)
    # which variable a statement writes is decided by the instruction it is compiled to (`store`: the function's own variable, made if need be;
    # `store_object`: the captured cell; `bin_op_assign`: whatever the name resolves to, captured cells included): a statement compiled to
    # another name-writing instruction than its form's changes which variable is written.  Every emission site is in the table of known forms
    # (shared with C10).
    from props import C10 as _c10
    _c10.write_forms(F, rep, ctx.rules("const_forms.json"), "C07.write-forms")



def capture_lists_are_complete(F, rep, rule="C07.capture-list"):
    """The names after the label of a `make_function` instruction are what the function value captures when it is made; a name that is missing
    is looked up in the callers' frames when the body runs (wrong variable, or none).  Each emitter of MAKE_FUNCTION that asks for the net
    dependencies of its node must put all of them on the list: between `net_dependencies()` and the insertion into the list no iterator
    adapter drops elements (filter / skip / take / step_by ...), in the emitter or its closures."""
    import opcodes
    DROPPING = re.compile(r"::(filter|filter_map|skip|skip_while|take|take_while|step_by|map_while|nth|find|find_map|retain|truncate|dedup\w*|drain|pop|remove|swap_remove|split_off)$")
    emitters = []
    for f, k, sp in opcodes.id_const_uses(F):
        if k.get("named", "").endswith("::MAKE_FUNCTION") and f not in emitters:
            emitters.append(f)
    rep.floor(rule + " emitters of make_function", len(emitters), 3)
    for f in emitters:
        owner = mir.short(re.sub(r"::\{closure#\d+\}", "", f.path))
        nd = [c for c in f.calls() if c.callee().endswith("::net_dependencies")]
        if not nd:
            rep.ob(rule, "%s lists the captured names of the function it makes" % owner, "exempt", "emits make_function without dependencies of its own (class body)", f.span,
                   fn=f.path, key="%s|%s" % (rule, owner))
            continue
        bad = []
        for g in [f] + F.closures_of(f):
            for c in g.calls():
                nm = mir.strip_generics(c.callee())
                ga = " ".join(c.t["func"].get("ga") or []) + " " + (c.t["func"].get("res") or "") + " " + c.callee()
                if DROPPING.search(nm) and "Dependency" in ga:
                    bad.append((mir.short(nm), c.span))
        rep.ob(rule, "%s lists every net dependency of the function it makes" % owner, "violated" if bad else "ok",
               ("dependencies are dropped on the way to the list (%s): a variable used only by a function nested in this one is not captured, and is then looked up in "
                "the callers' frames" % sorted({b[0] for b in bad})) if bad else "", bad[0][1] if bad else f.span, fn=f.path, key="%s|%s" % (rule, owner))


def modify_depends_on_the_declared_variable(F, rep, rule="C07.modify-target"):
    """`modify x = v` makes the enclosing function depend on the captured `x`.  Dependencies are cancelled against the owner's declaration by name
    *and type*: if the dependency carried the type of the stored value (`int`) while the variable was declared `int?`, it would not be
    cancelled, leak out of the owner, and the owner itself would be made with `x` on its capture list (`x is not in scope` when the module
    loads).  Parser::assignment therefore gives the target of a `modify` the type of the previous binding (wrapped as a captured variable)."""
    pa = F.fn("compiler::ast::assignment::<impl compiler::parser::Parser>::assignment") or F.fn("compiler::parser::Parser::assignment")
    if pa is None:
        raise AnchorMissing("Parser::assignment")
    sets = pa.calls_to("compiler::ast::ident::Ident::set_type_no_link")
    thr = rules.TRANSPARENT | {rules.TRY_BRANCH, "core::option::Option::unwrap", "core::result::Result::unwrap", "core::clone::Clone::clone", "alloc::boxed::Box::new",
                               "compiler::ast::r#type::TypeLayout::disregard_distractors", "compiler::ast::r#type::TypeLayout::get_type_recursively",
                               "alloc::borrow::ToOwned::to_owned", "alloc::borrow::Cow::into_owned", "core::ops::deref::Deref::deref", "core::convert::AsRef::as_ref"}

    def leaves(l, depth=0, seen=None):
        seen = set() if seen is None else seen
        out = set()
        for o in (rules.origins(pa, l, transparent=thr) if l is not None else ()):
            if o[0] == "call":
                out |= {c.callee() for c in pa.calls() if c.bb == o[1]}
            elif o[0] == "agg" and depth < 6 and o not in seen:
                seen.add(o)
                for bi, si, dst, rv, st in pa.assigns():
                    if (bi, si) == (o[1], o[2]):
                        out.add("agg:" + str(rv["agg"].get("v")))
                        for x in rv["ops"]:
                            out |= leaves(op_local(x), depth + 1, seen)
        return out
    ok = False
    detail = "no Ident::set_type_no_link in Parser::assignment"
    for c in sets:
        lv = leaves(op_local(c.args[1]) if len(c.args) > 1 else None)
        if "agg:CallbackVariable" in lv and any(x.endswith("ident::Ident::ty") for x in lv):
            ok = True
        else:
            detail = "the type given to the target derives from %s" % sorted(lv)[:5]
    rep.ob(rule, "the target of `modify` carries the declared type of the captured variable (not the type of the stored value)", "ok" if ok else "violated",
           "" if ok else detail + ": `x: int? = nil` / `set = fn() { modify x = 5 }` leaks a dependency on an `int` x out of the owner, which then fails to load",
           pa.span, fn=pa.path, key=rule + "|declared-type")


def fields_supply_no_variable(F, rep, rule="C07.field-supply"):
    """Inside a method a bare name is a variable of the enclosing scopes (fields are reached through `self`; the type checker resolves
    `count` to the module's `count`, or to nothing).  The dependency walk has to agree: a field must not cancel a method's dependency on a
    variable that happens to have the field's name, or the method is made without capturing it and reads whatever variable of that name the
    *callers* have.  MemberVariable supplies no identifier (it has no `supplies` of its own, or one that builds no Dependency)."""
    DEP = "compiler::ast::Dependencies"
    found = None
    for i in F.crates["compiler"].impls:
        if i.get("trait") == DEP and mir.strip_generics(i["self"]).endswith("member_variable::MemberVariable"):
            found = i
    if found is None:
        raise AnchorMissing("impl Dependencies for MemberVariable")
    sup = [x for x in found["items"] if x.endswith("::supplies")]
    bad = False
    for pth in sup:
        g = F.fn(pth)
        if g is None or any(c.callee().endswith("Dependency::new") or c.callee().endswith("Dependency::<'a>::new") for c in g.calls()):
            bad = True
    rep.ob(rule, "a class field supplies no variable to the methods of its class", "violated" if bad else "ok",
           "MemberVariable::supplies builds a Dependency for the field's name: with `count = 100` at module level and a field `count`, a method that returns `count` "
           "reads the `count` of whoever constructs the object" if bad else "", None, fn=(sup[0] if sup else found["self"]), key=rule)


def declarations_supply_what_follows(F, rep, rule="C07.supply-order"):
    """The type checker reads a block top to bottom: a name used before the block declares it is the variable of an enclosing scope.  The
    dependency walk has to read it the same way - a declaration cancels the dependencies of the statements after it, not of those before -
    or `h = fn() -> int { return x }` followed by `x = 3` makes the enclosing function forget that h needs the outer `x`.  The two
    entry points of Block (as a function body: net_dependencies; as an if / loop body: net_dependencies_within_function) must not go
    through the order-blind `get_net_dependencies` (all dependencies minus all supplies), and the function they share walks the
    statements asking each for its net dependencies and its supplies."""
    BLIND = "compiler::ast::get_net_dependencies"
    entries = [g for g in F.crates["compiler"].fns if g.kind != "Closure" and (
        g.path.endswith("function_body::Block as compiler::ast::Dependencies>::net_dependencies") or g.path.endswith("function_body::Block::net_dependencies_within_function"))]
    rep.floor(rule + " entry points of Block's dependency computation", len(entries), 2)
    for e in entries:
        reach, work = [e], [e]
        for _ in range(2):
            nxt = []
            for g in work:
                for c in g.calls():
                    h = F.fn(c.callee())
                    if h is not None and h.path.startswith(("compiler::ast::function_body::", "<compiler::ast::function_body::")) and h not in reach:
                        reach.append(h)
                        nxt.append(h)
            work = nxt
        blind = [g for g in reach if g.calls_to(BLIND)]
        walks = [g for g in reach if any(c.callee().endswith("::supplies") for c in g.calls())
                 and any(c.callee().endswith(("::net_dependencies", "::dependencies")) for c in g.calls())]
        ok = not blind and bool(walks)
        rep.ob(rule, "%s: a declaration cancels the dependencies of the statements that follow it only" % mir.short(e.path), "ok" if ok else "violated",
               "" if ok else ("goes through get_net_dependencies (every dependency of the block minus every supply of the block): `g = fn() { h = fn() -> int { return x } / x = 3 / return h }` "
                              "inside a function that has `x` does not capture `x`, and fails with `x is not in scope` once that function has returned"),
               e.span, fn=e.path, key="%s|%s" % (rule, mir.short(e.path)))

    # what one statement is asked for.  (1) its dependencies *without* its own supplies taken off: the initializer of `hits = apply(fn() { modify hits = .. })`
    # means the `hits` of an enclosing scope (the type checker binds it there: the new name does not exist yet); a statement-level
    # "dependencies minus supplies" (the trait's default net_dependencies = get_net_dependencies) forgets it, and the closure is built from whatever
    # the *callers'* frames hold under that name.
    walkers = []
    for g in F.crates["compiler"].fns:
        if g.kind == "Closure" or not g.path.startswith(("compiler::ast::function_body::", "<compiler::ast::function_body::")):
            continue
        def on_statement(c):
            return "Declaration" in c.callee() or any("declaration::Declaration" in x for x in (c.t["func"].get("ga") or []))
        sup = [c for c in g.calls() if c.callee().endswith("::supplies") and on_statement(c)]
        dep = [c for c in g.calls() if c.callee().endswith(("::net_dependencies", "::dependencies")) and on_statement(c)]
        if sup and dep:
            walkers.append((g, dep))
    rep.floor(rule + " statement walks (ask each statement for dependencies and supplies)", len(walkers), 1)
    for g, dep in walkers:
        bad = []
        for c in dep:
            h = F.fn(c.callee())
            if c.callee().endswith("::net_dependencies") and (h is None or h.calls_to(BLIND)):
                bad.append(mir.short(c.callee()))
        rep.ob(rule, "%s: a declaration does not cancel what its own initializer needs" % mir.short(g.path), "violated" if bad else "ok",
               ("each statement is asked through %s, which is the default `dependencies minus supplies`: in `record = fn() { hits = apply(fn() { modify hits = hits + 1 }) }` "
                "the closure's `hits` (the enclosing scope's, says the type checker) is cancelled by the declaration it initialises; make_function then binds whatever a "
                "caller's frame holds under that name - a caller's `const hits` is overwritten" % bad) if bad else "", g.span, fn=g.path,
               key="%s|own-initializer|%s" % (rule, mir.short(g.path)))
    # (2) supplies that outlive the statement: the counter of a `from` loop, like anything declared inside an if / while body, is gone when the statement
    # ends (the type checker refuses `print i` after the loop), so the statement-level supplies of those forms are empty
    ds = [g for g in F.crates["compiler"].fns if g.path.endswith("declaration::Declaration as compiler::ast::Dependencies>::supplies")]
    if len(ds) != 1:
        raise AnchorMissing("<Declaration as Dependencies>::supplies")
    ds = ds[0]
    scoped = ("NumberLoop", "WhileLoop", "IfStatement")
    leaks = sorted({mir.short(c.callee()) for c in ds.calls() if c.callee().endswith("::supplies") and any(("::%s as " % x) in c.callee() for x in scoped)
                    and F.fn(c.callee()) is not None})
    rep.ob(rule, "Declaration::supplies: a statement with a scope of its own (from / while / if) supplies nothing to the statements after it",
           "violated" if leaks else "ok",
           ("%s is handed on: after `from 0 to 3, hits { }` a closure's `modify hits = ..` (the enclosing scope's `hits`: the counter is out of scope) "
            "is cancelled by the counter, and the closure is built from a caller's frame" % leaks) if leaks else "", ds.span, fn=ds.path,
           key=rule + "|scoped-supplies")


def supply_matching(F, rep, rule="C07.supply-match"):
    """Dependency::eq_allow_callbacks answers whether a supplied name cancels a needed one.  The target of `modify x = ..` is needed as
    CallbackVariable(T): it names the variable of an *enclosing* function.  A plain local `x: T` of the function the statement stands in is not that
    variable (cycles_needed == 0: the dependency has not crossed a function boundary) - cancelling it drops x from the function's captures and
    `store_object` fails ("this function is not a callback"); once the dependency has left its function (cycles_needed > 0) the owner's `x: T` is
    exactly what it means.  Decided by evaluating the predicate on concrete supplies / dependencies."""
    import tables
    from props import _hashkeys
    from absint import Interp, Variant, Opaque, Int, Str, some
    f = F.fn("compiler::ast::Dependency::eq_allow_callbacks")
    ia, da = F.adt("compiler::ast::ident::Ident"), F.adt("compiler::ast::Dependency")
    if f is None or ia is None or da is None:
        raise AnchorMissing("Dependency::eq_allow_callbacks / Ident / Dependency")
    ty = _hashkeys.Types(F)

    def ident(t, tag, name):
        fields = []
        for fl in ia["variants"][0]["fields"]:
            if fl["name"] == "name":
                fields.append(Str(name))
            elif "TypeLayout" in fl["ty"] and fl["ty"].startswith("core::option::Option<"):
                fields.append(some(ty.owned(ty.build(t, tag))))
            else:
                fields.append(Opaque(tag + "." + fl["name"]))
        return Variant("compiler::ast::ident::Ident", 0, ia["variants"][0]["name"], fields)

    def dep(t, cycles, tag, name="x"):
        vals = {"ident": Variant("alloc::borrow::Cow", 1, "Owned", [ident(t, tag, name)]), "cycles_needed": Int(cycles, "usize")}
        return Variant("compiler::ast::Dependency", 0, da["variants"][0]["name"], [vals[x["name"]] for x in da["variants"][0]["fields"]])
    CB = ("Cb", "Int")
    rows = [("a local `x: int` and the target of `modify x` in the same function", "Int", CB, 0, "x", False),
            ("the owner's `x: int` and the target of `modify x` of an inner function", "Int", CB, 1, "x", True),
            ("`x: int` and a plain use of `x: int`", "Int", "Int", 0, "x", True),
            ("`x: int` and the target of `modify x` where x is a str", "Int", ("Cb", "Str"), 1, "x", False),
            ("`x: int` and a use of `y: int`", "Int", "Int", 0, "y", False)]
    n = 0
    for label, st, dt, cyc, dname, want in rows:
        ms_ = dict(tables.MODELS)
        ms_.update(_hashkeys._iter_models())
        it = Interp(F, models=ms_, max_depth=8, max_paths=512, loop_bound=8)
        key = "%s|%s|%s|%d|%s" % (rule, _hashkeys.show(st), _hashkeys.show(dt) if not isinstance(dt, tuple) or dt[0] != "Cb" else "captured " + _hashkeys.show(dt[1]), cyc, dname)
        try:
            outs = it.run(f, [dep(st, 0, "s"), dep(dt, cyc, "d", dname)])
            got = set()
            for o in outs:
                v = o.value
                if o.kind == "return" and isinstance(v, Variant) and v.name == "Ok" and hasattr(v.fields[0], "v"):
                    got.add(bool(v.fields[0].v))
                else:
                    got.add("?")
        except (ValueError, KeyError):
            got = {"?"}
        inst = "supply / dependency: %s -> %s" % (label, "cancels" if want else "does not cancel")
        if it.exhausted or "?" in got or len(got) != 1:
            rep.ob(rule, inst, "undecided", "not evaluated: %s" % sorted(map(str, got)), f.span, fn=f.path, key=key)
            continue
        n += 1
        g = got.pop()
        rep.ob(rule, inst, "ok" if g == want else "violated",
               "" if g == want else ("eq_allow_callbacks answers %s: `reset = fn() { x = 0  modify x = 5 }` no longer captures the outer x - store_object fails at run time, "
                                     "the owner never sees the update" % g), f.span, fn=f.path, key=key)
    rep.floor(rule + " evaluations", n, 4)


RESERVED = []
NAMED = []


def every_dependency_is_captured(F, rep, rule="C07.captures-complete"):
    """make_function builds the closure's cells from the names the compiler lists; a name that is left out is resolved at run time by a search of the
    *callers'* frames (Ctx::load_variable) - dynamic scope.  So Function::in_place_compile_for_value lists every net dependency of the function: in its
    loop over net_dependencies() each item reaches the insertion into the set of captured names; no `continue` / filter skips one ("a primitive
    const cannot change, load finds it by name" finds a caller's variable of that name)."""
    g = F.fn("compiler::ast::function::Function::in_place_compile_for_value")
    if g is None:
        raise AnchorMissing("Function::in_place_compile_for_value")
    nd = g.calls_to("compiler::ast::Dependencies::net_dependencies")
    if not nd:
        raise AnchorMissing("net_dependencies() in in_place_compile_for_value")
    der = g.derived([c.dst["l"] for c in nd], through_call=lambda c, idx: True if 0 in idx else None)
    heads = [c for c in g.calls() if c.matches("core::iter::traits::iterator::Iterator::next") and c.args and op_local(c.args[0]) in der]
    ins = {c.bb for c in g.calls() if mir.short(c.callee()).endswith(("HashSet::insert", "Vec::push", "BTreeSet::insert", "HashMap::insert"))}
    if len(heads) != 1 or not ins:
        rep.ob(rule, "the loop that lists the captured names", "undecided", "%d loops over the dependencies, %d insertions" % (len(heads), len(ins)), g.span, fn=g.path, key=rule)
        rep.floor(rule + " decided", 0, 1)
        return
    h = heads[0]
    sw = rules.find_discr_switch(g, h.target, h.dst["l"])
    t = g.term(sw) if sw is not None else None
    some_t = dict(t["targets"]).get("1", t["otherwise"]) if t else None
    skipping = some_t is not None and h.bb in g.reachable(some_t, removed_blocks=ins)
    filtered = sorted({mir.short(c.callee()) for c in g.calls() if mir.strip_generics(c.callee()).endswith(("::filter", "::filter_map", "::skip", "::take", "::skip_while",
                                                                                                             "::take_while", "::retain")) and c.args and op_local(c.args[0]) in der})
    st = "violated" if (skipping or filtered) else "ok"
    rep.ob(rule, "Function::in_place_compile_for_value lists every net dependency as a captured name", st,
           "" if st == "ok" else ("an item of net_dependencies() can reach the next iteration without being inserted%s: the name is resolved at run time in the callers' "
                                  "frames - a closure called after its owner returned, or from a deeper recursion of it, reads another variable of that name"
                                  % ((" (adaptors %s)" % filtered) if filtered else "")), h.span, fn=g.path, key=rule)
    rep.floor(rule + " decided", 1, 1)


def expression_values_wait_in_registers(F, rep, rule="C15.parked"):
    """(collected while fresh_cell_for_new_names_only walks the store_fast emissions)  Inside an expression a value that waits for its siblings - an
    argument of a call, the receiver of a method, the left operand - waits in a temporary register the counter handed out; a slot that is merely
    *named* (a string made from a register's number) is nobody's: two nested calls that draw the same base write the same `#k.0`."""
    EXPR_GENERATORS = ("callable::Callable", "math_expr::compile_depth", "dot_lookup::DotLookupOption", "math_expr::Expr as compiler::ast::Compile",
                       "list::List", "value::Value as compiler::ast::Compile", "map::", "function_arguments::")
    bad = sorted({(mir.short(f.path), str(span), ty.split("::")[-1]) for f, span, ty in NAMED if any(x in f.path for x in EXPR_GENERATORS)})
    n = len({(f.path, str(span)) for f, span, made in RESERVED if any(x in f.path for x in EXPR_GENERATORS)})
    rep.ob(rule, "expression generators park waiting values in counter-backed temporary registers only", "violated" if bad else "ok",
           ("store_fast with an operand that is not a TemporaryRegister: %s - `self(a, self(b, c))`: the inner call's first slot is the outer call's" % bad[:3]) if bad
           else "%d register writes in expression generators" % n, None, fn="compiler::ast", key=rule + "|register-kind")
    rep.floor(rule + " register writes in expression generators", n, 5)
    del NAMED[:]


def written_registers_are_reserved(F, rep, rule="C07.fresh-cell"):
    """(collected while fresh_cell_for_new_names_only walks the store_fast emissions)"""
    seen = set()
    n = 0
    for f, span, made in RESERVED:
        k = (f.path, span)
        if k in seen:
            continue
        seen.add(k)
        n += 1
        rep.ob(rule, "%s writes a temporary register that was reserved from the counter" % mir.short(f.path), "violated" if made else "ok",
               ("the register comes from %s: nothing keeps another live value out of that slot (`a.deposit(b.amount(), 2)`: the inner call's receiver overwrites "
                "the outer one, and the outer method runs on the wrong object)" % made) if made else "", span, fn=f.path,
               key="%s|reserved-register|%s|%d" % (rule, mir.short(f.path), sum(1 for x in seen if x[0] == f.path)))
    rep.floor(rule + " store_fast emissions into temporary registers", n, 10)
    del RESERVED[:]


def fresh_cell_for_new_names_only(F, rep):
    """`store_fast n` binds the name n to a *new* cell in the current frame; a function that captured n earlier keeps the old cell and no longer
    sees what the owner assigns.  So wherever the compiler emits store_fast with an operand that can spell a program variable, the name must be
    one the statement introduces: the emission is reachable only where the AST node's own "this name already exists" flag is false (or the
    statement runs in a frame of its own: class body members).  The operand kinds are read from the type of the formatted expression, the
    flags from the node's bool fields."""
    import opcodes
    from collections import deque
    n = 0
    for f, name, span, c in opcodes.instruction_literals(F):
        if name != "store_fast" or c.target is None:
            continue
        # the operand expressions formatted into this instruction: (type, local of the value)
        dq, seen, ops, found = deque([c.target]), {c.target}, [], False
        while dq and not found:
            b = dq.popleft()
            blk = f.blocks[b]
            for s_ in blk["s"]:
                if "rv" in s_ and "agg" in s_["rv"] and s_["rv"]["agg"].get("adt") == "compiler::ast::CompiledItem" and s_["rv"]["agg"].get("v") == "Instruction":
                    found = True
                    break
            if found:
                break
            t = blk["t"]
            if t["k"] == "call":
                cal = t["func"].get("res") or t["func"].get("def") or ""
                if "ToString" in cal or "to_string" in cal:
                    ops.append(((t["func"].get("ga") or ["?"])[0], op_local(t["args"][0]) if t["args"] else None))
            for s2 in f.succs(b):
                if s2 not in seen:
                    seen.add(s2)
                    dq.append(s2)
        for ty, l in ops:
            if "TemporaryRegister" in ty and l is not None:
                # a register that is written is a register that was reserved: it comes from the counter (poll_temporary_register / _ghost), never from a
                # number the generator made up (TemporaryRegister::new_ghost_register reserves nothing: two live values can be given one slot)
                oc = rules.origin_calls(f, l, transparent=rules.TRANSPARENT | {rules.TRY_BRANCH, "core::option::Option::unwrap", "core::option::Option::expect"})
                made = sorted({mir.short(x.callee()) for x in oc if x.matches("compiler::ast::TemporaryRegister::new_ghost_register")})
                RESERVED.append((f, span, made))
                continue
            if "TemporaryRegister" in ty or "CompiledFunctionId" in ty:
                continue
            NAMED.append((f, span, ty))
            label = "%s emits store_fast <%s>" % (mir.short(f.path), ty.split("::")[-1])
            key = "C07.fresh-cell|%s|%s" % (mir.short(f.path), ty.split("::")[-1])
            n += 1
            if "NumberLoopRegister" in ty:
                oc = rules.origin_calls(f, l) if l is not None else []
                if oc and all(o.matches("compiler::ast::CompilationState::poll_loop_register") for o in oc):
                    rep.ob("C07.fresh-cell", label + ": a generated register", "ok", "never a program name", span, fn=f.path, key=key + "|generated")
                    continue
                # may be NumberLoopRegister::Named: the emission must sit on the `name already exists == false` side of the node's flag
                flags = []
                for bi, si, dst, rv, s_ in f.assigns():
                    pl = mir.op_place(rv.get("use")) if "use" in rv else None
                    if pl and pl["l"] == 1 and f.locals[dst["l"]] == "bool" and any(e[0] == "field" and "collision" in str(e[2]) for e in pl.get("p", [])):
                        flags.append(dst["l"])
                if not flags:
                    rep.ob("C07.fresh-cell", label + " only for a counter name that is new", "violated",
                           "the counter may be a variable that already exists (the parser records it in name_is_collision) and the emission does not "
                           "look at that flag: `i = 100; read = fn() -> int { return i }; from 0 to 3, i {}; i = 42; read()` gives 100", span, fn=f.path, key=key)
                    continue
                v, info = rules.guarded_by_bool(f, [c.bb], flags, want=False)
                rep.ob("C07.fresh-cell", label + " only for a counter name that is new", v,
                       "" if v == "ok" else "the store_fast of the counter is reachable while name_is_collision is true: the existing variable's cell is "
                       "replaced and a function that captured it stops seeing the owner's assignments (%s)" % info, span, fn=f.path, key=key)
            else:
                # a plain name: allowed only where the statement runs in a frame of its own
                own_frame = f.path.startswith("<compiler::ast::class::member_variable::MemberVariable as")
                if f.path.startswith("<compiler::ast::class::Class as"):
                    # the name of a class declared inside of a function: new in its block, because Parser::class refuses a name the block has already
                    pc = F.fn("compiler::ast::class::<impl compiler::parser::Parser>::class") or F.fn("compiler::parser::Parser::class")
                    fresh = False
                    if pc is not None:
                        looks = pc.calls_to("compiler::parser::AssocFileData::get_ident_from_name_local")
                        removed = set()
                        for bb, base, targets, other in rules.discr_switches(pc, pc.derived([c2.dst["l"] for c2 in looks])):
                            removed.add((bb, targets.get("0", other)))          # the `None` edge: the name is new
                        fresh = bool(removed) and not (set(rules.ok_return_blocks(pc)) & pc.reachable(0, removed_edges=removed))
                    rep.ob("C07.fresh-cell", label + " only for a class name that is new in its block", "ok" if fresh else "violated",
                           "" if fresh else "Parser::class does not refuse a name the block already has: the class would replace that variable's cell", span, fn=f.path, key=key)
                    continue
                rep.ob("C07.fresh-cell", label + " in a frame of its own", "ok" if own_frame else "undecided",
                       "class members are stored into the fresh class-body frame during construction" if own_frame else
                       "a store_fast of a program name outside the forms this rule knows", span, fn=f.path, key=key)
    rep.floor("C07.fresh-cell store_fast emissions with a nameable operand", n, 3)



def modify_targets_a_capture(F, rep):
    """`modify x = v` is compiled to store_object, which writes into the variables the running function captured and fails in any other
    function.  The name lookup that accepts the statement (`get_dependency_flags_from_name_skip_n`) answers two things: the identifier and
    whether a function boundary was crossed to find it.  The statement may be accepted only on the `crossed` side: the second component of
    the answer is tested and its false edge does not reach an Ok return."""
    f = F.fn("compiler::ast::assignment::Assignment::can_modify_if_applicable")
    if f is None:
        raise AnchorMissing("Assignment::can_modify_if_applicable")
    looks = f.calls_to("compiler::parser::AssocFileData::get_dependency_flags_from_name_skip_n")
    if not looks:
        rep.ob("C07.modify-target", "`modify` is accepted only for a name found beyond a function boundary", "undecided",
               "the lookup in can_modify_if_applicable is no longer get_dependency_flags_from_name_skip_n", f.span, fn=f.path, key="C07.modify-target")
        return
    # locals holding component .1 (bool) of the looked-up pair
    flags = []
    for bi, si, dst, rv, s_ in f.assigns():
        pl = mir.op_place(rv.get("use")) if "use" in rv else None
        if pl and f.locals[dst["l"]] == "bool" and pl.get("p") and pl["p"][-1][0] == "field" and pl["p"][-1][1] == 1:
            oc = rules.origin_calls(f, pl["l"], transparent=rules.TRANSPARENT | {rules.TRY_BRANCH, "anyhow::Context::context", "anyhow::Context::with_context"})
            if any(o in looks for o in oc) or any(o.bb in {c.bb for c in looks} for o in oc):
                flags.append(dst["l"])
    if not flags:
        rep.ob("C07.modify-target", "`modify` is accepted only for a name found beyond a function boundary", "violated",
               "the lookup's `found beyond a function boundary` answer is discarded: `f = fn() { t = 0  if true { modify t = 1 } }` is accepted and "
               "store_object fails at run time (`this function is not a callback`)", looks[0].span, fn=f.path, key="C07.modify-target")
        return
    # Ok returns reachable after the lookup while the flag is false
    oks = [b for b in rules.ok_return_blocks(f) if any(b in f.reachable(c.target) for c in looks if c.target is not None)]
    v, info = rules.guarded_by_bool(f, oks, flags, want=True)
    rep.ob("C07.modify-target", "`modify` is accepted only for a name found beyond a function boundary", v,
           "" if v == "ok" else "an Ok answer is reachable although the name was found inside the current function (%s)" % info, looks[0].span, fn=f.path,
           key="C07.modify-target")



def cell_writes_only_by_assignments(F, rep):
    """A captured variable is the cell itself, so its value changes exactly when the program assigns to it.  In the interpreter the functions
    that write a cell in place (PrimitiveFlagsPair::set_primitive / set_flags / update_primitive) are therefore reachable from the dispatch
    loop and the call machinery only *through an instruction handler* (store, store_object, bin_op_assign, unwrap_into, ptr_mut, ...).  With
    the handlers cut out of the call graph nothing in Function::run / Program may reach a cell write - "clean-up" of a frame's cells on scope
    exit, say, would change what closures that captured them see."""
    fns = {f.path: f for f in F.crates["bytecode"].fns}
    adj = {}
    for pth, f in fns.items():
        out = set()
        for c in f.calls():
            for nm in [c.callee()] + sorted(c.names):
                if nm in fns:
                    out.add(nm)
        for g in F.closures_of(f):
            out.add(g.path)
        adj[pth] = out
    handlers = {p for p in fns if p.startswith("bytecode::instruction::implementations::")}
    targets = {p for p in fns if p.endswith(("PrimitiveFlagsPair::set_primitive", "PrimitiveFlagsPair::set_flags", "PrimitiveFlagsPair::update_primitive"))}
    if len(handlers) < 40 or not targets:
        raise AnchorMissing("instruction handlers / PrimitiveFlagsPair::set_primitive")
    roots = [p for p in fns if p.endswith(("function::Function::run", "interpreter::Program::process_jump_request", "interpreter::Program::execute",
                                           "interpreter::Program::process_standard_jump_request", "function::Functions::run_function", "file::MScriptFile::run_function"))]
    rep.floor("C07.cell-writes roots (dispatch loop and call machinery)", len(roots), 3)
    hits = []
    for root in roots:
        seen = {root}
        work = [(root, [root])]
        while work:
            x, path = work.pop()
            for y in sorted(adj.get(x, ())):
                if y in handlers:
                    continue
                if y in targets:
                    hits.append(path + [y])
                    continue
                if y not in seen:
                    seen.add(y)
                    work.append((y, path + [y]))
    short = sorted({" -> ".join(mir.short(x) for x in h) for h in hits}, key=len)
    rep.ob("C07.cell-writes", "outside the instruction handlers, the dispatch loop and the call machinery never write a variable cell in place",
           "violated" if hits else "ok", "; ".join(short[:2]) if hits else "%d handlers cut out, %d roots" % (len(handlers), len(roots)),
           None, fn="bytecode::function::Function::run", key="C07.cell-writes")



def captured_values_keep_their_kind(F, rep):
    """A function value "sees the variables of its defining scopes": a captured `int` is still an int for every question the type checker asks
    about it.  The compiler wraps a captured variable's type (`CallbackVariable(T)`), so each yes/no predicate of TypeLayout that decides what
    a value may be used for has to answer for the wrapped type what it answers for T.  The predicates are evaluated abstractly on T,
    `CallbackVariable(T)` and an alias of T for the kinds they are about."""
    from props import _hashkeys
    TY = _hashkeys.Types(F)
    preds = {"can_be_used_as_list_index": ["Int", "BigInt", "Str", "Float"], "is_float": ["Float", "Int"], "is_boolean": ["Bool", "Int"],
             "supports_negate": ["Int", "Float", "Bool", "Str"], "can_be_hashed": ["Int", "Str", "Map"]}
    n = 0
    for name, kinds in sorted(preds.items()):
        fn = F.fn("compiler::ast::r#type::TypeLayout::" + name)
        if fn is None or fn.argc != 1:
            continue
        bad, und = [], []
        for k in kinds:
            base = _hashkeys.eval_pred(F, fn, TY.build(k, "b"))
            # (type aliases are a different wrapper and no concern of this property: an alias of bool is refused as a condition today, captured or not)
            for wrap, label in ((("Cb", k), "captured %s" % k.lower()),):
                got = _hashkeys.eval_pred(F, fn, TY.build(wrap, "w"))
                n += 1
                if base is None or got is None:
                    und.append(label)
                elif got != base:
                    bad.append("%s(%s) is %s but %s(%s) is %s" % (name, k.lower(), base, name, label, got))
        rep.ob("C07.captured-kind", "TypeLayout::%s answers the same for a captured T as for T" % name,
               "violated" if bad else ("undecided" if und else "ok"), "; ".join((bad or und)[:3]), fn.span, fn=fn.path, key="C07.captured-kind|%s" % name)
    rep.floor("C07.captured-kind predicate evaluations", n, 10)


def fresh_activation(F, rep, rule="C07.fresh-activation"):
    """"Each execution of an enclosing function creates a fresh, independent set of variables for the closures it creates."  A function's variables
    live in the frame `Stack::extend` pushes at the top of `Function::run`, and its parameters and captures in the `Ctx` built for that run: an
    execution is fresh because it *is* a new `Function::run` with a new `Ctx`.  Two structural facts carry that: (1) inside `Function::run`
    the instruction pointer is set to a constant only where it is initialised - an assignment of a constant inside the dispatch loop starts
    the function over in the frame (and cells) of the execution before, which closures of that execution still hold; (2) the arguments and
    the captured variables of a `Ctx` are written by its constructor only."""
    f = F.fn("bytecode::function::Function::run")
    if f is None:
        raise AnchorMissing("Function::run")
    ips = [l for l, nm in f.names.items() if nm == "instruction_ptr"]
    if not ips:
        # the local that indexes the instruction slice
        for b in f.blocks:
            for st in b["s"]:
                rv = st.get("rv", {})
                pl = rv.get("ref") or (mir.op_place(rv.get("use")) if "use" in rv else None)
                for e in (pl or {}).get("p", []):
                    if e[0] == "index" and "Instruction" in f.locals[pl["l"]]:
                        ips.append(e[1])
    ips = sorted(set(ips))
    if not ips:
        rep.ob(rule, "Function::run: the instruction pointer is set to a constant only where it is initialised", "undecided", "no instruction pointer local found", f.span,
               fn=f.path, key=rule + "|no-restart")
    else:
        consts = [(bi, rv) for bi, si, dst, rv, s_ in f.assigns() if dst["l"] in ips and not dst.get("p") and "use" in rv and mir.op_const(rv["use"]) is not None]
        in_loop = [bi for bi, rv in consts if any(bi in f.reachable(sx) for sx in f.succs(bi))]
        rep.floor(rule + " constant initialisations of the instruction pointer", len(consts), 1)
        rep.ob(rule, "Function::run: the instruction pointer is set to a constant only where it is initialised (an execution of a function is a new run, in a new frame)",
               "violated" if in_loop else "ok",
               ("the instruction pointer is reset to a constant inside the dispatch loop (block %s): the function starts over in the frame of the execution before it, and the "
                "stores of the new round overwrite the cells closures of the earlier round captured" % in_loop) if in_loop else "", f.span, fn=f.path, key=rule + "|no-restart")
    a = F.adt("bytecode::context::Ctx")
    if a is None:
        raise AnchorMissing("Ctx")
    per_call = [x["name"] for x in a["variants"][0]["fields"] if x["name"] in ("args", "callback_state")]
    rep.floor(rule + " per-call fields of Ctx", len(per_call), 2)
    writers = []
    for g in F.crates["bytecode"].fns:
        for bi, si, dst, rv, s_ in g.assigns():
            for e in dst.get("p", []):
                if e[0] == "field" and len(e) > 2 and e[2] in per_call and "context::Ctx" in g.locals[dst["l"]] and e is [x for x in dst["p"] if x[0] == "field"][-1]:
                    writers.append((g, e[2], s_.get("sp")))
    rep.ob(rule, "the arguments and the captured variables of a Ctx are given to it when it is built and never replaced", "violated" if writers else "ok",
           ("%s assigns Ctx.%s: a context is handed to another call of the function, which then runs in the frame of the call before it"
            % (mir.short(writers[0][0].path), writers[0][1])) if writers else "", writers[0][2] if writers else None, fn=(writers[0][0].path if writers else f.path),
           key=rule + "|ctx-per-call")


def parameters_supply_their_own_function_only(F, rep, rule="C07.parameter-scope"):
    """A parameter is a variable of one function: it satisfies the uses inside that function's body and nothing else.  In the capture walk the
    parameters are the `supplies()` of the node that opens the function (Function, MemberFunction, Constructor), consumed by that node's own
    net_dependencies.  A node that merely *contains* functions must not pass their parameters on as its own supplies: a class body that
    supplies the parameters of all its methods lets method m1's parameter `n` cancel method m2's use of an outer variable `n` - the class
    then does not capture `n` and m2 reads whatever variable of that name the instantiating code has.  Who-may-reach over the call graph:
    `<FunctionParameters as Dependencies>::supplies` is reachable from the supplies() of function-opening nodes and of enums that dispatch to
    their variants, from no other node's supplies()."""
    import re
    fns = {f.path: f for f in F.crates["compiler"].fns}
    g0 = F.call_graph()
    target = [p for p in fns if re.search(r"FunctionParameters as compiler::ast::Dependencies>::supplies$", p)]
    if len(target) != 1:
        raise AnchorMissing("<FunctionParameters as Dependencies>::supplies")
    # node types whose code generator builds a function item
    opens_fn = set()
    for f in F.crates["compiler"].fns:
        owner = mir.strip_generics(f.d.get("impl_self") or "")
        m = re.match(r"<(compiler::[\w:#]+) as compiler::ast::Compile>::compile$", f.path)
        if m:
            owner = m.group(1)
        if not owner.startswith("compiler::"):
            continue
        for bi, si, dst, rv, s_ in f.assigns():
            if "agg" in rv and rv["agg"].get("adt", "").endswith("ast::CompiledItem") and rv["agg"].get("v") == "Function":
                opens_fn.add(owner)

    def reach(s0):
        seen, todo = {s0}, [s0]
        while todo:
            v = todo.pop()
            for w in g0.get(v, ()):
                for x in (w, getattr(F.fn(w), "path", None)):
                    if x in fns and x not in seen:
                        seen.add(x)
                        todo.append(x)
        return seen
    n = 0
    for p in sorted(fns):
        m = re.match(r"<(compiler::[\w:#]+) as compiler::ast::Dependencies>::supplies$", p)
        if not m or target[0] not in reach(p) or p == target[0]:
            continue
        t = m.group(1)
        a = F.adt(t)
        dispatcher = a is not None and len(a["variants"]) >= 2
        n += 1
        ok = t in opens_fn or dispatcher
        rep.ob(rule, "%s passes parameters on as supplies and is the function they belong to (or an enum that dispatches to it)" % mir.short(p), "ok" if ok else "violated",
               "" if ok else ("%s contains functions but is not one: the parameters of each of them become supplies of the whole node, so a parameter `n` of one method hides the "
                              "outer `n` another method (or the constructor) uses from the capture list of the class" % mir.short(t)), fns[p].span, fn=p,
               key="%s|%s" % (rule, mir.short(t)))
    rep.floor(rule + " supplies() that pass parameters on", n, 3)
