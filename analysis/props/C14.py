"""C14 — string and number built-ins: signatures and domain failures (partial by nature).

 (a) built-in signature agreement for string and numeric receivers;
 (b) no narrowing / saturating cast on a program value in the Str*/Generic*/Float* arms;
 (c) arithmetic on the narrow kind before widening is covered by overflow checks (profile condition of C05 c).
That `substring` returns the right substring etc. is not decided.
"""
import mir
import rules
from core import AnchorMissing
from props import _builtins, _strunits

try:
    from props import _casts
except ImportError:
    _casts = None


def run(ctx, rep):
    F = ctx.facts("default", ["bytecode", "compiler"])
    rep.explain("C14: declared signatures, run-time lookup and implementation arms of the string and number built-ins are read by abstract "
                "interpretation and compared; casts and narrow-kind arithmetic in the arms are inventoried on MIR.")
    rep.assume("the value each built-in computes (e.g. that substring returns the right substring) is not decided")
    _builtins.run(F, rep, "C14.builtin", "str+num")
    _strunits.run(F, rep)
    _strunits.strip_once(F, rep)
    _strunits.marker_radix(F, rep)
    domain_probes(F, rep)
    # `+` concatenation and `*` repetition are computed by the interpreter's operator implementations (text of a number = its value's, not its spelling's):
    # the folder hands back nothing but Numbers out of the compared operator tables
    from props import C06 as _c06
    _c06.only_table_operators_are_folded(F, rep, rule="C14.fold-scope")
    if _casts is not None:
        _casts.run_c14(F, rep)



def domain_probes(F, rep):
    """Integer-kind receivers of the conversion methods: inside the target's domain the method answers (no failure path), outside it fails (no
    value).  Each row is one evaluation of the method's arm of BuiltInFunction::run on a concrete receiver - the boundary values of the target
    and, for to_float, of the 53-bit mantissa (std's TryFrom, bit counts and checked_abs on known integers are modelled exactly)."""
    from absint import Int
    B = _builtins.Builtins(F)
    I32, I128, U8 = "i32", "i128", "u8"
    rows = [
        ("to_float", "GenericToFloat", "BigInt", 2**32, I128, "Float"), ("to_float", "GenericToFloat", "BigInt", -(2**32), I128, "Float"),
        ("to_float", "GenericToFloat", "BigInt", 2**53, I128, "Float"), ("to_float", "GenericToFloat", "BigInt", 2**53 + 1, I128, None),
        ("to_float", "GenericToFloat", "BigInt", -(2**127), I128, "Float"), ("to_float", "GenericToFloat", "BigInt", 2**127 - 1, I128, None),
        ("to_float", "GenericToFloat", "BigInt", 0, I128, "Float"), ("to_float", "GenericToFloat", "Int", -(2**31), I32, "Float"),
        ("to_int", "GenericToInt", "BigInt", 2**31 - 1, I128, "Int"), ("to_int", "GenericToInt", "BigInt", 2**31, I128, None),
        ("to_int", "GenericToInt", "BigInt", -(2**31), I128, "Int"), ("to_int", "GenericToInt", "BigInt", -(2**31) - 1, I128, None),
        ("to_int", "GenericToInt", "Byte", 255, U8, "Int"),
        ("to_byte", "GenericToByte", "Int", 255, I32, "Byte"), ("to_byte", "GenericToByte", "Int", 256, I32, None), ("to_byte", "GenericToByte", "Int", -1, I32, None),
        ("to_byte", "GenericToByte", "BigInt", 255, I128, "Byte"), ("to_byte", "GenericToByte", "BigInt", 2**40, I128, None),
        ("to_bigint", "GenericToBigint", "Int", -(2**31), I32, "BigInt"), ("to_bigint", "GenericToBigint", "Byte", 255, U8, "BigInt"),
        ("abs", "GenericAbs", "Int", -(2**31), I32, None), ("abs", "GenericAbs", "Int", -(2**31) + 1, I32, "Int"),
        ("abs", "GenericAbs", "BigInt", -(2**127), I128, None), ("abs", "GenericAbs", "BigInt", -(2**127) + 1, I128, "BigInt"),
        ("to_ascii", "ByteToAscii", "Byte", 65, U8, "Str"), ("to_ascii", "ByteToAscii", "Byte", 127, U8, "Str"),
        ("to_ascii", "ByteToAscii", "Byte", 128, U8, None), ("to_ascii", "ByteToAscii", "Byte", 200, U8, None),
    ]
    n = 0
    for meth, variant, kind, val, ty, want in rows:
        r = B.arm(variant, kind, Int(val, ty))
        n += 1
        key = "C14.domain|%s|%s|%d" % (meth, kind.lower(), val)
        inst = "%s(%d).%s() %s" % (kind.lower(), val, meth, ("is a %s" % want.lower()) if want else "fails")
        if r["undecided"] or r["panics"]:
            rep.ob("C14.domain", inst, "undecided" if not r["panics"] else "violated", "undecided: %s; panics: %d" % (r["undecided"][:2], r["panics"]), None,
                   fn="bytecode::function::BuiltInFunction::run", key=key)
            continue
        if want:
            ok = r["rets"] == {want} and r["errs"] == 0
            why = "" if ok else "in the domain of the target, but the arm %s" % ("fails" if r["errs"] else "returns %s" % sorted(r["rets"]))
        else:
            ok = not r["rets"] and r["errs"] > 0
            why = "" if ok else "outside the domain of the target, but the arm returns %s" % sorted(r["rets"])
        rep.ob("C14.domain", inst, "ok" if ok else "violated", why, None, fn="bytecode::function::BuiltInFunction::run", key=key)
    rep.floor("C14.domain probes", n, 20)
