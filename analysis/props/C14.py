"""C14 — string and number built-ins: signatures and domain failures (partial by nature).

 (a) built-in signature agreement for string and numeric receivers;
 (b) no narrowing / saturating cast on a program value in the Str*/Generic*/Float* arms;
 (c) arithmetic on the narrow kind before widening is covered by overflow checks (profile condition of C05 c).
That `substring` returns the right substring etc. is not decided.
"""
import mir
import rules
from core import AnchorMissing
from props import _builtins, _strunits

try:
    from props import _casts
except ImportError:
    _casts = None


def run(ctx, rep):
    F = ctx.facts("default", ["bytecode", "compiler"])
    rep.explain("C14: declared signatures, run-time lookup and implementation arms of the string and number built-ins are read by abstract "
                "interpretation and compared; casts and narrow-kind arithmetic in the arms are inventoried on MIR.")
    rep.assume("the value each built-in computes (e.g. that substring returns the right substring) is not decided")
    _builtins.run(F, rep, "C14.builtin", "str+num")
    _strunits.run(F, rep)
    _strunits.strip_once(F, rep)
    _strunits.marker_radix(F, rep)
    domain_probes(F, rep)
    float_part_probes(F, rep)
    positions_not_text(F, rep)
    integer_powers_use_the_declared_width(F, rep)
    # `+` concatenation and `*` repetition are computed by the interpreter's operator implementations (text of a number = its value's, not its spelling's):
    # the folder hands back nothing but Numbers out of the compared operator tables
    from props import C06 as _c06
    _c06.only_table_operators_are_folded(F, rep, rule="C14.fold-scope")
    if _casts is not None:
        _casts.run_c14(F, rep)



SEARCHES = ("::replace", "::replacen", "::find", "::rfind", "::matches", "::match_indices", "::split", "::splitn", "::rsplit", "::split_once",
            "::rsplit_once", "::strip_prefix", "::strip_suffix", "::trim_matches", "::trim_start_matches", "::trim_end_matches", "::contains",
            "::starts_with", "::ends_with")


def integer_powers_use_the_declared_width(F, rep, rule="C14.width"):
    """`pow` of an integer receiver is declared bigint: every result that fits i128 is in the domain.  The arm computes it with the checked power of
    i128; a checked power of a narrower integer (i64 "the machine word") refuses in-domain results (`10.pow(20)`)."""
    run = [g for g in F.crates["bytecode"].fns if g.path.endswith("BuiltInFunction::run") and g.kind != "Closure"]
    if len(run) != 1:
        raise AnchorMissing("BuiltInFunction::run")
    bodies = [run[0]] + F.closures_of(run[0])
    pows = sorted({mir.strip_generics(c.callee()) for b in bodies for c in b.calls() if mir.strip_generics(c.callee()).endswith(("::checked_pow", "::pow", "::overflowing_pow",
                                                                                                                                    "::wrapping_pow", "::saturating_pow"))
                   and "core::num::" in c.callee()})
    narrow = [p_ for p_ in pows if not ("i128" in p_ or "f64" in p_)]
    rep.ob(rule, "integer powers in the built-ins are computed in i128, the width of the declared result", "violated" if narrow else ("ok" if pows else "undecided"),
           ("%s: results between that width and i128 are refused although the signature promises a bigint" % narrow) if narrow else "%s" % pows,
           run[0].span, fn=run[0].path, key=rule + "|pow")


def positions_not_text(F, rep, rule="C14.by-position"):
    """substring(a, b), insert(s, i) and delete(a, b) name a place in the receiver by position.  Their arms build the result from the receiver's
    slices at those positions; an arm that takes the text at the position and then *searches* the receiver for it (`s.replacen(&s[a..b], "", 1)`)
    acts on the first occurrence of that text, not on the place - `"abcabc".delete(3, 5)` loses its first `ab`.  Read from the calls on the
    successful paths of each arm (abstract run of BuiltInFunction::run per variant)."""
    B = _builtins.Builtins(F)
    n = 0
    for v, what in (("StrDelete", "delete(a, b)"), ("StrInsert", "insert(s, i)"), ("StrSubstring", "substring(a, b)")):
        r = B.arm(v, "Str")
        key = "%s|%s" % (rule, v)
        label = "str.%s works on the place it is given, not on the first occurrence of the text found there" % what
        if r["undecided"] or not r["paths"]:
            rep.ob(rule, label, "undecided", "arm not read: %s" % r["undecided"][:2], None, fn=_builtins.BIF + "::run", key=key)
            continue
        n += 1
        found = sorted({mir.short(c) for c in r["calls"] if mir.strip_generics(c).endswith(SEARCHES) and ("str" in c or "String" in c)})
        rep.ob(rule, label, "violated" if found else "ok",
               ("the arm calls %s on its successful paths: a text search over the receiver" % found) if found else "", None, fn=_builtins.BIF + "::run", key=key)
    rep.floor(rule + " position-based string built-ins read", n, 3)


def domain_probes(F, rep):
    """Integer-kind receivers of the conversion methods: inside the target's domain the method answers (no failure path), outside it fails (no
    value).  Each row is one evaluation of the method's arm of BuiltInFunction::run on a concrete receiver - the boundary values of the target
    and, for to_float, of the 53-bit mantissa (std's TryFrom, bit counts and checked_abs on known integers are modelled exactly)."""
    from absint import Int
    B = _builtins.Builtins(F)
    I32, I128, U8 = "i32", "i128", "u8"
    rows = [
        ("to_float", "GenericToFloat", "BigInt", 2**32, I128, "Float"), ("to_float", "GenericToFloat", "BigInt", -(2**32), I128, "Float"),
        ("to_float", "GenericToFloat", "BigInt", 2**53, I128, "Float"), ("to_float", "GenericToFloat", "BigInt", 2**53 + 1, I128, None),
        ("to_float", "GenericToFloat", "BigInt", -(2**127), I128, "Float"), ("to_float", "GenericToFloat", "BigInt", 2**127 - 1, I128, None),
        ("to_float", "GenericToFloat", "BigInt", 0, I128, "Float"), ("to_float", "GenericToFloat", "Int", -(2**31), I32, "Float"),
        ("to_int", "GenericToInt", "BigInt", 2**31 - 1, I128, "Int"), ("to_int", "GenericToInt", "BigInt", 2**31, I128, None),
        ("to_int", "GenericToInt", "BigInt", -(2**31), I128, "Int"), ("to_int", "GenericToInt", "BigInt", -(2**31) - 1, I128, None),
        ("to_int", "GenericToInt", "Byte", 255, U8, "Int"),
        ("to_byte", "GenericToByte", "Int", 255, I32, "Byte"), ("to_byte", "GenericToByte", "Int", 256, I32, None), ("to_byte", "GenericToByte", "Int", -1, I32, None),
        ("to_byte", "GenericToByte", "BigInt", 255, I128, "Byte"), ("to_byte", "GenericToByte", "BigInt", 2**40, I128, None),
        ("to_bigint", "GenericToBigint", "Int", -(2**31), I32, "BigInt"), ("to_bigint", "GenericToBigint", "Byte", 255, U8, "BigInt"),
        ("abs", "GenericAbs", "Int", -(2**31), I32, None), ("abs", "GenericAbs", "Int", -(2**31) + 1, I32, "Int"),
        ("abs", "GenericAbs", "BigInt", -(2**127), I128, None), ("abs", "GenericAbs", "BigInt", -(2**127) + 1, I128, "BigInt"),
        ("to_ascii", "ByteToAscii", "Byte", 65, U8, "Str"), ("to_ascii", "ByteToAscii", "Byte", 127, U8, "Str"),
        ("to_ascii", "ByteToAscii", "Byte", 128, U8, None), ("to_ascii", "ByteToAscii", "Byte", 200, U8, None),
        # the square root of a negative number is outside the domain (NaN is "continuing with a wrong value")
        ("sqrt", "GenericSqrt", "Int", 4, I32, "Float"), ("sqrt", "GenericSqrt", "Int", 0, I32, "Float"), ("sqrt", "GenericSqrt", "Int", -4, I32, None),
        ("sqrt", "GenericSqrt", "BigInt", -9, I128, None), ("sqrt", "GenericSqrt", "BigInt", 9, I128, "Float"), ("sqrt", "GenericSqrt", "Byte", 9, U8, "Float"),
    ]
    n = 0
    for meth, variant, kind, val, ty, want in rows:
        r = B.arm(variant, kind, Int(val, ty))
        n += 1
        key = "C14.domain|%s|%s|%d" % (meth, kind.lower(), val)
        inst = "%s(%d).%s() %s" % (kind.lower(), val, meth, ("is a %s" % want.lower()) if want else "fails")
        if r["undecided"] or r["panics"]:
            rep.ob("C14.domain", inst, "undecided" if not r["panics"] else "violated", "undecided: %s; panics: %d" % (r["undecided"][:2], r["panics"]), None,
                   fn="bytecode::function::BuiltInFunction::run", key=key)
            continue
        if want:
            ok = r["rets"] == {want} and r["errs"] == 0
            why = "" if ok else "in the domain of the target, but the arm %s" % ("fails" if r["errs"] else "returns %s" % sorted(r["rets"]))
        else:
            ok = not r["rets"] and r["errs"] > 0
            why = "" if ok else "outside the domain of the target, but the arm returns %s" % sorted(r["rets"])
        rep.ob("C14.domain", inst, "ok" if ok else "violated", why, None, fn="bytecode::function::BuiltInFunction::run", key=key)
    rep.floor("C14.domain probes", n, 20)


def float_part_probes(F, rep, rule="C14.float-parts"):
    """`floor`, `ceil`, `round`, `ipart`, `fpart` of a float: the arm of BuiltInFunction::run is evaluated on the receivers 7.5, -7.5 and -2.0 with
    std's f64 operations modelled exactly (also when the operation is picked from a table of function pointers), and the value it returns
    must be the documented one: floor -8 / ceil -7 / round -8 (half away from zero) / ipart -7 (toward zero) / fpart -0.5 for -7.5.  Negative
    non-whole receivers are where floor and trunc differ; the suite only has `3.1415.ipart()`."""
    import math
    import absint
    import tables as _tables
    from absint import Interp, Variant, Opaque, Ptr, Int, Flt, some, NONE
    BIF = "bytecode::function::BuiltInFunction"
    PRIMp = "bytecode::variables::primitive::Primitive"
    run = F.fn(BIF + "::run")
    adt = F.adt(BIF)
    if run is None or adt is None:
        raise AnchorMissing("BuiltInFunction::run")
    names = [v["name"] for v in adt["variants"]]
    T = _tables.Tables(F)

    def rnd(x):
        return float(math.floor(abs(x) + 0.5)) * (1 if x >= 0 else -1)
    want = {"FloatFloor": ("floor", lambda x: float(math.floor(x))), "FloatCeil": ("ceil", lambda x: float(math.ceil(x))), "FloatRound": ("round", rnd),
            "FloatIPart": ("ipart", lambda x: float(math.trunc(x))), "FloatFPart": ("fpart", lambda x: x - math.trunc(x))}

    def f1(fun):
        def model(it, p, fid, fn, t, a):
            x = a[0] if a else None
            n_ = 0
            while isinstance(x, Ptr) and n_ < 6:
                x = it.deref(p, x)
                n_ += 1
            return Flt(fun(x.v)) if isinstance(x, Flt) else NotImplemented
        return model
    fm = {"floor": f1(lambda x: float(math.floor(x))), "ceil": f1(lambda x: float(math.ceil(x))), "round": f1(rnd), "trunc": f1(lambda x: float(math.trunc(x))),
          "fract": f1(lambda x: x - math.trunc(x)), "abs": f1(abs),
          # std's other roundings (Python's round() is ties-to-even): a tie with an even integer part (2.5) tells them from `round`
          "round_ties_even": f1(lambda x: float(round(x))), "rint": f1(lambda x: float(round(x)))}
    n = 0
    for variant, (meth, fun) in want.items():
        if variant not in names:
            continue
        for x in (7.5, -7.5, -2.0, 2.5, -2.5, 0.5):
            recv = T.prim_value("Float", "arg0", Flt(x))

            def is_args(it, p, v):
                k = 0
                while isinstance(v, Ptr) and k < 6:
                    v = it.deref(p, v)
                    k += 1
                return isinstance(v, Opaque) and v.tag.startswith("ARGS")

            def first(it, p, fid, fn, t, a, recv=recv):
                return some(recv) if is_args(it, p, a[0]) else NotImplemented

            def get(it, p, fid, fn, t, a, recv=recv):
                if is_args(it, p, a[0]) and isinstance(a[1], Int):
                    return some(recv) if a[1].v == 0 else NONE
                return NotImplemented
            models = dict(_tables.MODELS)
            models.update({"bytecode::context::Ctx::ref_clear_local_operating_stack": lambda it, p, fid, fn, t, a: Opaque("ARGS"),
                           "core::slice::<impl [T]>::first": first, "core::slice::<impl [T]>::get": get,
                           "core::iter::traits::iterator::Iterator::next": lambda it, p, fid, fn, t, a: NONE})
            for nm_, m_ in fm.items():
                models["std::f64::<impl f64>::" + nm_] = m_
                models["core::f64::<impl f64>::" + nm_] = m_
            it = Interp(F, models=models, max_depth=3, max_paths=2048, loop_bound=3, inline=lambda path: path.startswith(BIF + "::run"))
            outs = it.run(run, [Variant(BIF, names.index(variant), variant, []), Opaque("ctx")])
            got, und = set(), []
            for o in outs:
                v = o.value
                if o.kind == "panic":
                    continue
                if o.kind == "return" and isinstance(v, Variant) and v.adt == "core::result::Result" and v.name == "Ok" and isinstance(v.fields[0], absint.Tup):
                    r0 = v.fields[0].fields[0]
                    pv = r0.fields[0] if isinstance(r0, Variant) and r0.name == "Some" else None
                    if isinstance(pv, Variant) and pv.fields and isinstance(pv.fields[0], Flt):
                        got.add(pv.fields[0].v)
                    else:
                        und.append(repr(pv)[:60])
                elif o.kind == "return" and isinstance(v, Variant) and v.name == "Err":
                    und.append("Err")
                else:
                    und.append("%s" % o.kind)
            key = "%s|%s|%s" % (rule, meth, x)
            exp = fun(x)
            if it.exhausted or und or len(got) != 1:
                rep.ob(rule, "float(%s).%s() is %s" % (x, meth, exp), "undecided", "values %s, other outcomes %s" % (sorted(got), und[:3]), run.span, fn=run.path, key=key)
                continue
            n += 1
            g = got.pop()
            rep.ob(rule, "float(%s).%s() is %s" % (x, meth, exp), "ok" if g == exp else "violated", "" if g == exp else "the arm returns %s" % g, run.span, fn=run.path, key=key)
    rep.floor(rule + " evaluations", n, 12)
