"""C14 — string and number built-ins: signatures and domain failures (partial by nature).

 (a) built-in signature agreement for string and numeric receivers;
 (b) no narrowing / saturating cast on a program value in the Str*/Generic*/Float* arms;
 (c) arithmetic on the narrow kind before widening is covered by overflow checks (profile condition of C05 c).
That `substring` returns the right substring etc. is not decided.
"""
import mir
import rules
from core import AnchorMissing
from props import _builtins, _strunits

try:
    from props import _casts
except ImportError:
    _casts = None


def run(ctx, rep):
    F = ctx.facts("default", ["bytecode", "compiler"])
    rep.explain("C14: declared signatures, run-time lookup and implementation arms of the string and number built-ins are read by abstract "
                "interpretation and compared; casts and narrow-kind arithmetic in the arms are inventoried on MIR.")
    rep.assume("the value each built-in computes (e.g. that substring returns the right substring) is not decided")
    _builtins.run(F, rep, "C14.builtin", "str+num")
    _strunits.run(F, rep)
    _strunits.strip_once(F, rep)
    _strunits.marker_radix(F, rep)
    if _casts is not None:
        _casts.run_c14(F, rep)
