"""Operand-stack shape of the compiled code (C09: "each instruction finds the operand-stack shape it requires").

Two tables, both read from the code on every run, and an induction over the AST:

  effects    every instruction handler (bytecode::instruction::implementations::*) is evaluated abstractly with a scripted `Ctx` whose operand
             stack holds h opaque values (h = 0..4): `Ctx::stack_size / pop / push / clear_stack / ..` act on the scripted height, everything
             else is opaque.  Per path: result (Ok / Err / panic), the exit state it signalled, the height it left.  The instruction's literal
             arguments (as the generator wrote them) are handed to the handler, so `make_vector` / `make_vector 4`, `vec_op +x` / `vec_op [i]`
             are different rows.  An (instruction, h) cell without an Ok path is "the handler refuses this stack shape".
  words      the code generators are evaluated to words over code(child) and instructions (analysis/jumps.py); the receiver type of each
             `child.compile(..)` gives the child's role: an expression (Expr, Value, ..) or statements (Block, Declaration, ..).
  induction  hypothesis: code(expression) started on an empty operand stack ends with exactly one value on it; code(statements) started on an
             empty stack ends with an empty stack.  Step, per generator and shape: walking its word from height 0 (jumps followed, each edge
             with the height the handler leaves on it), (a) no instruction is met at a height its handler refuses, (b) every child that can
             contain a call -- a call takes the whole operand stack as its arguments -- is started at height 0, (c) every way to the end of the
             word arrives with the height of the hypothesis (1 / 0).
What this is not: the *kinds* of the operands (C02), values, or the registers (C15.parked / undisturbed).
"""
import absint
import jumps
import mir
import seqgen
import tables
from absint import Interp, Variant, Opaque, Ptr, Int, Lin, Str, Tup, some, NONE, ok
from core import AnchorMissing

PRIM = tables.PRIM
IMPL = "bytecode::instruction::implementations::"
CTX = "bytecode::context::Ctx::"
SLICE = "core::slice::<impl [T]>::"
MAXH = 4

# receiver types of `.compile()` whose code leaves one value (an expression) / none (statements); a type in neither set makes the word undecided
EXPR_TYPES = ("math_expr::Expr", "value::Value", "callable::Callable", "list::List", "map::Map", "number::Number", "string::AstString",
              "function::Function", "ident::Ident")
# code that turns the one value on the stack into another one (`[i]`, `.f`, `.m(..)`): starts with exactly the receiver on the stack, leaves one value
POSTFIX_TYPES = ("list::Index", "dot_lookup::DotChain", "dot_lookup::DotLookupOption")
STMT_TYPES = ("function_body::Block", "declaration::Declaration", "if_statement::IfStatement", "if_statement::ElseStatement", "while_loop::WhileLoop",
              "number_loop::NumberLoop", "assignment::Assignment", "reassignment::Reassignment", "print_statement::PrintStatement",
              "r#return::ReturnStatement", "assertion::Assertion", "loop_control_flow::Break", "loop_control_flow::Continue", "class::Class",
              "import::Import", "export::Export", "r#type::TypeAlias")
# expression code that cannot contain a call (a literal's code): it may be laid down on a non-empty stack
LITERAL_TYPES = ("number::Number", "string::AstString")


def _height(p, h0):
    fr = p.frames.setdefault(-1, {})
    if "h" not in fr:
        fr["h"] = h0
    return fr


def handler_outcomes(F, fn, h0, args, extra_models=None, decided_only=False):
    """[(result, signal, height)] of one handler on a scripted stack of h0 opaque values; args: tuple of str | None (opaque argument)."""
    argv = Tup([Str(a) if a is not None else Opaque("arg%d" % i, "alloc::string::String") for i, a in enumerate(args)]) if args is not None else None

    def seth(p, h):
        _height(p, h0)["h"] = h
        p.events.append(("h", h))

    def stack_size(it, p, fid, f, t, a):
        return Int(_height(p, h0)["h"], "usize")

    def pop(it, p, fid, f, t, a):
        fr = _height(p, h0)
        if fr["h"] > 0:
            seth(p, fr["h"] - 1)
            return some(Opaque("popped", PRIM))
        return NONE

    def push(it, p, fid, f, t, a):
        seth(p, _height(p, h0)["h"] + 1)
        return absint.UNIT

    def clear(it, p, fid, f, t, a):
        seth(p, 0)
        return absint.UNIT

    def clear_set(it, p, fid, f, t, a):
        seth(p, 1)
        return absint.UNIT

    def ref_clear(it, p, fid, f, t, a):
        seth(p, 0)
        return Opaque("operands")

    def last(it, p, fid, f, t, a):
        fr = _height(p, h0)
        if fr["h"] > 0:
            fr[9000] = fr.get(9000, Opaque("top", PRIM))
            return some(Ptr(-1, 9000))
        return NONE

    def nth(it, p, fid, f, t, a):
        fr = _height(p, h0)
        n = a[1] if len(a) > 1 else None
        if isinstance(n, Int):
            if 0 <= n.v < fr["h"]:
                fr[9001 + n.v] = fr.get(9001 + n.v, Opaque("nth", PRIM))
                return some(Ptr(-1, 9001 + n.v))
            return NONE
        return NotImplemented

    def signal(it, p, fid, f, t, a):
        v = a[1] if len(a) > 1 else None
        p.events.append(("signal", v.name if isinstance(v, Variant) else "?"))
        return absint.UNIT

    def moved(it, p, fid, f, t, a):
        return ok(Opaque("value", PRIM))

    # the instruction's arguments
    def a_first(it, p, fid, f, t, a):
        if argv is None:
            return NotImplemented
        return some(argv.fields[0]) if argv.fields else NONE

    def a_last(it, p, fid, f, t, a):
        if argv is None:
            return NotImplemented
        return some(argv.fields[-1]) if argv.fields else NONE

    def a_get(it, p, fid, f, t, a):
        if argv is None or len(a) < 2 or not isinstance(a[1], Int):
            return NotImplemented
        return some(argv.fields[a[1].v]) if 0 <= a[1].v < len(argv.fields) else NONE

    def a_len(it, p, fid, f, t, a):
        if argv is None:
            return NotImplemented
        return Int(len(argv.fields), "usize")

    def a_empty(it, p, fid, f, t, a):
        if argv is None:
            return NotImplemented
        return absint.mkbool(len(argv.fields) == 0)
    def a_iter(it, p, fid, f, t, a):
        if argv is None:
            return NotImplemented
        _height(p, h0)["ai"] = 0
        return Opaque("args-iter")

    def a_next(it, p, fid, f, t, a):
        x = a[0] if a else None
        n_ = 0
        while isinstance(x, Ptr) and n_ < 6:
            x = it.deref(p, x)
            n_ += 1
        if argv is None or not (isinstance(x, Opaque) and x.tag == "args-iter"):
            return NotImplemented
        fr = _height(p, h0)
        i = fr.get("ai", 0)
        fr["ai"] = i + 1
        return some(argv.fields[i]) if i < len(argv.fields) else NONE

    def as_bytes(it, p, fid, f, t, a):
        x = a[0] if a else None
        n_ = 0
        while isinstance(x, Ptr) and n_ < 6:
            x = it.deref(p, x)
            n_ += 1
        if isinstance(x, Str):
            return Tup([Int(b, "u8") for b in x.s.encode()])
        return NotImplemented
    models = dict(tables.MODELS)
    models.update({"core::str::<impl str>::as_bytes": as_bytes, "alloc::string::String::as_bytes": as_bytes, SLICE + "iter": a_iter,
                   "core::iter::traits::iterator::Iterator::next": a_next})
    models.update({
        CTX + "stack_size": stack_size, CTX + "pop": pop, CTX + "push": push, CTX + "push_front": push, CTX + "clear_stack": clear,
        CTX + "clear_and_set_stack": clear_set, CTX + "ref_clear_local_operating_stack": ref_clear, CTX + "get_last_op_item": last,
        CTX + "get_last_op_item_mut": last, CTX + "get_nth_op_item": nth, CTX + "get_nth_op_item_mut": nth, CTX + "signal": signal,
        "bytecode::variables::primitive::Primitive::move_out_of_heap_primitive": moved,
        SLICE + "first": a_first, SLICE + "last": a_last, SLICE + "get": a_get, SLICE + "len": a_len, SLICE + "is_empty": a_empty,
    })
    if extra_models:
        models.update(extra_models)
    it = Interp(F, models=models, max_depth=2 if not extra_models else 4, max_paths=6000, loop_bound=3 if not extra_models else 64)
    outs = it.run(fn, [Opaque("ctx"), argv if argv is not None else Opaque("args")])
    res = set()
    for o in outs:
        if decided_only and o.data_dep:
            res.add(("data-dependent", None, None))
            continue
        hh = [e[1] for e in o.events if e[0] == "h"]
        sg = [e[1] for e in o.events if e[0] == "signal"]
        kind = o.kind
        if o.kind == "return" and isinstance(o.value, Variant) and o.value.adt == "core::result::Result":
            kind = o.value.name
        res.add((kind, sg[-1] if sg else None, hh[-1] if hh else h0))
    return res, it.exhausted


class Effects:
    def __init__(self, F):
        self.F = F
        self.cache = {}
        self.evals = 0

    def get(self, name, h, args):
        if name.startswith("#"):
            # an instruction written by its raw id (`CompiledItem::Instruction { id: MAKE_INT, .. }`)
            import opcodes
            names = opcodes.tables(self.F)["names"]
            try:
                name = names[int(name[1:])]
            except (KeyError, IndexError, ValueError):
                raise AnchorMissing("opcode " + name)
        k = (name, h, args)
        if k not in self.cache:
            fn = self.F.fn(IMPL + name)
            if fn is None:
                raise AnchorMissing("instruction handler " + name)
            self.cache[k] = handler_outcomes(self.F, fn, h, args)
            self.evals += 1
        return self.cache[k]


def literal_args(item):
    """The arguments of an emitted instruction as the handler will see them: a str where the generator wrote a constant, None where the text
    depends on the program (a register, a name, a length)."""
    a = item[3] if len(item) > 3 else ()
    out = []
    for v in a:
        if isinstance(v, Str):
            out.append(v.s)
        elif isinstance(v, Int):
            out.append(str(v.v))
        elif isinstance(v, Opaque) and v.tag.startswith("str:str:") and len(v.tag) > 8:
            out.append(v.tag[8:] + "R")      # a constant prefix followed by a register name (see str_add below): `+#3`
        else:
            out.append(None)
    return tuple(out)


JUMPS = {"if_stmt": 0, "while_loop": 0, "jmp": 0, "jmp_pop": 0, "jmp_not_nil": 0, "store_skip": 2}
GOTO = ("Goto", "GotoPopScope", "GotoPushScope")


def walk(word, roles, eff, start=0):
    """Walk the word from operand height `start`.  Returns (problems, end heights, visited {position: height}).  problems: (kind, k, text)."""
    pos = jumps.positions(word)
    n = len(word)
    problems = []
    seen = {}
    ends = set()
    work = [(0, start)]
    while work:
        k, h = work.pop()
        # a position may be reached with different heights (the back edge of a from-loop arrives with the value `counter += step` left behind; the
        # loop test clears the stack): every (position, height) pair is walked once
        if (k, h) in seen:
            continue
        seen[(k, h)] = True
        if k == n:
            ends.add(h)
            continue
        x = word[k]
        if x[0] == "code":
            tag = jumps.base(x[1]) if hasattr(jumps, "base") else x[1]
            role = roles.get(x[1]) or roles.get(tag)
            if role is None:
                problems.append(("role", k, "code(%s): the receiver type of its compile call is not known to the rule" % x[1]))
                continue
            if role == "postfix":
                if h != 1:
                    problems.append(("entry", k, "code(%s) (an index / member access: it works on the one value on the stack) starts with %d value(s) on the operand stack" % (x[1], h)))
                work.append((k + 1, 1))
            elif role == "stmts":
                if h != 0:
                    problems.append(("entry", k, "code(%s) (statements) starts with %d value(s) on the operand stack" % (x[1], h)))
                work.append((k + 1, 0))
            else:
                if h != 0 and role != "literal":
                    problems.append(("entry", k, "code(%s) (an expression: it may contain a call, which takes the whole operand stack) starts with %d value(s) "
                                                 "on the operand stack" % (x[1], h)))
                work.append((k + 1, h + 1))
            continue
        if x[0] != "ins":
            problems.append(("item", k, "item %r" % (x,)))
            continue
        nm = x[1]
        if h > MAXH:
            problems.append(("height", k, "more than %d operands at %s" % (MAXH, nm)))
            continue
        outs, exhausted = eff.get(nm, h, literal_args(x))
        oks = [(sg, h1) for (kind, sg, h1) in outs if kind == "Ok"]
        if exhausted and not oks:
            problems.append(("undecided", k, "%s: the handler could not be evaluated within the path budget" % nm))
            continue
        if not oks:
            problems.append(("refused", k, "%s is reached with %d value(s) on the operand stack; its handler has no successful path for that shape" % (nm, h)))
            continue
        for sg, h1 in set(oks):
            if sg == "JumpRequest":
                h1 += 1          # the interpreter pushes the callee's result (Function::run, JumpRequest arm; C19 / C17 decide that arm)
            if sg in GOTO and nm in JUMPS:
                tgt = jumps.jump_target(pos, k, x[3] if len(x) > 3 else (), JUMPS[nm], [], nm)
                if tgt is None:
                    problems.append(("undecided", k, "%s: jump target not on an item boundary (C09.landing decides that)" % nm))
                    continue
                work.append((tgt, h1))
            elif sg in ("ReturnValue",):
                ends.add(("ret", h1))
            else:
                work.append((k + 1, h1))
    return problems, ends, seen


# ---- words with roles ----------------------------------------------------------------------------------------------------------------

def _role_of_type(ty):
    ty = mir.strip_generics(ty) if hasattr(mir, "strip_generics") else ty
    for t in LITERAL_TYPES:
        if t in ty:
            return "literal"
    for t in POSTFIX_TYPES:
        if t in ty:
            return "postfix"
    for t in EXPR_TYPES:
        if t in ty:
            return "expr"
    for t in STMT_TYPES:
        if t in ty:
            return "stmts"
    return None


def words_with_roles(F, fn, args, x=None, extra_models=None, max_paths=4096):
    """jumps.words plus, per code tag, the role read from the receiver type of the compile call that produced it."""
    roles = {}

    def compile_model(it, p, fid, f, t, a):
        r = jumps._compile_model(it, p, fid, f, t, a)
        if r is NotImplemented:
            return r
        recv = seqgen.deref_all(it, p, a[0])
        callee = (t["func"].get("res") or t["func"].get("def") or "")
        ty = None
        if callee.startswith("<") and " as " in callee:
            ty = callee[1:callee.index(" as ")]
        elif callee.endswith("compile_depth"):
            ty = "compiler::ast::math_expr::Expr"
        if isinstance(recv, Opaque):
            role = _role_of_type(ty or "")
            if role:
                roles[recv.tag] = role
        return r
    base_add = jumps.MODELS.get("core::ops::arith::Add::add")

    def str_add(it, p, fid, f, t, a):
        x = seqgen.deref_all(it, p, a[0]) if a else None
        if isinstance(x, Str):
            y = seqgen.deref_all(it, p, a[1]) if len(a) > 1 else None
            return Str(x.s + y.s) if isinstance(y, Str) else Opaque("str:" + x.s)
        return base_add(it, p, fid, f, t, a) if base_add else NotImplemented

    def opaque_answer(it, p, fid, f, t, a):
        return Opaque("answer")
    models = {"core::ops::arith::Add::add": str_add, "alloc::borrow::ToOwned::to_owned": absint._ident,
              # what the folder / the type checker says about an operand is an input of the generator: both answers are explored, nothing is inlined
              "compiler::ast::value::CompileTimeEvaluate::try_constexpr_eval": opaque_answer,
              "compiler::ast::math_expr::Expr::try_constexpr_eval": opaque_answer, "compiler::ast::math_expr::Expr::for_type": opaque_answer,
              "compiler::ast::value::Value::for_type": opaque_answer, "compiler::ast::r#type::IntoType::for_type": opaque_answer}
    for k, v in list(jumps.MODELS.items()) + list(seqgen.MODELS.items()):
        if v is jumps._compile_model or v is seqgen._compile_model:
            models[k] = compile_model
    if extra_models:
        models.update(extra_models)
    rows, ex = jumps.words(F, fn, args, x=x, max_paths=max_paths, extra_models=models)
    return rows, ex, roles


# ---- the induction step, per generator and shape ---------------------------------------------------------------------------------------

EXPR = "compiler::ast::math_expr::Expr"
OP = "compiler::ast::math_expr::Op"
ASSIGN_OPS = ("AddAssign", "SubAssign", "MulAssign", "DivAssign", "ModAssign")


def shapes(F):
    """[(key, label, fn, args, expected end height, extra models, x)]: the generator shapes the induction step is decided for."""
    from props import C15 as c15
    ea, oa = F.adt(EXPR), F.adt(OP)
    cd = F.fn("compiler::ast::math_expr::compile_depth")
    if ea is None or oa is None or cd is None:
        raise AnchorMissing("Expr / Op / compile_depth")
    en = [v["name"] for v in ea["variants"]]
    on = [v["name"] for v in oa["variants"]]

    def expr(name, fields):
        return Variant(EXPR, en.index(name), name, fields)

    def binop(op, lhs=None):
        return expr("BinOp", [lhs if lhs is not None else Opaque("lhs"), Variant(OP, on.index(op), op, []), Opaque("rhs")])
    st = [Opaque("state"), Opaque("depth")]
    out = []
    for op in on:
        if op in ASSIGN_OPS:
            continue
        out.append(("binop|%s" % op, "`a %s b`" % op, cd, [binop(op)] + st, 1, None, None))
    ident = None
    va = F.adt("compiler::ast::value::Value")
    if va is not None:
        vn = [v["name"] for v in va["variants"]]
        if "Ident" in vn and "Value" in en:
            ident = expr("Value", [Variant("compiler::ast::value::Value", vn.index("Ident"), "Ident", [Opaque("ident")])])
    for op in ASSIGN_OPS:
        if ident is not None:
            out.append(("opassign|name|%s" % op, "`x %s b`" % op, cd, [binop(op, lhs=ident)] + st, 1, None, None))
        if "Index" in en:
            out.append(("opassign|index|%s" % op, "`a[i] %s b`" % op, cd, [binop(op, lhs=expr("Index", [Opaque("lhs"), Opaque("lhsindex")]))] + st, 1, None, None))
        if "DotLookup" in en:
            out.append(("opassign|field|%s" % op, "`a.f %s b`" % op, cd, [binop(op, lhs=expr("DotLookup", [Opaque("lhs"), Opaque("lhschain"), Opaque("ty")]))] + st, 1, None, None))
    for name, fields, label in (("UnaryNot", [Opaque("lhs")], "`!a`"), ("UnaryUnwrap", None, "`get a`"),
                                ("NilEval", [Opaque("lhs"), Opaque("rhs")], "`(a) or b`"), ("Index", [Opaque("lhs"), Opaque("rhs")], "`a[i]`"),
                                ("DotLookup", [Opaque("lhs"), Opaque("rhs"), Opaque("ty")], "`a.f`")):
        if name not in en:
            continue
        if fields is None:
            nf = len(ea["variants"][en.index(name)]["fields"])
            fields = [Opaque("lhs")] + [Opaque("f%d" % i) for i in range(1, nf)]
        out.append(("expr|%s" % name, label, cd, [expr(name, fields)] + st, 1, None, None))
    cc = F.adt("compiler::ast::math_expr::CallableContents")
    if cc is not None and "Callable" in en:
        cn = [v["name"] for v in cc["variants"]]
        if "Standard" in cn:
            inner = Variant("compiler::ast::math_expr::CallableContents", cn.index("Standard"), "Standard", [Opaque("lhs"), Opaque("fty"), Opaque("rhs")])
            out.append(("expr|call", "`f(args)`", cd, [expr("Callable", [inner])] + st, 1, {"compiler::ast::callable::Callable::new": c15._callable_new}, None))
    two = dict(c15.REV_MODELS, **{c15.NEXT: c15.scripted_next([Opaque("lhs"), Opaque("rhs")])})
    lc = F.fn("<compiler::ast::list::List as compiler::ast::Compile>::compile")
    if lc is not None:
        out.append(("expr|list-literal", "`[a, b]`", lc, [Opaque("self"), Opaque("state")], 1, two, None))
    # `f(a, b)`: the arguments, the load of the callee (an instruction the caller hands in: `load_fast <register>`) and the call.  (The loop that
    # loads the parked arguments back is not followed by the evaluation - `call` takes whatever is on the stack - so this shape shows the parking
    # and the call, not the number of arguments that arrive.)
    cc_ = [f for f in F.crates["compiler"].fns if f.path.startswith("<compiler::ast::callable::Callable") and f.path.endswith("as compiler::ast::Compile>::compile")]
    ca, da_ = F.adt("compiler::ast::callable::Callable"), F.adt("compiler::ast::callable::CallableDestination")
    cia = F.adt(jumps.CI)
    if cc_ and ca is not None and da_ is not None and cia is not None:
        civ = [v["name"] for v in cia["variants"]]
        load = Variant(jumps.CI, civ.index("Instruction"), "Instruction", [Opaque("op:load_fast"), Tup([Opaque("callee-register")])])
        for dv_i, dv in enumerate(da_["variants"]):
            selfs = [NONE, some(Opaque("self-register"))] if any("Option" in f["ty"] for f in dv["fields"]) else [None]
            for sr in selfs:
                fields = [load if "CompiledItem" in f["ty"] else (sr if "Option" in f["ty"] else Opaque(f["name"] or "f")) for f in dv["fields"]]
                dest = Variant("compiler::ast::callable::CallableDestination", dv_i, dv["name"], fields)
                node = Variant("compiler::ast::callable::Callable", 0, ca["variants"][0]["name"],
                               [dest if "CallableDestination" in f["ty"] else Opaque(f["name"] or "f") for f in ca["variants"][0]["fields"]])
                out.append(("expr|call-arguments|%s%s" % (dv["name"], "" if sr is None else ("|self" if sr is not NONE else "|plain")),
                            "`f(a, b)` (%s%s)" % (dv["name"], "" if sr is None or sr is NONE else ", a method"), cc_[0], [node, Opaque("state")], 1, two, None))
    mc = F.fn("<compiler::ast::map::Map as compiler::ast::Compile>::compile")
    if mc is not None:
        pairs = dict(c15.REV_MODELS, **{c15.NEXT: c15.scripted_next([Tup((Opaque("lhs"), Opaque("rhs"))), Tup((Opaque("k2"), Opaque("v2")))]),
                                       "alloc::vec::Vec::is_empty": lambda it, p, fid, fn, t, a: absint.FALSE})
        out.append(("expr|map-literal", "`map{a: b, c: d}`", mc, [Opaque("self"), Opaque("state")], 1, pairs, None))
    # statements
    DECL = "compiler::ast::declaration::Declaration"
    da = F.adt(DECL)
    dc = F.fn("<%s as compiler::ast::Compile>::compile" % DECL)
    if da is not None and dc is not None:
        for vi, v in enumerate(da["variants"]):
            if len(v["fields"]) == 1:
                out.append(("statement|%s" % v["name"], "statement %s" % v["name"], dc, [Variant(DECL, vi, v["name"], [Opaque("lhs")]), Opaque("state")], 0, None, None))
    from props import C09 as c09
    import itertools
    from absint import TRUE, FALSE
    ifc, elc, whc, frc = c09.compile_fn(F, c09.IF), c09.compile_fn(F, c09.ELSE), c09.compile_fn(F, c09.WHILE), c09.compile_fn(F, c09.FROM)
    for has_else in (False, True):
        over = {"else_statement": some(Opaque("else_statement")) if has_else else NONE}
        out.append(("statement|if%s" % ("-else" if has_else else ""), "`if c {..}%s`" % (" else {..}" if has_else else ""), ifc, [c09.node(F, c09.IF, over), Opaque("state")], 0, None, None))
    ea_ = F.adt(c09.ELSE)
    for vi, v in enumerate((ea_ or {}).get("variants", [])):
        out.append(("statement|else|%s" % v["name"], "`else` arm (%s)" % v["name"], elc, [Variant(c09.ELSE, vi, v["name"], [Opaque("content")]), Opaque("state")], 0, None, None))
    for x in (None, "Break", "Continue"):
        out.append(("statement|while|%s" % (x or "plain"), "`while c {..}`%s" % (" with a %s" % x.lower() if x else ""), whc, [c09.node(F, c09.WHILE), Opaque("state")], 0, None, x))
    for inclusive, step, coll in itertools.product((True, False), (False, True), (False, True)):
        over = {"inclusive": TRUE if inclusive else FALSE, "step": some(Opaque("step")) if step else NONE, "name_is_collision": TRUE if coll else FALSE}
        out.append(("statement|from|%s|%s|%s" % ("through" if inclusive else "to", "step" if step else "nostep", "collision" if coll else "fresh"),
                    "`from a %s b%s`%s" % ("through" if inclusive else "to", " step s" if step else "", " (counter name collides)" if coll else ""),
                    frc, [c09.node(F, c09.FROM, over), Opaque("state")], 0, None, None))
    for adt, label in (("compiler::ast::r#return::ReturnStatement", "return"), ("compiler::ast::print_statement::PrintStatement", "print"),
                       ("compiler::ast::assertion::Assertion", "assert")):
        g = F.fn("<%s as compiler::ast::Compile>::compile" % adt)
        a = F.adt(adt)
        if g is None or a is None:
            continue
        for vi, v in enumerate(a["variants"]):
            node = Variant(adt, vi, v["name"], [Opaque(f["name"] or "f%d" % i) for i, f in enumerate(v["fields"])])
            out.append(("statement|%s|%s" % (label, v["name"]), "`%s`" % label, g, [node, Opaque("state")], 0, None, None))
    return out


def run_clause(F, rep, rule="C09.operands"):
    eff = Effects(F)
    decided = 0
    for key, label, fn, args, want, extra, x in shapes(F):
        try:
            rows, ex, roles = words_with_roles(F, fn, args, x=x, extra_models=extra)
        except AnchorMissing:
            raise
        ws = []
        for r in rows:
            if r["word"] is not None and r["word"] not in ws:
                ws.append(r["word"])
        if ex or not ws:
            rep.ob(rule, "%s: operand-stack walk of the emitted code" % label, "undecided", "no word read (exhausted=%s, paths=%d)" % (ex, len(rows)), fn.span, fn=fn.path,
                   key="%s|%s" % (rule, key))
            continue
        bad, und = [], []
        for w in ws:
            problems, ends, seen = walk(w, roles, eff)
            for kind, k, text in problems:
                (und if kind in ("undecided", "role") else bad).append("`%s`: %s" % (jumps.show(w), text))
            for e in ends:
                if isinstance(e, tuple):
                    continue            # left through `ret`: the frame is gone
                if e != want and not any(p[0] != "undecided" for p in problems):
                    bad.append("`%s`: the code ends with %d value(s) on the operand stack, %d expected for %s" % (
                        jumps.show(w), e, want, "an expression" if want else "a statement"))
        status = "violated" if bad else ("undecided" if und else "ok")
        if status != "undecided":
            decided += 1
        rep.ob(rule, "%s: every instruction finds its operands, children start on an empty stack, %d value(s) left at the end" % (label, want), status,
               "; ".join(sorted(set(bad or und)))[:700] if (bad or und) else "emitted: %s" % jumps.show(ws[0])[:200], fn.span, fn=fn.path, key="%s|%s" % (rule, key))
    rep.extra["operand_stack"] = {"handler evaluations": eff.evals, "shapes decided": decided}
    return decided
