"""R-PANIC / R-CAST — data-dependent panic sites on interpreter paths (C17 a; also C13 b,c and C14 b,c).

Inventory over crate `bytecode` of
  K1  MIR Assert(Overflow | OverflowNeg | DivisionByZero | RemainderByZero) and calls of {i32,i128,u8,usize}::{pow,abs,neg} ...
  K2  MIR Assert(BoundsCheck) and Index::index / IndexMut on Vec / slice / str / String
  K3  std calls that panic on a data-dependent argument (Vec::remove/insert/swap_remove/drain/split_off, String::insert_str/insert/remove/
      replace_range/drain, str::split_at/repeat, <[T]>::swap/split_at/copy_from_slice ...)
A site counts only when an operand is *program-valued* (tainted): its backward slice reaches a value of type Primitive (a payload field,
the contents of a program string or list, or their len()).  A site is discharged when a dominating comparison of the same operand against
the container's len() (or a checked conversion / checked_* primitive) makes the panic impossible; otherwise it is a place where a defined
dynamic failure (overflow, zero divisor, index / key range, failed conversion) surfaces as a Rust panic (exit 101) instead of an MScript
error.  K4 sites (unwrap / expect / unreachable! / panic!) are counted, not judged: their safety rests on typing invariants (C02 b
discharges the built-in argument destructuring ones).
"""
import re
import mir
import rules
from mir import op_local, op_const, op_place, rvalue_operands
from core import AnchorMissing

K1_ASSERT = ("Overflow", "OverflowNeg", "DivisionByZero", "RemainderByZero")
K1_CALLS = re.compile(r"core::num::<impl (i32|i128|u8|usize|u32|i64|isize)>::(pow|abs|neg|isqrt|ilog\w*|next_power_of_two|div_euclid|rem_euclid)$")
K3_CALLS = (
    "alloc::vec::Vec::remove", "alloc::vec::Vec::insert", "alloc::vec::Vec::swap_remove", "alloc::vec::Vec::drain", "alloc::vec::Vec::split_off",
    "alloc::string::String::insert_str", "alloc::string::String::insert", "alloc::string::String::remove", "alloc::string::String::replace_range",
    "alloc::string::String::drain", "alloc::string::String::split_off", "core::str::<impl str>::split_at",
    "core::slice::<impl [T]>::swap", "core::slice::<impl [T]>::split_at", "core::slice::<impl [T]>::copy_from_slice", "core::slice::<impl [T]>::rotate_left",
    "core::slice::<impl [T]>::rotate_right", "core::char::from_digit",
    # from_str_radix panics when the radix is outside 2..=36
    "core::num::<impl i32>::from_str_radix", "core::num::<impl i128>::from_str_radix", "core::num::<impl u8>::from_str_radix", "core::num::<impl i64>::from_str_radix",
    "core::num::<impl u32>::from_str_radix", "core::num::<impl usize>::from_str_radix", "core::char::methods::<impl char>::to_digit", "core::char::methods::<impl char>::is_digit",
)
# not in K3: Vec/String::with_capacity, str::repeat, <[T]>::repeat -- they panic only on capacity overflow / allocation failure (memory exhaustion is not
# one of the property's defined dynamic failures)
K1_OPS = re.compile(r"<&?(i32|i128|u8|usize|u32|isize|i64) as core::ops::arith::(Add|Sub|Mul|Div|Rem|Neg)")
INDEX = ("core::ops::index::Index::index", "core::ops::index::IndexMut::index_mut")
# calls a value flows through unchanged as far as "is it program-valued" goes
FLOW = ("core::convert::TryInto::try_into", "core::convert::Into::into", "core::convert::From::from", "core::convert::TryFrom::try_from",
        "core::clone::Clone::clone", "core::ops::deref::Deref::deref", "core::ops::deref::DerefMut::deref_mut", "core::option::Option::unwrap",
        "core::option::Option::expect", "core::result::Result::unwrap", "core::result::Result::expect", "core::ops::try_trait::Try::branch",
        "anyhow::Context::with_context", "anyhow::Context::context", "core::cell::RefCell::borrow", "core::cell::RefCell::borrow_mut",
        "gc::GcCell::borrow", "gc::GcCell::borrow_mut", "alloc::vec::Vec::len", "alloc::string::String::len", "core::str::<impl str>::len",
        "core::slice::<impl [T]>::len", "core::option::Option::as_ref", "core::option::Option::cloned", "core::option::Option::copied",
        "core::borrow::Borrow::borrow", "core::convert::AsRef::as_ref", "core::slice::<impl [T]>::get", "core::slice::<impl [T]>::first",
        "core::slice::<impl [T]>::last", "core::num::<impl i32>::abs", "core::num::<impl i128>::abs", "core::str::<impl str>::parse",
        "core::option::Option::ok_or", "core::option::Option::ok_or_else", "core::option::Option::context", "core::result::Result::ok",
        "core::result::Result::map_err", "alloc::string::String::as_str", "core::str::<impl str>::as_bytes", "core::str::<impl str>::chars",
        "core::iter::traits::iterator::Iterator::count", "core::option::Option::unwrap_or", "core::option::Option::unwrap_or_default")
PROGRAM_TYPES = ("variables::primitive::Primitive", "variables::primitive::GcVector", "variables::primitive::GcMap", "stack::PrimitiveFlagsPair",
                 "variables::primitive::HeapPrimitive", "variables::object::Object")


def is_program_type(ty):
    return any(p in ty for p in PROGRAM_TYPES)


def taint(fn, local, depth=0, seen=None):
    """Why `local` is program-valued (a short reason), or None."""
    if seen is None:
        seen = set()
    if local is None or local in seen or depth > 14:
        return None
    seen.add(local)
    ty = fn.locals[local] if local < len(fn.locals) else ""
    if is_program_type(ty):
        return "derives from %s" % (ty[:70])
    for d in rules.defs_of(fn, local):
        if d[0] == "call":
            c = d[4]
            if c.matches(FLOW) or c.callee().startswith(("core::num::", "core::f64::", "std::f64::")):
                for a in c.args:
                    r = taint(fn, op_local(a), depth + 1, seen)
                    if r:
                        return r
            continue
        rv = d[4]
        for o in rvalue_operands(rv):
            pl = op_place(o)
            if pl is None:
                continue
            r = taint(fn, pl["l"], depth + 1, seen)
            if r:
                return r
        for k in ("ref", "rawptr", "discr", "len"):
            if k in rv and isinstance(rv[k], dict) and "l" in rv[k]:
                r = taint(fn, rv[k]["l"], depth + 1, seen)
                if r:
                    return r
    return None


def len_guarded(fn, bb, idx_local):
    """A comparison between (a value in the chain of) the index and a len() dominates the site and the site is on its in-range edge.
    Cheap form: some dominating block ends in a switch on a Lt/Le/Gt/Ge/Eq comparison one side of which shares a chain with the index."""
    if idx_local is None:
        return False
    chain = set(rules.chain_locals(fn, idx_local)) | {idx_local}
    doms = fn.dominators()
    for bi, si, dst, rv, s in fn.assigns():
        if "bin" in rv and rv["bin"] in ("Lt", "Le", "Gt", "Ge"):
            ls = {op_local(rv["l"]), op_local(rv["r"])} - {None}
            hit = False
            for l in ls:
                if (set(rules.chain_locals(fn, l)) | {l}) & chain:
                    hit = True
            if hit and bi != bb and bi in doms.get(bb, ()):
                t = fn.term(bi)
                if t["k"] == "switch" and op_local(t["discr"]) in (fn.derived([dst["l"]]) or {}):
                    return True
    return False


def boundary_guarded(fn, bb, idx_local):
    """str::is_char_boundary(s, idx) (false beyond len as well) was tested on the same index and the site is on its true edge."""
    if idx_local is None:
        return False
    chain = set(rules.chain_locals(fn, idx_local)) | {idx_local}
    for c in fn.calls():
        if c.matches(("core::str::<impl str>::is_char_boundary", "alloc::string::String::is_char_boundary")) and len(c.args) > 1:
            l = op_local(c.args[1])
            if l is None or not ((set(rules.chain_locals(fn, l)) | {l}) & chain):
                continue
            v, info = rules.guarded_by_bool(fn, [bb], [c.dst["l"]], want=True)
            if v == "ok":
                return True
    return False


def sites(F, crate="bytecode"):
    """Yield dict(kind, fn, bb, what, operands:[locals], span)."""
    for f in F.crates[crate].fns:
        for bi, b in enumerate(f.blocks):
            if b.get("cleanup"):
                continue
            t = b["t"]
            if t["k"] == "assert":
                msg = t["msg"].split("(")[0]
                if msg in K1_ASSERT:
                    # the operands of the checked operation: the assigns feeding cond in this block
                    ops = []
                    what = msg
                    for s in b["s"]:
                        rv = s.get("rv") or {}
                        if "bin" in rv and (rv["bin"].endswith("WithOverflow") or rv["bin"] in ("Eq", "Div", "Rem")):
                            ops += [op_local(rv["l"]), op_local(rv["r"])]
                            if rv["bin"].endswith("WithOverflow"):
                                what = "%s(%s)" % (rv["bin"], rv.get("lty"))
                        if "un" in rv and rv["un"] == "Neg":
                            ops.append(op_local(rv["op"]))
                    if msg in ("DivisionByZero", "RemainderByZero", "OverflowNeg") or not ops:
                        # operands are in the successor's Div/Rem; take them from there
                        for s in f.blocks[t["target"]]["s"]:
                            rv = s.get("rv") or {}
                            if "bin" in rv and rv["bin"] in ("Div", "Rem"):
                                ops += [op_local(rv["l"]), op_local(rv["r"])]
                                what = "%s %s(%s)" % (msg, rv["bin"], rv.get("lty"))
                            if "un" in rv and rv["un"] == "Neg":
                                ops.append(op_local(rv["op"]))
                                what = "%s(%s)" % (msg, rv.get("oty"))
                    yield {"kind": "K1", "fn": f, "bb": bi, "what": what, "ops": [o for o in ops if o is not None], "span": t.get("us") or t.get("sp")}
                elif msg == "BoundsCheck":
                    idx = None
                    for s in b["s"]:
                        rv = s.get("rv") or {}
                        if "bin" in rv and rv["bin"] == "Lt":
                            idx = op_local(rv["l"])
                    yield {"kind": "K2", "fn": f, "bb": bi, "what": "BoundsCheck", "ops": [idx] if idx is not None else [], "idx": idx,
                           "span": t.get("us") or t.get("sp")}
            elif t["k"] == "call":
                c = mir.Call(f, bi, t)
                nm = mir.strip_generics(c.callee())
                m1 = K1_OPS.search(nm)
                if m1:
                    yield {"kind": "K1", "fn": f, "bb": bi, "what": "%s(%s)" % (m1.group(2), m1.group(1)),
                           "ops": [op_local(a) for a in c.args if op_local(a) is not None], "span": c.span}
                elif K1_CALLS.search(nm):
                    yield {"kind": "K1", "fn": f, "bb": bi, "what": mir.short(nm), "ops": [op_local(a) for a in c.args if op_local(a) is not None], "span": c.span}
                elif c.matches(INDEX):
                    recv = " ".join(t["func"].get("ga") or []) + " " + (t["func"].get("res") or "")
                    if any(x in recv for x in ("alloc::vec::Vec", "[", "str", "alloc::string::String")) and "HashMap" not in recv:
                        idx = op_local(c.args[1]) if len(c.args) > 1 else None
                        if idx is None:
                            continue
                        gas = t["func"].get("ga") or []
                        if any("core::ops::range::RangeFull" in g for g in gas[1:]) or "RangeFull" in f.locals[idx]:
                            continue            # `v[..]`: the full range never panics
                        site = {"kind": "K2", "fn": f, "bb": bi, "what": "Index on %s" % (t["func"].get("ga") or ["?"])[0][:60], "ops": [idx], "idx": idx,
                                "span": c.span}
                        if "bytecode::variables::primitive::Primitive" in (t["func"].get("ga") or [""])[0]:
                            # the indexed vector holds program values: its length is the program's to decide (a list the script can shrink or
                            # leave empty), whatever the origin of the index
                            site["container"] = "the indexed vector is a program list (its length is program-valued)"
                        yield site
                    elif "HashMap" in recv:
                        yield {"kind": "K3", "fn": f, "bb": bi, "what": "HashMap index (panics on a missing key)",
                               "ops": [op_local(a) for a in c.args if op_local(a) is not None], "span": c.span}
                elif c.matches(K3_CALLS):
                    idx = op_local(c.args[1]) if len(c.args) > 1 else None
                    if idx is None:
                        continue        # a literal index (e.g. arguments.remove(1)): not data-dependent; arity is a typing invariant (K4)
                    site = {"kind": "K3", "fn": f, "bb": bi, "what": mir.short(nm), "ops": [idx], "idx": idx, "span": c.span}
                    if "bytecode::variables::primitive::Primitive" in " ".join(t["func"].get("ga") or [])[:200] and ("Vec::" in nm or "[T]>::" in nm):
                        site["container"] = "the vector operated on is a program list (its length is program-valued)"
                    yield site


def below_len_plus_constant(fn, s):
    """`i + c` on usize cannot overflow where `i < len` of a list holds (a Vec never has more than isize::MAX elements) and c is a small constant:
    the site is an AddWithOverflow(usize) of a constant below 2^62 and a value, and lies behind the in-range edge of a comparison of that very
    value with a length."""
    if not s["what"].startswith("AddWithOverflow(usize)"):
        return False
    b = fn.blocks[s["bb"]]
    for st in b["s"]:
        rv = st.get("rv") or {}
        if rv.get("bin") != "AddWithOverflow":
            continue
        cl, cr = op_const(rv["l"]), op_const(rv["r"])
        c = cl or cr
        x = op_local(rv["r"] if cl else rv["l"])
        if c is None or x is None or "int" not in c or not (0 <= int(c["int"]) < (1 << 62)):
            return False
        xchain = set(rules.chain_locals(fn, x)) | {x}
        edges = set()
        for bi, si, dst, rv2, st2 in fn.assigns():
            if rv2.get("bin") not in ("Lt", "Le", "Gt", "Ge"):
                continue
            l, r = op_local(rv2["l"]), op_local(rv2["r"])
            if l is None or r is None:
                continue
            kl, kr = rules.plain_chain(fn, l), rules.plain_chain(fn, r)
            passing = None
            if kl[0] == "value" and kr[0] == "len" and ((set(rules.chain_locals(fn, l)) | {l}) & xchain):
                passing = {"Lt": True, "Ge": False}.get(rv2["bin"])
            elif kl[0] == "len" and kr[0] == "value" and ((set(rules.chain_locals(fn, r)) | {r}) & xchain):
                passing = {"Gt": True, "Le": False}.get(rv2["bin"])
            if passing is None:
                continue
            for bb, t_t, f_t, pol in rules.bool_switches(fn, fn.derived([dst["l"]])):
                if pol is not None:
                    edges.add((bb, t_t if (pol == passing) else f_t))
        return bool(edges) and s["bb"] not in fn.reachable(0, removed_edges=edges)
    return False


def inventory(F):
    out = []
    for s in sites(F):
        f = s["fn"]
        why = None
        for o in s["ops"]:
            why = taint(f, o)
            if why:
                break
        s["taint"] = why or s.get("container")
        # a byte offset into text has to be a character boundary as well as in range: for the str / String routines only the boundary test counts
        # (is_char_boundary is false beyond the length too); a comparison with the length alone leaves `"café".insert(x, 4)` panicking
        text_api = s["kind"] == "K3" and re.match(r"^(str|String)::", s.get("what", ""))
        s["guarded"] = bool(why) and s["kind"] in ("K2", "K3") and ((not text_api and len_guarded(f, s["bb"], s.get("idx"))) or boundary_guarded(f, s["bb"], s.get("idx")))
        if why and s["kind"] == "K1" and below_len_plus_constant(f, s):
            s["guarded"] = True
        out.append(s)
    return out


def zero_divisor_rejected(F):
    """Div and Rem return Err for a zero divisor of each integer kind (abstract evaluation with a zero payload)."""
    import tables
    from absint import Int
    T = tables.Tables(F)
    for op in ("Div", "Rem"):
        for rk, ty in (("Int", "i32"), ("BigInt", "i128"), ("Byte", "u8")):
            for lk in ("Int", "BigInt", "Byte"):
                rt = T.runtime(op, lk, rk, rpayload=Int(0, ty))
                if not rt or any(x[0] != "Err" for x in rt):
                    return False
    return True


def list_times_int_rejected(F):
    import tables
    T = tables.Tables(F)
    try:
        for rk in ("Int", "BigInt"):
            st = T.static("Multiply", "List", rk)
            if any(x[0] != "None" for x in st):
                return False
        return True
    except Exception:
        return False


def vec_op_named_arms_dead(F):
    """`vec_op <name> ..` (reverse, mut) is selected by the operand's text; the compiler only ever writes `+<reg>` and `[<idx>]` operands, so the
    named arms are dead for compiled programs.  Returns the set of names that no compiler emission can spell, or None when that cannot be read."""
    import opcodes
    import rules
    vo = F.fn("bytecode::instruction::implementations::vec_op")
    if vo is None:
        return None
    names = {x[1] for x in rules.string_literals(vo) if x[0] == "str" and x[1].isalpha() and len(x[1]) < 12}
    firsts = set()
    n = 0
    for fn, nm, sp, c in opcodes.instruction_literals(F):
        if nm != "vec_op":
            continue
        n += 1
        lits = rules.string_literals(fn)
        fm = [x[1] for x in lits if x[0] == "fmt"]
        st = [x[1] for x in lits if x[0] == "str" and x[1] not in ("vec_op",) and len(x[1]) <= 2]
        if not fm and not st:
            return None
        for pieces in fm:
            if pieces and isinstance(pieces[0], str) and pieces[0] and pieces[0] != "{}":
                firsts.add(pieces[0][0])
            else:
                return None
        for x in st:
            firsts.add(x[0])
    if n == 0:
        return None
    return {nm for nm in names if nm[0] not in firsts}


def run_c17(F, rep, ctx):
    inv = inventory(F)
    rep.floor("C17.panic K1-K3 sites inventoried in crate bytecode", len(inv), 40)
    per_key = {}
    zero_ok = zero_divisor_rejected(F)
    mul_list_rejected = list_times_int_rejected(F)
    dead_names = vec_op_named_arms_dead(F) or set()
    for s in inv:
        f = s["fn"]
        top = re.sub(r"::\{closure#\d+\}", "", f.path)
        if s["what"].startswith(("DivisionByZero", "RemainderByZero")) and re.search(r"<&Primitive as (Div|Rem)>", mir.short(top)) and zero_ok:
            rep.ob("C17.panic", "%s in %s: a zero divisor of every numeric kind is rejected with an error before the division" % (s["what"], mir.short(f.path)),
                   "ok", "decided by evaluating the operator with a zero divisor payload (same evaluation as C05.zero-divisor)", s["span"], fn=f.path,
                   key="C17.panic|guarded|%s|%s" % (mir.short(top), s["what"]))
            continue
        if top.endswith("implementations::vec_op") and s.get("container") and dead_names:
            # is the site inside an arm selected by one of the dead names?
            import rules as _rules
            arm_ok = False
            for nm in dead_names:
                for c2 in f.calls():
                    if c2.target is None or not any(_rules.literal_of(f, a) == nm or (isinstance(_rules.literal_of(f, a), list) and ("str", nm) in _rules.literal_of(f, a)) for a in c2.args):
                        continue
                    der = f.derived([c2.dst["l"]])
                    sws = [x for x in _rules.bool_switches(f, der) if x[3] is not None]
                    removed = {(bb, (t_t if pol else f_t)) for bb, t_t, f_t, pol in sws}
                    if sws and s["bb"] not in f.reachable(0, removed_edges=removed):
                        arm_ok = True
            if arm_ok:
                rep.ob("C17.panic", "%s in %s: not reachable from a compiled program" % (s["what"], mir.short(f.path)), "exempt",
                       "the arm is selected by the operand text %s; the compiler writes only `+<reg>` and `[<idx>]` operands for vec_op" % sorted(dead_names),
                       s["span"], fn=f.path, key="C17.panic|unreachable|%s|%s" % (mir.short(top), s["what"]))
                continue
        if "repeat_vec" in top and mul_list_rejected:
            rep.ob("C17.panic", "%s in %s: not reachable from a type-checked program" % (s["what"], mir.short(f.path)), "exempt",
                   "the type checker rejects list * int (TypeLayout::get_output_type(Multiply, list, int) is None), so repeat_vec is dead for compiled programs",
                   s["span"], fn=f.path, key="C17.panic|unreachable|%s|%s" % (mir.short(top), s["what"]))
            continue
        if not s["taint"]:
            rep.ob("C17.panic", "%s in %s: operands are not program-valued" % (s["what"], mir.short(f.path)), "exempt", "interpreter-internal quantity", s["span"],
                   fn=f.path, key="C17.panic|internal|%s|%s" % (mir.short(top), s["what"]))
            continue
        if "from_str_radix" in s["what"] and s.get("idx") is not None:
            # the radix is one of a few constants of the arm (`(text, 2)` / `(text, 10)`), all inside 2..=36
            import rules as _r
            tp = list(_r.trace_paths(f, s["idx"]))
            vals = []
            okc = bool(tp)
            for o, path in tp:
                k = None
                if o and o[0] == "const" and str(o[1]).lstrip("-").isdigit():
                    k = int(o[1])
                elif o and o[0] == "agg" and len(path) == 1 and str(path[0]).isdigit():
                    try:
                        st = f.blocks[o[1]]["s"][o[2]]
                        c_ = op_const(st["rv"]["ops"][int(path[0])])
                        if c_ is not None and "int" in c_:
                            k = int(c_["int"])
                    except (KeyError, IndexError, ValueError):
                        k = None
                if k is None:
                    okc = False
                else:
                    vals.append(k)
            if okc and all(2 <= v <= 36 for v in vals):
                rep.ob("C17.panic", "%s in %s: the radix is a constant between 2 and 36" % (s["what"], mir.short(f.path)), "ok", "radix values %s" % sorted(set(vals)), s["span"],
                       fn=f.path, key="C17.panic|guarded|%s|%s|const" % (mir.short(top), s["what"]))
                continue
        if s["guarded"]:
            rep.ob("C17.panic", "%s in %s: guarded by a dominating range comparison" % (s["what"], mir.short(f.path)), "ok", s["taint"], s["span"], fn=f.path,
                   key="C17.panic|guarded|%s|%s" % (mir.short(top), s["what"]))
            continue
        what = s["what"]
        if s["kind"] == "K1" and re.match(r"(Add|Sub|Mul|Div|Rem|Neg)(WithOverflow)?\((i32|i128|u8|usize)\)$|Overflow(Neg)?\b", what):
            if re.match(r"(Div|Rem)\(u8\)", what):
                # unsigned division cannot overflow and a zero divisor is rejected before (decided above)
                if zero_ok and re.search(r"<&Primitive as (Div|Rem)>", mir.short(top)):
                    rep.ob("C17.panic", "%s in %s: unsigned division cannot overflow; zero divisor rejected before" % (what, mir.short(f.path)), "ok", "",
                           s["span"], fn=f.path, key="C17.panic|guarded|%s|%s" % (mir.short(top), what))
                    continue
            s["what_detail"] = what
            what = "integer overflow"
        k = "C17.panic|%s|%s" % (mir.short(top), what)
        s["what"] = what
        per_key.setdefault(k, []).append(s)
    for k, lst in sorted(per_key.items()):
        s = lst[0]
        rep.ob("C17.panic", "%s: %s on a program value panics instead of returning an MScript error (%d site%s)" % (
            mir.short(re.sub(r"::\{closure#\d+\}", "", s["fn"].path)), s["what"], len(lst), "" if len(lst) == 1 else "s"), "violated",
               "%s; sites: %s%s" % (s["taint"], sorted({x["span"] for x in lst})[:6],
                                     ("; operations: %s" % sorted({x.get("what_detail") for x in lst if x.get("what_detail")})) if s.get("what_detail") else ""),
               s["span"], fn=s["fn"].path, key=k)
    # K4: counted
    n4 = 0
    for f in F.crates["bytecode"].fns:
        for c in f.calls():
            nm = mir.strip_generics(c.callee())
            if re.search(r"::(unwrap|expect)$", nm) or "core::panicking::" in nm:
                n4 += 1
    rep.extra["K4_sites_counted_not_judged"] = n4


def vec_op_dead_blocks(F):
    """blocks of the vec_op handler that are reachable only through an arm selected by an operand text the compiler never writes"""
    import rules as _rules
    vo = F.fn("bytecode::instruction::implementations::vec_op")
    dead = vec_op_named_arms_dead(F) or set()
    if vo is None or not dead:
        return set()
    live_removed = set()
    for nm in dead:
        for c2 in vo.calls():
            if c2.target is None:
                continue
            lits = [_rules.literal_of(vo, a) for a in c2.args]
            if not any(l == nm or (isinstance(l, list) and ("str", nm) in l) for l in lits):
                continue
            der = vo.derived([c2.dst["l"]])
            for bb, t_t, f_t, pol in _rules.bool_switches(vo, der):
                if pol is not None:
                    live_removed.add((bb, t_t if pol else f_t))
    if not live_removed:
        return set()
    reach = vo.reachable(0, removed_edges=live_removed)
    return {b for b in range(len(vo.blocks)) if b not in reach}
