"""Operator-table extraction shared by C02 (a), C05, C06."""
import absint
import mir
import rules
import tables
from absint import Interp, Int, Flt, Str, Variant, Opaque, some, NONE
from mir import op_local, op_const
from core import AnchorMissing
from tables import PRIM, OP, NUM, NATIVE, NUMERIC

_CACHE = {}


def get(F):
    k = id(F)
    if k not in _CACHE:
        _CACHE[k] = OpTables(F)
    return _CACHE[k]


# static Op -> how the run time evaluates it
RT_OF_SYMBOL_FALLBACK = {}


class OpTables:
    def __init__(self, F):
        self.F = F
        self.T = tables.Tables(F)
        self.op_names = self.T.op_names()
        self._symbols = None
        self._dispatch = {}

    # ---- Op::symbol ------------------------------------------------------------------
    def symbols(self):
        if self._symbols is None:
            f = self.F.fn("compiler::ast::math_expr::Op::symbol")
            if f is None:
                raise AnchorMissing("Op::symbol")
            out = {}
            for i, nm in enumerate(self.op_names):
                it = Interp(self.F, max_depth=1, max_paths=8)
                outs = it.run(f, [Variant(OP, i, nm, [])])
                vals = set()
                for o in outs:
                    v = o.value
                    n = 0
                    while isinstance(v, absint.Ptr) and n < 4:
                        v = it.deref(None, v) if False else v
                        n += 1
                    vals.add(v.s if isinstance(v, Str) else repr(v))
                out[nm] = vals.pop() if len(vals) == 1 else None
            self._symbols = out
        return self._symbols

    # ---- bin_op dispatch ----------------------------------------------------------------
    def rt_dispatch(self, symbol, kinds=("Int", "Int")):
        """Which evaluator the `bin_op` handler enters for `symbol`: returns
        ('fn', path) | ('inline', kind) | ('err',) | ('undecided', why)."""
        key = (symbol, kinds)
        if key in self._dispatch:
            return self._dispatch[key]
        f = self.F.fn("bytecode::instruction::implementations::bin_op")
        if f is None:
            raise AnchorMissing("implementations::bin_op")
        T = self.T
        vals = [T.prim_value(kinds[1], "r"), T.prim_value(kinds[0], "l")]   # popped right first

        def pop(it, p, fid, fn, t, args):
            st = p.frames.setdefault(-1, {})
            n = st.get("pops", 0)
            st["pops"] = n + 1
            return some(vals[n]) if n < 2 else NONE

        def first(it, p, fid, fn, t, args):
            return some(Str(symbol))

        def ctx_ok(it, p, fid, fn, t, args):
            a = args[0]
            if isinstance(a, Variant) and a.adt == "core::option::Option":
                if a.name == "Some":
                    return absint.ok(a.fields[0])
                return absint.err(Opaque("ctxerr"))
            if isinstance(a, Variant) and a.adt == "core::result::Result":
                return a
            return NotImplemented

        def set_stack(it, p, fid, fn, t, args):
            p.events.append(("result", args[1]))
            return absint.UNIT
        models = dict(tables.MODELS)
        models.update({
            "bytecode::context::Ctx::pop": pop,
            "core::slice::<impl [T]>::first": first,
            "anyhow::Context::context": ctx_ok,
            "anyhow::Context::with_context": ctx_ok,
            "bytecode::context::Ctx::clear_and_set_stack": set_stack,
            "alloc::string::String::as_str": absint._ident,
        })
        it = Interp(self.F, models=models, max_depth=6, max_paths=256)
        outs = it.run(f, [Opaque("ctx"), Opaque("args")])
        entered = set()
        kinds_out = set()
        for o in outs:
            ops = [e[1] for e in o.events if e[0] == "enter" and (
                "core::ops::" in e[1] or "PartialOrd" in e[1] or e[1].endswith("::equals") or e[1].endswith("::runtime_addr_check"))]
            if ops:
                entered.add(ops[0])
            for e in o.events:
                if e[0] == "result":
                    kinds_out.add(T.kind_of(e[1]))
        if len(entered) == 1:
            r = ("fn", entered.pop())
        elif not entered and kinds_out:
            r = ("inline", tuple(sorted(str(k) for k in kinds_out)))
        elif not entered:
            r = ("err",)
        else:
            r = ("undecided", sorted(entered))
        self._dispatch[key] = r
        return r

    def rt_via_binop(self, symbol, vl, vr):
        """Outcome set of the `bin_op` handler for (symbol, kinds): same shape as Tables.runtime."""
        key = ("binop", symbol, vl, vr)
        if key in self._dispatch:
            return self._dispatch[key]
        f = self.F.fn("bytecode::instruction::implementations::bin_op")
        T = self.T
        vals = [T.prim_value(vr, "r"), T.prim_value(vl, "l")]

        def pop(it, p, fid, fn, t, args):
            st = p.frames.setdefault(-1, {})
            n = st.get("pops", 0)
            st["pops"] = n + 1
            return some(vals[n]) if n < 2 else NONE

        def first(it, p, fid, fn, t, args):
            return some(Str(symbol))

        def set_stack(it, p, fid, fn, t, args):
            p.events.append(("result", args[1]))
            return absint.UNIT
        models = dict(tables.MODELS)
        models.update({
            "bytecode::context::Ctx::pop": pop,
            "core::slice::<impl [T]>::first": first,
            "bytecode::context::Ctx::clear_and_set_stack": set_stack,
            "alloc::string::String::as_str": absint._ident,
        })
        it = Interp(self.F, models=models, max_depth=7, max_paths=512)
        outs = it.run(f, [Opaque("ctx"), Opaque("args")])
        T.evals += 1
        res = set()
        for o in outs:
            if o.kind == "return" and isinstance(o.value, Variant) and o.value.adt == "core::result::Result":
                if o.value.name == "Ok":
                    rs = [e[1] for e in o.events if e[0] == "result"]
                    if len(rs) == 1:
                        k = T.kind_of(rs[0])
                        res.add(("Ok", k if k is not None else "?" + repr(rs[0]), o.data_dep))
                    else:
                        res.add(("Undecided", "Ok without a result", o.data_dep))
                else:
                    res.add(("Err", None, o.data_dep))
            elif o.kind == "panic":
                res.add(("Panic", str(o.value), o.data_dep))
            else:
                res.add(("Undecided", "%s %r" % (o.kind, o.value), o.data_dep))
        if it.exhausted:
            res.add(("Undecided", "path bound", True))
        r = frozenset(res)
        self._dispatch[key] = r
        return r

    def rt_opname_for(self, path):
        """Map an entered function path to the Tables.runtime operator name."""
        for nm, (tr, m) in tables.TRAITS.items():
            if ("as %s>::%s" % (tr, m)) in path or ("impl %s for" % tr) in path and path.endswith("::" + m):
                return nm
        for m in ("lt", "le", "gt", "ge"):
            if "PartialOrd" in path and path.endswith("::" + m):
                return m
        if path.endswith("::equals"):
            return "equals"
        if path.endswith("::runtime_addr_check"):
            return "is"
        return None

    # ---- folder dispatch (Op -> impl for &Number) -------------------------------------------------
    def fold_dispatch(self):
        cands = [f for f in self.F.all_fns() if f.path.endswith("::try_constexpr_eval") and "math_expr::Expr" in f.path and "CompileTimeEvaluate" in f.path]
        if len(cands) != 1:
            raise AnchorMissing("impl CompileTimeEvaluate for Expr")
        f = cands[0]
        out = {}
        for bi, blk in enumerate(f.blocks):
            t = blk["t"]
            if t["k"] != "switch" or len(t["targets"]) < 6:
                continue
            dl = op_local(t["discr"])
            src = None
            for s in blk["s"]:
                if "d" in s and s["d"]["l"] == dl and "discr" in s["rv"]:
                    src = s["rv"]["discr"]
            if src is None:
                continue
            it = Interp(self.F)
            ty = it.place_type(f, src)
            if absint.adt_of_type(ty) != OP:
                continue
            for v, tgt in t["targets"]:
                b = tgt
                for _ in range(8):
                    tt = f.blocks[b]["t"]
                    if tt["k"] == "call":
                        cal = tt["func"].get("res") or tt["func"].get("def") or ""
                        if NUM in cal and "core::ops::" in cal:
                            out[self.op_names[int(v)]] = cal
                            break
                        b = tt["target"]
                        if b is None:
                            break
                    elif tt["k"] == "goto":
                        b = tt["target"]
                    else:
                        break
        return out

    def fold(self, opname, lk, rk, lpayload=None, rpayload=None):
        T = self.T
        key = ("fold", opname, lk, rk, repr(lpayload), repr(rpayload))
        if key in T._fold:
            return T._fold[key]
        f = T.fold_fn(opname)
        it = Interp(self.F, models=tables.MODELS, max_depth=4, max_paths=512)
        outs = it.run(f, [T.num_value(lk, "l", lpayload), T.num_value(rk, "r", rpayload)])
        T.evals += 1
        res = set()
        for o in outs:
            if o.kind == "return" and isinstance(o.value, Variant) and o.value.adt == "core::result::Result":
                if o.value.name == "Ok":
                    x = o.value.fields[0]
                    res.add(("Ok", x.name if isinstance(x, Variant) else repr(x), o.data_dep))
                else:
                    res.add(("Err", None, o.data_dep))
            elif o.kind == "panic":
                res.add(("Panic", str(o.value), o.data_dep))
            else:
                res.add(("Undecided", "%s %r" % (o.kind, o.value), o.data_dep))
        if it.exhausted:
            res.add(("Undecided", "path bound", True))
        r = frozenset(res)
        T._fold[key] = r
        return r


NUM_TO_PRIM = {"Integer": "Int", "BigInt": "BigInt", "Float": "Float", "Byte": "Byte"}
PRIM_TO_NUM = {v: k for k, v in NUM_TO_PRIM.items()}
