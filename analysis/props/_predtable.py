"""C03 — static type predicates vs. what the run-time operation accepts (predicate tables).

A construct guarded by a boolean predicate on the static type (guards_c03.json decides that the guard is *there*) is only
as good as the predicate.  Here the predicate is read as a finite table by abstract interpretation over the kind universe
(the 5 scalar kinds + str, each also as T?, behind a captured-variable wrapper and behind an alias; nil; the compound heads)
and compared with the run-time acceptor of the same operand: predicate(K) == true  ==>  the acceptor returns Ok for every
run-time representation of K (K? = {K, nil}).  A `true` the acceptor rejects is an ill-typed program that reaches run time.
"""
import mir
from core import AnchorMissing
import absint
from absint import Interp, Int, Variant, Opaque
import tables

SCALARS = ["Bool", "Str", "Int", "BigInt", "Float", "Byte"]
COMPOUND = ["Function", "List", "Map", "Class", "Module", "Void"]

# (id, label, static predicate path, run-time acceptor path)
INSTANCES = [
    ("list-index", "x[i]: a type accepted as a list index is one Primitive::try_into_numeric_index converts",
     "compiler::ast::r#type::TypeLayout::can_be_used_as_list_index", "bytecode::variables::primitive::Primitive::try_into_numeric_index"),
]


def kname(k):
    if isinstance(k, tuple):
        return {"Opt": "%s?", "Cb": "captured(%s)", "Alias": "alias(%s)"}[k[0]] % kname(k[1])
    return k.lower()


def reps(k):
    if isinstance(k, tuple):
        if k[0] == "Opt":
            return reps(k[1]) + ["Nil"]
        return reps(k[1])
    return [k]


def universe():
    base = list(SCALARS)
    u = list(base) + COMPOUND + ["Nil"]
    u += [("Opt", k) for k in base] + [("Cb", k) for k in base] + [("Alias", k) for k in base]
    u += [("Cb", ("Opt", k)) for k in ("Int", "BigInt")] + [("Alias", ("Opt", k)) for k in ("Int", "BigInt")] + [("Opt", ("Cb", k)) for k in ("Int", "BigInt")]
    return u


def static_pred(T, fn, kind):
    it = Interp(T.F, models=tables.MODELS, max_depth=8, max_paths=256)
    try:
        outs = it.run(fn, [T.tl_value(kind, "x")])
    except (ValueError, KeyError):
        return None
    T.evals += 1
    vals = set()
    for o in outs:
        if o.kind == "return" and isinstance(o.value, Int):
            vals.add(bool(o.value.v))
        else:
            return None
    if it.exhausted or len(vals) != 1:
        return None
    return vals.pop()


def rt_accepts(T, fn, kind):
    """'ok' / 'err' / None(undecided) for one run-time kind."""
    it = Interp(T.F, models=tables.MODELS, max_depth=6, max_paths=256)
    outs = it.run(fn, [T.prim_value(kind, "x")])
    T.evals += 1
    res = set()
    for o in outs:
        if o.kind == "return" and isinstance(o.value, Variant) and o.value.adt == "core::result::Result":
            if o.value.name == "Ok":
                res.add("ok")
            elif not o.data_dep:
                res.add("err")
            else:
                res.add("err-data")
        elif o.kind == "panic" and not o.data_dep:
            res.add("err")
        else:
            res.add("?")
    if it.exhausted:
        res.add("?")
    return res


def run(F, rep, ctx):
    T = tables.Tables(F)
    n = 0
    for iid, label, sp, rp in INSTANCES:
        sf = F.fn(sp)
        rf = F.fn(rp)
        if sf is None:
            raise AnchorMissing(sp)
        if rf is None:
            raise AnchorMissing(rp)
        accepted = []
        for k in universe():
            try:
                v = static_pred(T, sf, k)
            except Exception as e:  # a kind the ADT no longer has
                v = None
            if v is None:
                rep.ob("C03.predicate-table", "%s: %s(%s)" % (iid, mir.short(sf.path), kname(k)), "undecided", "not a constant boolean", sf.span, fn=sf.path)
                continue
            n += 1
            if not v:
                continue
            accepted.append(k)
            bad = []
            und = []
            for r in reps(k):
                a = rt_accepts(T, rf, r)
                if "err" in a:
                    bad.append(kname(r))
                elif "?" in a:
                    und.append(kname(r))
            st = "violated" if bad else ("undecided" if und else "ok")
            rep.ob("C03.predicate-table", "%s: `%s` is accepted statically => every run-time representation is accepted by %s" % (iid, kname(k), mir.short(rf.path)),
                   st, "rejected at run time: %s" % bad if bad else ("undecided: %s" % und if und else ""), sf.span, fn=sf.path,
                   key="C03.predicate-table|%s|%s" % (iid, kname(k)))
        rep.ob("C03.predicate-table", "%s: the predicate accepts at least the plain int and bigint kinds (table is not vacuous)" % iid,
               "ok" if "Int" in accepted and "BigInt" in accepted else "violated", "accepted: %s" % [kname(k) for k in accepted], sf.span, fn=sf.path,
               key="C03.predicate-table|%s|non-vacuous" % iid)
    rep.floor("C03.predicate-table cells decided", n, 30)


def run_conditions(F, rep):
    """Conditions of `if` / `while` / `assert`: a type accepted by TypeLayout::is_boolean is one the three handlers accept in every run-time
    representation (they destructure Primitive::Bool and fail on anything else)."""
    from props import C12
    T = tables.Tables(F)
    sf = F.fn("compiler::ast::r#type::TypeLayout::is_boolean")
    if sf is None:
        raise AnchorMissing("TypeLayout::is_boolean")
    accepted = []
    n = 0
    for k in universe():
        v = static_pred(T, sf, k)
        if v is None:
            rep.ob("C03.predicate-table", "condition: is_boolean(%s)" % kname(k), "undecided", "not a constant boolean", sf.span, fn=sf.path)
            continue
        n += 1
        if v:
            accepted.append(k)
    for k in accepted:
        for hname, what in (("if_stmt", "if"), ("while_loop", "while"), ("assert", "assert")):
            h = C12.handler(F, hname)
            bad = []
            for r in reps(k):
                res, ex = C12.run_handler(F, T, h, T.prim_value(r, "cond"), arg0="1")
                # a kind-determined failure (every path fails, or a failure that does not depend on the payload) is a type error at run time
                kinds = {kk for kk, i in res if not (kk == "Err" and i.get("data_dep"))}
                if ex or not res or "Ok" not in {kk for kk, _ in res} or any(kk in ("Err", "Panic") and not i.get("data_dep") for kk, i in res):
                    bad.append(kname(r))
            rep.ob("C03.predicate-table", "condition: `%s` is accepted as a %s condition => the %s handler accepts every run-time representation" % (kname(k), what, hname),
                   "violated" if bad else "ok", "rejected at run time: %s" % bad if bad else "", sf.span, fn=sf.path,
                   key="C03.predicate-table|condition-%s|%s" % (what, kname(k)))
    rep.ob("C03.predicate-table", "condition: is_boolean accepts bool (table is not vacuous)", "ok" if "Bool" in accepted else "violated",
           "accepted: %s" % [kname(k) for k in accepted], sf.span, fn=sf.path, key="C03.predicate-table|condition|non-vacuous")
    rep.floor("C03.predicate-table condition cells decided", n, 30)
