"""C05 — numeric operators yield the exact value and the promoted kind, or fail (structural clauses).

 (a) promotion table: the run-time kind table of every arithmetic / comparison / bitwise / shift operator on
     the four numeric kinds equals the table stated in the property (oracle: the specification, rules/promotion.json);
 (b) the zero-divisor guard of / and % covers every divisor kind (evaluated with a zero payload);
 (c) no silent wrap: the operator implementations use no wrapping/unchecked arithmetic, and every build profile
     of the CLI has overflow checks on (so `x + y` on the narrow kind traps instead of wrapping);
 (d) widening only: every cast in the operator / ordering / equality implementations goes up u8 < i32 < i128 < f64.
"""
import json
import os
import re

import mir
import rules
import tables
from absint import Int, Flt
from mir import op_local, op_const
from core import AnchorMissing, VERIF
from props import _optables
from tables import NUMERIC, PRIM

RANK = {"Byte": 0, "Int": 1, "BigInt": 2, "Float": 3}
ARITH = {"+": "Add", "-": "Sub", "*": "Mul", "/": "Div", "%": "Rem"}
BITS = {"&": "BitAnd", "|": "BitOr", "xor": "BitXor", "<<": "Shl", ">>": "Shr"}
CMP = {"<": "lt", "<=": "le", ">": "gt", ">=": "ge"}
CAST_RANK = {"u8": 0, "u32": 1, "i32": 1, "u64": 2, "i64": 2, "usize": 2, "isize": 2, "i128": 3, "u128": 3, "f64": 4, "f32": 4}
SIGNED = {"i32", "i64", "i128", "isize"}


def spec(sym, l, r):
    """The table stated in the property."""
    if sym in ARITH:
        return ("Ok", max((l, r), key=lambda k: RANK[k]))
    if sym in BITS:
        if "Float" in (l, r):
            return ("Err", None)
        return ("Ok", max((l, r), key=lambda k: RANK[k]))
    return ("Ok", "Bool")


def operator_fns(F):
    out = []
    for f in F.crates["bytecode"].fns:
        if f.path.startswith("bytecode::variables::ops::") or f.path in (PRIM + "::equals", PRIM + "::negate"):
            out.append(f)
    return out


def run(ctx, rep):
    F = ctx.facts("default", ["bytecode", "compiler"])
    O = _optables.get(F)
    T = O.T
    rep.explain("C05: the interpreter's operator implementations are read as a kind table by abstract interpretation of their MIR (through "
                "the bin_op handler) and compared with the promotion table stated in the property; the zero guards are evaluated with a "
                "zero payload per divisor kind; casts and arithmetic primitives in the operator impls are inventoried; build profiles are "
                "read from the workspace manifest.")
    rep.assume("rustc's semantics of +,-,*,/,% on i32/i128/u8/f64 (exactness of the primitive operations is trusted)")
    rep.assume("with overflow checks on, integer overflow traps (panics) instead of wrapping; that the trap is reported as an MScript error is C17's clause")

    # ---- (a) -------------------------------------------------------------------------------------------
    n = 0
    for sym in list(ARITH) + list(BITS) + list(CMP) + ["=="]:
        for l in NUMERIC:
            for r in NUMERIC:
                want = spec(sym, l, r)
                rt = T.runtime("equals", l, r) if sym == "==" else O.rt_via_binop(sym, l, r)
                n += 1
                oks = {k for (tag, k, dd) in rt if tag == "Ok"}
                kerr = [x for x in rt if x[0] == "Err" and not x[2]]
                und = [x for x in rt if x[0] == "Undecided"]
                key = "C05.promotion|%s|%s,%s" % (sym, l.lower(), r.lower())
                inst = "%s %s %s -> %s" % (l.lower(), sym, r.lower(), (want[1] or "error").lower() if want[0] == "Ok" else "error")
                if und:
                    rep.ob("C05.promotion", inst, "undecided", str(sorted(und, key=str)[:2]), None, fn="bytecode::variables::ops", key=key)
                elif want[0] == "Ok":
                    ok = oks == {want[1]} and not kerr
                    rep.ob("C05.promotion", inst, "ok" if ok else "violated", "run time yields %s%s" % (sorted(str(x) for x in oks), " and a kind error" if kerr else ""),
                           None, fn="bytecode::variables::ops", key=key)
                else:
                    ok = not oks and bool(kerr)
                    rep.ob("C05.promotion", inst, "ok" if ok else "violated", "run time yields %s" % sorted(str(x) for x in rt), None,
                           fn="bytecode::variables::ops", key=key)
    rep.floor("C05.promotion cells", n, 200)

    operator_reaches_the_interpreter(F, rep)
    # ... and reaches it with the operands as written: the parser's infix callback builds `a op b` from its left and right operand, each from its own
    # (a parser-level rewrite such as `x + 1 + 2 => x + 3` performs other operations than the ones written: another rounding, a masked overflow) - C15's clause
    from props import C15 as _c15
    _c15.infix_operands_keep_their_sides(F, rep, rule="C05.operands-as-written")

    # ---- (b) -------------------------------------------------------------------------------------------
    zero = {"Int": Int(0, "i32"), "BigInt": Int(0, "i128"), "Byte": Int(0, "u8"), "Float": Flt(0.0)}
    for sym, opn in (("/", "Div"), ("%", "Rem")):
        for r in NUMERIC:
            bad = []
            for l in NUMERIC:
                rt = T.runtime(opn, l, r, rpayload=zero[r])
                if any(x[0] != "Err" for x in rt):
                    bad.append("%s %s %s(0) -> %s" % (l.lower(), sym, r.lower(), sorted((x[0], str(x[1])) for x in rt if x[0] != "Err")))
            rep.ob("C05.zero-divisor", "%s by a zero %s fails with an error" % (sym, r.lower()), "violated" if bad else "ok",
                   "; ".join(bad)[:400], None, fn="bytecode::variables::ops::%s" % opn.lower(), key="C05.zero-divisor|%s|%s" % (sym, r.lower()))

    # ---- (b') the extreme of each signed kind against -1 ------------------------------------------------------------------
    # MIN % -1 is 0 (representable: must be the result); MIN / -1 is not representable (must stop, by error or - known finding of C17 - panic).
    # Decided by evaluating the operator implementation on these two concrete operands (std's Div / Rem on known integers are modelled with
    # Rust's semantics, including the overflow panic).
    mins = {"Int": Int(-2**31, "i32"), "BigInt": Int(-2**127, "i128")}
    neg1 = {"Int": Int(-1, "i32"), "BigInt": Int(-1, "i128")}
    n_ext = 0
    for l in ("Int", "BigInt"):
        for r in ("Int", "BigInt"):
            if l == "Int" and r == "BigInt":
                continue        # the int operand is widened first: no extreme there
            for sym, opn in (("%", "Rem"), ("/", "Div")):
                rt = T.runtime(opn, l, r, lpayload=mins[l], rpayload=neg1[r])
                n_ext += 1
                tags = sorted({x[0] for x in rt})
                if sym == "%":
                    ok = tags == ["Ok"]
                    why = "" if ok else "the exact result 0 is representable but the implementation ends in %s" % sorted(str(x[:2]) for x in rt)
                else:
                    ok = "Ok" not in tags and bool(tags)
                    why = "" if ok else "the exact result is not representable but a value is produced: %s" % sorted(str(x[:2]) for x in rt)
                rep.ob("C05.extremes", "%s::MIN %s -1 (%s) %s" % (l.lower(), sym, r.lower(), "is 0" if sym == "%" else "stops with a failure"),
                       "ok" if ok else "violated", why, None, fn="bytecode::variables::ops::%s" % opn.lower(),
                       key="C05.extremes|%s|%s,%s" % (sym, l.lower(), r.lower()))
    rep.floor("C05.extremes evaluations", n_ext, 6)

    # ---- (b'') comparisons by numeric value across kinds ---------------------------------------------------------------------
    # `<, <=, >, >=` on every pair of numeric kinds, evaluated on three concrete operand pairs (equal, smaller, larger).  An operator the
    # impl does not define falls back to the trait's provided method, which is built on partial_cmp: then that is what is evaluated.
    from absint import Interp
    ORD = "bytecode::variables::ops::ord::<impl core::cmp::PartialOrd for bytecode::variables::primitive::Primitive>::"

    def numval(kind, v):
        return {"Int": Int(v, "i32"), "BigInt": Int(v, "i128"), "Byte": Int(v, "u8"), "Float": Flt(float(v))}[kind]
    truth = {"lt": lambda a, b: a < b, "le": lambda a, b: a <= b, "gt": lambda a, b: a > b, "ge": lambda a, b: a >= b}
    n_cmp = 0
    for opn in ("lt", "le", "gt", "ge"):
        direct = F.fn(ORD + opn)
        pc = F.fn(ORD + "partial_cmp")
        if direct is None and pc is None:
            raise AnchorMissing("PartialOrd for Primitive")
        bad, und = [], []
        for l in NUMERIC:
            for r in NUMERIC:
                for a, b in ((5, 5), (3, 5), (7, 5)):
                    it = Interp(F, models=tables.MODELS, max_depth=8, max_paths=256)
                    outs = it.run(direct if direct is not None else pc, [T.prim_value(l, "l", numval(l, a)), T.prim_value(r, "r", numval(r, b))])
                    n_cmp += 1
                    got = set()
                    for o in outs:
                        v = o.value
                        if o.kind != "return":
                            got.add(o.kind)
                        elif direct is not None:
                            got.add(bool(v.v) if isinstance(v, Int) else "?")
                        else:
                            # Option<Ordering> -> the provided method's answer
                            name = None
                            if isinstance(v, tables.Variant) and v.name == "Some" and v.fields:
                                inner = v.fields[0]
                                name = getattr(inner, "name", None)
                                if name is None and isinstance(inner, Int):
                                    name = {-1: "Less", 0: "Equal", 1: "Greater", 255: "Less"}.get(inner.v)
                            if name is None:
                                got.add("?")
                            else:
                                got.add({"lt": name == "Less", "le": name in ("Less", "Equal"), "gt": name == "Greater", "ge": name in ("Greater", "Equal")}[opn])
                    want = truth[opn](a, b)
                    if got == {want}:
                        continue
                    (und if ("?" in got or not got or len(got) > 1) else bad).append("%s(%d) %s %s(%d) -> %s, expected %s" % (l.lower(), a, opn, r.lower(), b, sorted(map(str, got)), want))
        rep.ob("C05.compare-values", "`%s` compares numbers of any two kinds by value%s" % (opn, "" if direct is not None else " (provided method over partial_cmp)"),
               "violated" if bad else ("undecided" if und else "ok"), "; ".join((bad or und)[:4]), (direct or pc).span, fn=(direct or pc).path,
               key="C05.compare-values|%s" % opn)
    rep.floor("C05.compare-values evaluations", n_cmp, 150)
    equality_route(F, rep)
    # comparisons (and everything else the tables above do not cover) are evaluated by the interpreter, never by the constant folder
    from props import C06 as _c06
    _c06.only_table_operators_are_folded(F, rep, rule="C05.fold-scope")

    # ---- (c) -------------------------------------------------------------------------------------------
    ofns = operator_fns(F)
    rep.floor("C05.operator impl functions", len(ofns), 20)
    wrapping = []
    arith_sites = 0
    for f in ofns:
        for c in f.calls():
            nm = mir.strip_generics(c.callee())
            if re.search(r"::(wrapping_|unchecked_|overflowing_|saturating_)", nm):
                wrapping.append((f.path, nm, c.span))
            if re.search(r"core::ops::arith::(Add|Sub|Mul|Neg)", nm) and re.search(r"\b(i32|i128|u8)\b", nm):
                arith_sites += 1
        for blk in f.blocks:
            if blk["t"]["k"] == "assert" and blk["t"]["msg"].startswith("Overflow"):
                arith_sites += 1
    rep.ob("C05.no-wrap", "operator implementations use no wrapping/unchecked/saturating arithmetic", "violated" if wrapping else "ok",
           str(wrapping[:3]), None, fn="bytecode::variables::ops")
    rep.extra["plain_integer_arithmetic_sites_in_operator_impls"] = arith_sites
    try:
        import tomllib
        with open(os.path.join(os.environ.get("MSCRIPT_REPO", "/repo"), "Cargo.toml"), "rb") as fh:
            man = tomllib.load(fh)
    except Exception as e:  # noqa: BLE001
        man = None
        rep.ob("C05.no-wrap", "workspace manifest readable", "undecided", str(e), "Cargo.toml")
    if man is not None:
        prof = man.get("profile", {})
        defaults = {"dev": True, "test": True, "release": False, "bench": False}
        for name in sorted(set(defaults) | set(prof)):
            if name in ("test", "bench"):
                continue
            p = prof.get(name, {})
            inh = p.get("inherits")
            base = defaults.get(name, defaults.get(inh, False) if inh else False)
            if inh and "overflow-checks" in prof.get(inh, {}):
                base = prof[inh]["overflow-checks"]
            val = p.get("overflow-checks", base)
            if arith_sites == 0:
                rep.ob("C05.no-wrap", "profile %s" % name, "ok", "no plain integer arithmetic in the operator impls", "Cargo.toml")
            else:
                rep.ob("C05.no-wrap", "profile `%s` builds the interpreter with overflow checks" % name, "ok" if val else "violated",
                       "%d plain integer +,-,*,neg sites in the operator impls wrap silently when overflow-checks is off "
                       "(e.g. 2147483647 + 1 == -2147483648)" % arith_sites, "Cargo.toml", fn="Cargo.toml", key="C05.no-wrap|profile|%s" % name)

    # ---- left shifts are exact ------------------------------------------------------------------------------
    from props import _shifts
    _shifts.run(F, rep, "C05.exact-shift", "bytecode", "interpreter")

    # ---- operand order -----------------------------------------------------------------------------------
    from props import _operands
    nonc = [T.rt_fn(o) for o in ("Sub", "Div", "Rem", "Shl", "Shr")]
    for o in ("lt", "le", "gt", "ge"):
        try:
            nonc.append(T.rt_fn(o))
        except AnchorMissing:
            pass        # not written out in the impl: the provided method over partial_cmp is judged by C05.compare-values
    n_sites = _operands.run(F, rep, "C05.operand-order", nonc, "interpreter")
    rep.floor("C05.operand-order sites", n_sites, 60)

    # ---- each operator applies its own primitive ---------------------------------------------------------
    from props import _primsem
    n_prim = 0
    for tr in _primsem.EXPECTED:
        n_prim += _primsem.check(F, rep, "C05.primitive-semantics", "interpreter", tr, T.rt_fn(tr))
    rep.floor("C05.primitive-semantics arithmetic sites", n_prim, 40)

    # ---- (d) -------------------------------------------------------------------------------------------
    ncast = 0
    for f in ofns:
        idx = 0
        for bi, si, dst, rv, s in f.assigns():
            if "cast" not in rv or not rv["cast"].startswith(("IntToInt", "IntToFloat", "FloatToInt", "FloatToFloat")):
                continue
            if any(m in ("assert", "assert_eq", "debug_assert", "panic", "unreachable", "format_args", "bail") for m in (s.get("mc") or [])):
                continue
            a, b = rv["from"], rv["to"]
            if a not in CAST_RANK or b not in CAST_RANK:
                continue
            ncast += 1
            up = CAST_RANK[b] > CAST_RANK[a] or (a == b)
            # same rank but sign change, or narrowing
            if CAST_RANK[b] == CAST_RANK[a] and a != b:
                up = False
            if b in ("u8", "u32", "u64", "usize", "u128") and a in SIGNED:
                up = False
            rep.ob("C05.widening", "cast %s -> %s in %s" % (a, b, mir.short(f.path)), "ok" if up else "violated",
                   "a narrowing or sign-changing cast truncates an operand before the operation" if not up else "", s.get("us") or s.get("sp"),
                   fn=f.path, key="C05.widening|%s|%s->%s|#%d" % (mir.short(f.path), a, b, idx))
            idx += 1
    rep.floor("C05.casts in operator impls", ncast, 40)



def _bool_source(fn, local, limit=24):
    """Walk the single-definition chain of a bool backwards: (call reached or None, number of `!` passed, what stopped the walk)."""
    nots = 0
    cur = local
    for _ in range(limit):
        ds = rules.defs_of(fn, cur)
        if len(ds) != 1:
            return None, nots, "%d definitions of _%d" % (len(ds), cur)
        d = ds[0]
        if d[0] == "call":
            c = d[4]
            if c.matches(rules.TRY_BRANCH) or c.callee().endswith(("Result::<T, E>::unwrap", "Result::<T, E>::expect")):
                cur = op_local(c.args[0])
                if cur is None:
                    return None, nots, "constant operand"
                continue
            return c, nots, ""
        rv = d[4]
        if "use" in rv:
            nxt = op_local(rv["use"])
        elif "un" in rv and rv["un"] == "Not":
            nots += 1
            nxt = op_local(rv["op"])
        elif "agg" in rv and len(rv["ops"]) == 1:
            nxt = op_local(rv["ops"][0])
        else:
            return None, nots, "computed by %s" % (sorted(k for k in rv if k not in ("lty", "oty"))[:2])
        if nxt is None:
            return None, nots, "constant"
        cur = nxt
    return None, nots, "chain too long"


def equality_route(F, rep, rule="C05.equality-route"):
    """`==` and `!=` compare numbers of different kinds by value: that is Primitive::equals (whose kind table C05.promotion evaluates); the
    derived PartialEq of Primitive is structural (Int(5) != Float(5.0), Int(5) != Byte(5)).  (1) The `equ` handler pushes what equals returned
    and `neq` its negation; (2) nothing in the interpreter that works on program values calls the derived `<Primitive as PartialEq>::eq/ne`
    (directly, or through a std routine instantiated at Primitive that is built on it)."""
    EQUALS = PRIM + "::equals"
    for name, want in (("equ", 0), ("neq", 1)):
        h = F.fn("bytecode::instruction::implementations::" + name)
        if h is None:
            raise AnchorMissing("implementations::" + name)
        pushes = h.calls_to("bytecode::context::Ctx::push")
        rep.floor("%s results pushed by %s" % (rule, name), len(pushes), 1)
        for i, c in enumerate(pushes):
            l = op_local(c.args[1]) if len(c.args) > 1 else None
            src, nots, why = _bool_source(h, l) if l is not None else (None, 0, "constant")
            ok = src is not None and src.callee() == EQUALS and nots % 2 == want
            detail = "" if ok else ("the pushed bool comes from %s with %d negation(s)%s: `5 %s 5.0` does not compare by value" % (
                src.callee() if src is not None else "no call", nots, (" (%s)" % why) if why else "", "==" if name == "equ" else "!="))
            rep.ob(rule, "`%s` pushes %s Primitive::equals returned" % (name, "what" if want == 0 else "the negation of what"), "ok" if ok else "violated", detail,
                   c.span, fn=h.path, key="%s|%s#%d" % (rule, name, i))
    # (1b) unary minus goes through Primitive::negate (whose kind table and overflow behaviour are decided elsewhere) on the operand itself
    ng = F.fn("bytecode::instruction::implementations::neg")
    if ng is None:
        raise AnchorMissing("implementations::neg")
    ncalls = ng.calls_to(PRIM + "::negate")
    top = ng.calls_to("bytecode::context::Ctx::get_last_op_item_mut")
    own = [1 for bi, si, dst, rv, st in ng.assigns() if rv.get("un") == "Neg" or rv.get("bin") in ("Sub", "SubWithOverflow", "Mul", "MulWithOverflow")]
    recv_ok = False
    for c in ncalls:
        l = op_local(c.args[0]) if c.args else None
        oc = rules.origin_calls(ng, l, transparent=rules.TRANSPARENT | {rules.TRY_BRANCH, "core::option::Option::unwrap"}) if l is not None else []
        recv_ok = recv_ok or any(x in top for x in oc)
    bypass = [b for b in rules.ok_return_blocks(ng) if not rules.call_dominates(ng, ncalls, b)]
    own += bypass
    okn = bool(ncalls) and recv_ok and not own and all(c.target is not None and any(
        k.matches(rules.TRY_BRANCH) and op_local(k.args[0]) == c.dst["l"] for k in ng.calls()) for c in ncalls)
    rep.ob(rule, "`neg` negates the top operand with Primitive::negate and hands its failure on", "ok" if okn else "violated",
           "" if okn else "%d negate call(s), receiver is the top operand: %s, own arithmetic / successful returns that bypass negate: %d" % (len(ncalls), recv_ok, len(own)), ng.span, fn=ng.path,
           key=rule + "|neg")
    # (2) who may call the structural equality
    ALLOWED = {
        "<bytecode::stack::PrimitiveFlagsPair as core::cmp::PartialEq>::eq": "derived on the (value, flags) pair; checked below to have no caller among the operations",
    }
    STD_EQ = re.compile(r"::(contains|starts_with|ends_with|dedup|eq|ne|strip_prefix|strip_suffix|position)\b")
    n = 0
    bad = []
    derived = re.compile(r"^<bytecode::(variables::primitive::(Primitive|GcVector|HeapPrimitive)|stack::PrimitiveFlagsPair) as core::cmp::PartialEq>::(eq|ne)$")
    for f in F.crates["bytecode"].fns:
        for c in f.calls():
            nm = c.callee()
            n += 1
            hit = derived.match(nm) or (STD_EQ.search(mir.strip_generics(nm)) and not nm.startswith("<bytecode::") and re.search(
                r"<[^>]*bytecode::(variables::primitive::(Primitive|GcVector)|stack::PrimitiveFlagsPair)\b", nm) and "PartialEq" in nm)
            if not hit:
                continue
            if f.path in ALLOWED or f.path.startswith("<bytecode::variables::primitive::") and " as core::cmp::PartialEq>" in f.path:
                continue
            bad.append((f.path, nm, c.span))
    for fp, nm, sp in bad:
        rep.ob(rule, "%s compares program values with the structural equality %s" % (mir.short(fp), mir.short(nm)), "violated",
               "the derived PartialEq tells Int(5) from Float(5.0) and Byte(5): program values are compared with Primitive::equals", sp, fn=fp,
               key="%s|structural|%s" % (rule, mir.short(fp)))
    if not bad:
        rep.ob(rule, "no operation of the interpreter compares program values with the derived (structural) PartialEq", "ok", "%d call sites inspected" % n, None,
               key=rule + "|structural")
    rep.floor(rule + " call sites inspected", n, 2000)


def _opaque_call(it, p, fid, fn, t, args):
    return __import__("absint").Opaque("typing")


# what the type checker says about an operand is an input of the generator, not something to inline: both answers are explored
OPAQUE_TYPING = {"compiler::ast::math_expr::Expr::for_type": _opaque_call, "compiler::ast::value::Value::for_type": _opaque_call,
                 "compiler::ast::r#type::IntoType::for_type": _opaque_call, "compiler::ast::r#type::IntoType::for_type_force_mixed": _opaque_call,
                 "compiler::ast::r#type::TypeLayout::is_numeric": _opaque_call}


def operator_reaches_the_interpreter(F, rep, rule="C05.operator-applied"):
    """The promoted kind and the failure cases of `a op b` are those of the interpreter's operator implementation (the tables above).  They
    only hold for the program if the operator *is applied*: the code of a binary operator expression that is not a compile-time constant
    (constants are C06's clause) contains, on every path of the generator, the instruction that applies it (bin_op / equ / neq) exactly once,
    after both operands.  A generator path that emits an operand alone - an "identity" shortcut such as `x + 0 => x` - keeps the kind of that
    operand (`byte + 0` stays a byte, where the table says int) and skips the operator's checks."""
    import seqgen
    from absint import Variant, Opaque
    EXPR = "compiler::ast::math_expr::Expr"
    OP = "compiler::ast::math_expr::Op"
    ea, oa = F.adt(EXPR), F.adt(OP)
    cd = F.fn("compiler::ast::math_expr::compile_depth")
    if ea is None or oa is None or cd is None:
        raise AnchorMissing("Expr / Op / compile_depth")
    en = [v["name"] for v in ea["variants"]]
    on = [v["name"] for v in oa["variants"]]
    APPLY = ("bin_op", "equ", "neq", "bin_op_assign", "unwrap_into")
    n = 0
    for op in on:
        node = Variant(EXPR, en.index("BinOp"), "BinOp", [Opaque("lhs"), Variant(OP, on.index(op), op, []), Opaque("rhs")])
        rows, ex = seqgen.sequences(F, cd, [node, Opaque("state"), Opaque("depth")], extra_models=OPAQUE_TYPING)
        seqs = [r["seq"] for r in rows if r["seq"] is not None]
        key = "%s|%s" % (rule, op)
        if ex or not seqs:
            rep.ob(rule, "`a %s b`: the emitted code applies the operator" % op, "undecided", "no sequence read (exhausted=%s)" % ex, cd.span, fn=cd.path, key=key)
            continue
        n += 1
        bad = []
        for sq in seqs:
            k = [i for i, x in enumerate(sq) if x[0] == "ins" and x[1] in APPLY]
            last_code = max([i for i, x in enumerate(sq) if x[0] == "code"] or [-1])
            shown = " ".join(("<%s>" % x[1].split(".")[0]) if x[0] == "code" else x[1] for x in sq)
            if len(k) != 1:
                bad.append("`%s` applies the operator %d times" % (shown, len(k)))
            elif k[0] < last_code:
                bad.append("`%s` applies the operator before an operand has run" % shown)
        rep.ob(rule, "`a %s b`: every path of the generator lays down the instruction that applies the operator, once, after the operands" % op,
               "violated" if bad else "ok", "; ".join(sorted(set(bad))[:3]) if bad else "", cd.span, fn=cd.path, key=key)
    rep.floor(rule + " operators judged", n, 20)
