"""C01 — the control-transfer clause of the core statement semantics.

Not decided: what a program prints.  Decided: the part of it that is visible in the shape of the generated code for *every* program --
where each construct's jumps go (props/C09.py holds the rules; analysis/jumps.py the engine):
  intended   if-false -> else arm / past the statement; end of then-arm -> past the statement; loop test false -> first instruction after the
             loop; back edge -> first instruction of the test; break -> first instruction after the loop; continue -> back edge (while) /
             step code (from); `&&` `||` `or` skip exactly the right operand.
  skeleton   a from-loop parks counter and bound in two registers, tests them with `<` (to) / `<=` (through), adds the step (default: the
             constant 1) to the counter after the body, and frees the registers afterwards unless the counter's name collides.
  balance    no construct leaves a frame open or closes one it did not open (a leaked frame changes which variables later statements see).
  handlers / loop / return
             if_stmt and while_loop jump on false and fall through on true; jmp / jmp_pop / done / else_stmt / ret signal what the generators
             rely on; Function::run applies jumps without the +1 step and returns on ret after dropping the function's block frames.
These are necessary conditions: breaking any of them changes the output of some core program.
"""
from props import C09


def run(ctx, rep):
    F = ctx.facts("default", ["compiler", "bytecode"])
    rep.explain("C01 (control-transfer clause): the control-flow generators are evaluated abstractly with opaque children and symbolic block lengths; "
                "each jump's landing point is compared, as an exact linear normal form, with the boundary the construct's meaning names.  Handlers and "
                "the interpreter loop are read as tables / by reachability.  Nothing is executed; what a program prints is not decided.")
    rep.assume("children of a construct are themselves words of this kind (induction over the AST)")
    rep.assume("not decided: values of conditions and expressions, printed output, exit status (C17 decides the failure report)")
    old = C09.P
    C09.P = "C01"
    try:
        C09.generators(F, rep)
        C09.short_circuit(F, rep)
        C09.handler_tables(F, rep)
        C09.returns(F, rep)
        C09.interpreter_loop(F, rep)
    finally:
        C09.P = old
