"""C01 — the control-transfer clause of the core statement semantics.

Not decided: what a program prints.  Decided: the part of it that is visible in the shape of the generated code for *every* program --
where each construct's jumps go (props/C09.py holds the rules; analysis/jumps.py the engine):
  intended   if-false -> else arm / past the statement; end of then-arm -> past the statement; loop test false -> first instruction after the
             loop; back edge -> first instruction of the test; break -> first instruction after the loop; continue -> back edge (while) /
             step code (from); `&&` `||` `or` skip exactly the right operand.
  skeleton   a from-loop parks counter and bound in two registers, tests them with `<` (to) / `<=` (through), adds the step (default: the
             constant 1) to the counter after the body, and frees the registers afterwards unless the counter's name collides.
  balance    no construct leaves a frame open or closes one it did not open (a leaked frame changes which variables later statements see).
  handlers / loop / return
             if_stmt and while_loop jump on false and fall through on true; jmp / jmp_pop / done / else_stmt / ret signal what the generators
             rely on; Function::run applies jumps without the +1 step and returns on ret after dropping the function's block frames.
These are necessary conditions: breaking any of them changes the output of some core program.
"""
import mir
import jumps
from absint import Variant, Opaque, Tup, Int
from core import AnchorMissing
from props import C09


def parameters(F, rep):
    """the k-th parameter is bound to the k-th argument: FunctionParameters::compile emits `arg k  store <name k>` in order"""
    FP = "compiler::ast::function_parameters::FunctionParameters"
    a = F.adt(FP)
    fc = F.fn("<%s as compiler::ast::Compile>::compile" % FP)
    if a is None or fc is None:
        raise AnchorMissing("impl Compile for FunctionParameters")
    vn = [v["name"] for v in a["variants"]]
    if "Named" not in vn:
        raise AnchorMissing("FunctionParameters::Named")

    def name_model(it, p, fid, fn, t, args):
        v = jumps.deref_all(it, p, args[0])
        return Opaque("name-of:" + (v.tag if isinstance(v, Opaque) else repr(v))[:40])
    params = [Opaque("p0"), Opaque("p1"), Opaque("p2")]
    rows, ex = jumps.words(F, fc, [Variant(FP, vn.index("Named"), "Named", [Tup(params)]), Opaque("state")],
                           extra_models={"compiler::ast::ident::Ident::name": name_model})
    ws = sorted(set(C09.ok_words(rows)), key=jumps.show)
    bad = []
    for w in ws:
        if len(w) != 2 * len(params):
            bad.append("expected %d instructions, found `%s`" % (2 * len(params), jumps.show(w)))
            continue
        for k in range(len(params)):
            ar, stv = w[2 * k], w[2 * k + 1]
            aa = ar[3] if len(ar) > 3 else ()
            sa = stv[3] if len(stv) > 3 else ()
            if not (ar[:2] == ("ins", "arg") and len(aa) == 1 and isinstance(aa[0], Int) and aa[0].v == k):
                bad.append("parameter %d reads %s" % (k, jumps.show_item(ar)))
            if not (stv[:2] == ("ins", "store") and len(sa) == 1 and isinstance(sa[0], Opaque) and sa[0].tag == "str:name-of:p%d" % k):
                bad.append("argument %d is stored as %s" % (k, [getattr(x, "tag", repr(x)) for x in sa]))
    st = "undecided" if (ex or not ws) else ("violated" if bad else "ok")
    rep.ob("C01.parameters", "the k-th parameter is bound to the k-th argument (`arg k  store <name k>`, in order)", st,
           "; ".join(bad) if bad else "emitted: %s" % [jumps.show(w) for w in ws][:1], fc.span, fn=fc.path, key="C01.parameters|emission")
    rep.floor("C01.parameters words", len(ws), 1)


def run(ctx, rep):
    F = ctx.facts("default", ["compiler", "bytecode"])
    rep.explain("C01 (control-transfer clause): the control-flow generators are evaluated abstractly with opaque children and symbolic block lengths; "
                "each jump's landing point is compared, as an exact linear normal form, with the boundary the construct's meaning names.  Handlers and "
                "the interpreter loop are read as tables / by reachability.  Nothing is executed; what a program prints is not decided.")
    rep.assume("children of a construct are themselves words of this kind (induction over the AST)")
    rep.assume("not decided: values of conditions and expressions, printed output, exit status (C17 decides the failure report)")
    old = C09.P
    C09.P = "C01"
    try:
        C09.generators(F, rep)
        C09.short_circuit(F, rep)
        C09.handler_tables(F, rep)
        C09.returns(F, rep)
        C09.interpreter_loop(F, rep)
        C09.children_code_is_not_edited(F, rep)
    finally:
        C09.P = old
    parameters(F, rep)
    from props import _viewread
    _viewread.run(F, rep, "C01.view-read")
    blank_return(F, rep)
    # a statement keyword is a word: `breakfast()` in a loop body is a call, not `break` followed by `fast()`
    from props import _keywords
    nk = _keywords.run(F, rep, "C01.keyword-boundary")
    rep.floor("C01.keyword-boundary keyword sites judged", nk, 15)
    # an operand the folder drops is a statement's worth of output / a failure that never happens (`probe() || true`)
    from props import C15 as _c15
    _c15.fold_keeps_operands(F, rep, rule="C01.fold-keeps-operands")
    # a condition over constants (`if 9007199254740993 > 9007199254740992`) takes the branch the interpreter would take only if the folder hands back
    # nothing but what the compared operator tables produce (C06's clause: a comparison folded through f64 is outside of them)
    from props import C06 as _c06
    _c06.only_table_operators_are_folded(F, rep, rule="C01.fold-scope")
    # `x + f()` reads x before f runs: the operands of the binary operators are laid down left to right (C15's clause; a program of assignments, calls and
    # expressions prints something else otherwise)
    from core import Report as _Report
    tmp = _Report("C15", rep.tier)
    _c15.run(ctx, tmp)
    k_ = 0
    for o in tmp.obligations:
        if o["key"].startswith("C15.order|binop|") or o["key"].startswith("C15.parked|"):
            k_ += 1
            rep.ob("C01.operand-order", o["instance"], o["status"], o["detail"], o["where"], key=o["key"].replace("C15.", "C01.operand-order|", 1), fn=o.get("fn"))
    rep.floor("C01.operand-order clauses", k_, 30)



def blank_return(F, rep, rule="C01.blank-return"):
    """A function without a declared result yields void, and `return` without a value is how such a function ends early (`if c { return }`; the
    case table in Parser::return_statement lists it).  ScopeReturnStatus::get_type answers Some(void) for those functions, so the
    "no value was supplied" refusal of a blank return has to leave void out: the value-less path of return_statement (or a closure it hands
    to Option::filter and the like) tests the expected type against TypeLayout::Void.  Without it every blank `return` is refused."""
    rs = None
    for g in F.crates["compiler"].fns:
        if g.path.endswith("::return_statement") and "impl compiler::parser::Parser" in g.path and g.kind != "Closure":
            rs = g
    if rs is None:
        raise AnchorMissing("Parser::return_statement")
    tl = F.adt("compiler::ast::r#type::TypeLayout")
    void_i = str([v["name"] for v in tl["variants"]].index("Void"))
    gt = F.fn("compiler::scope::ScopeReturnStatus::get_type")
    if gt is None:
        raise AnchorMissing("ScopeReturnStatus::get_type")
    # does get_type answer Some(..) for the Void status?  (its switch has an arm for Void that does not lead to the None result only)
    sr = F.adt("compiler::scope::ScopeReturnStatus")
    srn = [v["name"] for v in sr["variants"]]
    void_some = False
    for blk in gt.blocks:
        t = blk["t"]
        if t["k"] == "switch" and t.get("dty") == "isize":
            tg = dict(t["targets"]).get(str(srn.index("Void")))
            if tg is not None and tg != t["otherwise"]:
                void_some = True
    tests = 0
    for g in [rs] + F.closures_of(rs):
        for blk in g.blocks:
            t = blk["t"]
            if t["k"] != "switch" or t.get("dty") != "isize":
                continue
            dl = mir.op_local(t["discr"])
            for s_ in blk["s"]:
                rv = s_.get("rv") or {}
                if "d" in s_ and s_["d"]["l"] == dl and "discr" in rv and "TypeLayout" in g.locals[rv["discr"]["l"]] and "ScopeReturnStatus" not in g.locals[rv["discr"]["l"]]:
                    if any(v == void_i for v, _ in t["targets"]):
                        tests += 1
    ok = tests > 0 or not void_some
    rep.ob(rule, "a blank `return` is not refused for a function that yields void", "ok" if ok else "violated",
           "" if ok else "get_type() answers Some(void) for a void function and return_statement never tests the expected type against void: `f = fn(x: int) { if x > 0 { return } print 2 }` "
                         "is refused (\"expected to return void, but no value was supplied\")", rs.span, fn=rs.path, key=rule)
