"""Shared extraction of the four codecs (W1 CompiledItem::repr, R split_string_v2,
W2 transpiler Instruction::repr, loader/line readers)."""
import absint
import codec
import mir
import rules
from absint import Variant, Opaque, TRUE, FALSE
from mir import op_local, op_const
from core import AnchorMissing


def need(F, path):
    f = F.fn(path)
    if f is None:
        raise AnchorMissing(path)
    return f


def reader(F):
    f = need(F, "bytecode::instruction::split_string_v2")
    return f, codec.reader_table(F, f, {2: TRUE})


def w1_rows(F, text):
    f = need(F, "compiler::ast::CompiledItem::repr")
    ci = F.adt("compiler::ast::CompiledItem")
    vi = [i for i, v in enumerate(ci["variants"]) if v["name"] == "Instruction"][0]
    rows = codec.writer_table(F, f, [Variant("compiler::ast::CompiledItem", vi, "Instruction", [Opaque("id"), Opaque("arguments")]),
                                    TRUE if text else FALSE])
    return f, rows


def w2_rows(F):
    f = need(F, "bytecode_dev_transpiler::Instruction::repr")
    rows = codec.writer_table(F, f, [Variant("bytecode_dev_transpiler::Instruction", 0, "Instruction", [Opaque("name"), Opaque("arguments")])])
    return f, rows


def normalise(rows, F=None):
    """Writer rows that processed the symbolic argument -> [{expr, cond, cond_text}]"""
    out = []
    for r in rows:
        if r["kind"] != "return":
            continue
        e = codec.per_arg_expr(r)
        if e is None:
            continue
        conds = []      # list of predicates on the argument string
        texts = []
        for a in r["assume"]:
            tag = a[0]
            if isinstance(tag, str) and tag.startswith("contains("):
                ev = [x for x in r["events"] if x[0] == "test-contains"]
                pat = ev[0][2][1] if ev and ev[0][2] and ev[0][2][0] == "lit" else None
                if pat is None:
                    raise codec.ShapeChanged("contains() with a non-literal pattern")
                val = bool(a[1][1])
                conds.append(lambda s, _p=pat, _v=val: (_p in s) == _v)
                texts.append(("contains %r" % pat) if val else ("lacks %r" % pat))
            elif isinstance(tag, str) and tag.startswith("is_empty("):
                if "'arg'" not in tag:
                    continue
                if "'repl'" in tag:
                    # emptiness of the replaced string == emptiness of the argument only if no replacement deletes text
                    pass
                val = bool(a[1][1])
                conds.append(lambda s, _v=val: (s == "") == _v)
                texts.append("is empty" if val else "is not empty")
            elif isinstance(tag, tuple) and tag and tag[0] == "quant":
                _, which, unit, cdef, expr = tag
                pred = codec.closure_predicate(F, cdef, unit)
                val = bool(a[1][1])
                if which == "any":
                    conds.append(lambda s, _p=pred, _v=val, _e=expr: any(_p(c) for c in codec.apply_expr(_e, s)) == _v)
                else:
                    conds.append(lambda s, _p=pred, _v=val, _e=expr: all(_p(c) for c in codec.apply_expr(_e, s)) == _v)
                texts.append("%s of %s satisfies %s: %s" % ("some " + unit[:-1] if which == "any" else "every " + unit[:-1], codec.expr_str(expr),
                                                            mir.short(cdef), val))
            elif isinstance(tag, str) and tag.startswith("cmp:"):
                continue
            else:
                raise codec.ShapeChanged("writer path depends on %r" % (a,))

        def cond(s, _c=tuple(conds)):
            return all(f(s) for f in _c)
        out.append({"expr": e, "cond": cond if conds else None, "cond_text": " and ".join(texts) or "always"})
    if not out:
        raise codec.ShapeChanged("no writer path appends the argument")
    return out


def final_template(f):
    """fmt templates of the writer's final format! (record framing)."""
    out = []
    for kind, val, where in rules.string_literals(f):
        if kind == "fmt":
            out.append(val)
    return out


def class_name(c):
    return {"\\": "backslash", '"': "double-quote", " ": "space", "\t": "tab", "\n": "newline", "\r": "carriage-return",
            "x": "other-ascii", "é": "non-ascii", "0": "digit", "": "empty-string", "\x0b": "vertical-tab", "\x0c": "form-feed",
            "\u0085": "next-line-U+0085", "\u00a0": "no-break-space-U+00A0", "\u3000": "ideographic-space-U+3000"}.get(c, "letter-" + c if len(c) == 1 else c)


def report_roundtrip(rep, rule, label, tab, rows, where, fn_path, record_sep=None):
    fails, undec, checked = codec.roundtrip(tab, rows, record_sep=record_sep)
    by_class = {}
    for s, text, res in fails:
        # attribute a failure to the smallest argument string exhibiting it
        by_class.setdefault(s, (text, res))
    singles = {s for s in by_class if len(s) <= 1}
    # pairs are reported only if neither of their characters already fails alone
    reported = dict((s, by_class[s]) for s in singles)
    for s in by_class:
        if len(s) == 2 and not (s[0] in singles or s[1] in singles):
            reported[s] = by_class[s]
    classes = [""] + list(tab.classes)
    for c in classes:
        if c in reported:
            text, res = reported[c]
            rep.ob(rule, "%s: %s round-trips" % (label, class_name(c)), "violated",
                   "argument %r is written as %r and read back as %r" % (c, text, res), where, fn=fn_path,
                   key="%s|%s|%s" % (rule, label, class_name(c)))
        else:
            rep.ob(rule, "%s: %s round-trips" % (label, class_name(c)), "ok", "", where, fn=fn_path,
                   key="%s|%s|%s" % (rule, label, class_name(c)))
    for s, (text, res) in reported.items():
        if len(s) == 2:
            rep.ob(rule, "%s: pair %s,%s round-trips" % (label, class_name(s[0]), class_name(s[1])), "violated",
                   "argument %r is written as %r and read back as %r" % (s, text, res), where, fn=fn_path,
                   key="%s|%s|pair-%s-%s" % (rule, label, class_name(s[0]), class_name(s[1])))
    for s, text, res in undec[:5]:
        rep.ob(rule, "%s: argument %r" % (label, s), "undecided", "simulation undecided: %r" % (res,), where, fn=fn_path)
    rep.extra.setdefault("roundtrip_strings_checked", {})[label] = checked
    return reported
