"""Shared extraction of the four codecs (W1 CompiledItem::repr, R split_string_v2,
W2 transpiler Instruction::repr, loader/line readers)."""
import absint
import codec
import mir
import rules
from absint import Variant, Opaque, TRUE, FALSE
from mir import op_local, op_const
from core import AnchorMissing


def need(F, path):
    f = F.fn(path)
    if f is None:
        raise AnchorMissing(path)
    return f


def reader(F):
    f = need(F, "bytecode::instruction::split_string_v2")
    return f, codec.reader_table(F, f, {2: TRUE})


def w1_rows(F, text):
    f = need(F, "compiler::ast::CompiledItem::repr")
    ci = F.adt("compiler::ast::CompiledItem")
    vi = [i for i, v in enumerate(ci["variants"]) if v["name"] == "Instruction"][0]
    rows = codec.writer_table(F, f, [Variant("compiler::ast::CompiledItem", vi, "Instruction", [Opaque("id"), Opaque("arguments")]),
                                    TRUE if text else FALSE])
    return f, rows


def w2_rows(F):
    f = need(F, "bytecode_dev_transpiler::Instruction::repr")
    rows = codec.writer_table(F, f, [Variant("bytecode_dev_transpiler::Instruction", 0, "Instruction", [Opaque("name"), Opaque("arguments")])])
    return f, rows


def normalise(rows, F=None):
    """Writer rows that processed the symbolic argument -> [{expr, cond, cond_text}]"""
    out = []
    for r in rows:
        if r["kind"] != "return":
            continue
        e = codec.per_arg_expr(r)
        if e is None:
            continue
        conds = []      # list of predicates on the argument string
        texts = []
        for a in r["assume"]:
            tag = a[0]
            if isinstance(tag, tuple) and tag and tag[0] == "contains":
                _, expr, pd = tag
                if "arg" not in repr(expr):
                    continue
                val = bool(a[1][1])
                if pd[0] == "str":
                    conds.append(lambda s, _p=pd[1], _v=val, _e=expr: (_p in codec.apply_expr(_e, s)) == _v)
                else:
                    conds.append(lambda s, _p=pd[1], _v=val, _e=expr: any(c in codec.apply_expr(_e, s) for c in _p) == _v)
                texts.append("%s %s %r" % (codec.expr_str(expr), "contains" if val else "lacks", pd[1] if pd[0] == "str" else list(pd[1])))
            elif isinstance(tag, str) and tag.startswith("contains("):
                ev = [x for x in r["events"] if x[0] == "test-contains"]
                pat = ev[0][2][1] if ev and ev[0][2] and ev[0][2][0] == "lit" else None
                if pat is None:
                    raise codec.ShapeChanged("contains() with a non-literal pattern")
                val = bool(a[1][1])
                conds.append(lambda s, _p=pat, _v=val: (_p in s) == _v)
                texts.append(("contains %r" % pat) if val else ("lacks %r" % pat))
            elif isinstance(tag, str) and tag.startswith("is_empty("):
                if "'arg'" not in tag:
                    continue
                if "'repl'" in tag:
                    # emptiness of the replaced string == emptiness of the argument only if no replacement deletes text
                    pass
                val = bool(a[1][1])
                conds.append(lambda s, _v=val: (s == "") == _v)
                texts.append("is empty" if val else "is not empty")
            elif isinstance(tag, tuple) and tag and tag[0] == "quant":
                _, which, unit, cdef, expr = tag
                pred = codec.closure_predicate(F, cdef, unit)
                val = bool(a[1][1])
                if which == "any":
                    conds.append(lambda s, _p=pred, _v=val, _e=expr: any(_p(c) for c in codec.apply_expr(_e, s)) == _v)
                else:
                    conds.append(lambda s, _p=pred, _v=val, _e=expr: all(_p(c) for c in codec.apply_expr(_e, s)) == _v)
                texts.append("%s of %s satisfies %s: %s" % ("some " + unit[:-1] if which == "any" else "every " + unit[:-1], codec.expr_str(expr),
                                                            mir.short(cdef), val))
            elif isinstance(tag, str) and tag.startswith("cmp:"):
                continue
            else:
                raise codec.ShapeChanged("writer path depends on %r" % (a,))

        def cond(s, _c=tuple(conds)):
            return all(f(s) for f in _c)
        out.append({"expr": e, "cond": cond if conds else None, "cond_text": " and ".join(texts) or "always"})
    if not out:
        raise codec.ShapeChanged("no writer path appends the argument")
    return out


def final_template(f):
    """fmt templates of the writer's final format! (record framing)."""
    out = []
    for kind, val, where in rules.string_literals(f):
        if kind == "fmt":
            out.append(val)
    return out


def class_name(c):
    return {"\\": "backslash", '"': "double-quote", " ": "space", "\t": "tab", "\n": "newline", "\r": "carriage-return",
            "x": "other-ascii", "é": "non-ascii", "0": "digit", "": "empty-string", "\x0b": "vertical-tab", "\x0c": "form-feed",
            "\x00": "NUL", "\u0085": "next-line-U+0085", "\u00a0": "no-break-space-U+00A0", "\u3000": "ideographic-space-U+3000"}.get(c, "letter-" + c if len(c) == 1 else c)


def report_roundtrip(rep, rule, label, tab, rows, where, fn_path, record_sep=None):
    fails, undec, checked = codec.roundtrip(tab, rows, record_sep=record_sep)
    by_class = {}
    for s, text, res in fails:
        # attribute a failure to the smallest argument string exhibiting it
        by_class.setdefault(s, (text, res))
    singles = {s for s in by_class if len(s) <= 1}
    # pairs are reported only if neither of their characters already fails alone
    reported = dict((s, by_class[s]) for s in singles)
    for s in by_class:
        if len(s) == 2 and not (s[0] in singles or s[1] in singles):
            reported[s] = by_class[s]
    classes = [""] + list(tab.classes) + ([record_sep] if record_sep is not None and record_sep not in tab.classes else [])
    for c in classes:
        if c in reported:
            text, res = reported[c]
            rep.ob(rule, "%s: %s round-trips" % (label, class_name(c)), "violated",
                   "argument %r is written as %r and read back as %r" % (c, text, res), where, fn=fn_path,
                   key="%s|%s|%s" % (rule, label, class_name(c)))
        else:
            rep.ob(rule, "%s: %s round-trips" % (label, class_name(c)), "ok", "", where, fn=fn_path,
                   key="%s|%s|%s" % (rule, label, class_name(c)))
    for s, (text, res) in reported.items():
        if len(s) == 2:
            rep.ob(rule, "%s: pair %s,%s round-trips" % (label, class_name(s[0]), class_name(s[1])), "violated",
                   "argument %r is written as %r and read back as %r" % (s, text, res), where, fn=fn_path,
                   key="%s|%s|pair-%s-%s" % (rule, label, class_name(s[0]), class_name(s[1])))
    for s, text, res in undec[:5]:
        rep.ob(rule, "%s: argument %r" % (label, s), "undecided", "simulation undecided: %r" % (res,), where, fn=fn_path)
    rep.extra.setdefault("roundtrip_strings_checked", {})[label] = checked
    return reported


# ---- output files start empty --------------------------------------------------------------------------------------
OPEN_OPTS = "std::fs::OpenOptions::"


def open_chains(fn):
    """Every OpenOptions::open in `fn` with the option calls applied to the same builder: [(open call, {option: literal or None})]."""
    out = []
    for c in fn.calls_to("std::fs::OpenOptions::open"):
        opts = {}
        cur = op_local(c.args[0])
        seen = set()
        while cur is not None and cur not in seen:
            seen.add(cur)
            nxt = None
            for d in rules.defs_of(fn, cur):
                if d[0] == "call":
                    cc = d[4]
                    nm = cc.callee()
                    if nm.startswith(OPEN_OPTS) and cc.args:
                        k = op_const(cc.args[1]) if len(cc.args) > 1 else None
                        opts[nm[len(OPEN_OPTS):]] = (k.get("int") if k else None)
                        nxt = op_local(cc.args[0])
                    elif cc.matches(("std::fs::File::options", "std::fs::OpenOptions::new")):
                        opts["<new>"] = "1"
                else:
                    rv = d[4]
                    pl = rv.get("ref") or (mir.op_place(rv["use"]) if "use" in rv else None)
                    if pl is not None:
                        nxt = pl["l"]
            cur = nxt
        out.append((c, opts))
    return out


def fresh_output_files(F, rep, rule, crates, floor):
    """A file opened for writing starts empty: the builder chain of every OpenOptions::open with write(true) also has truncate(true) or
    create_new(true) and no append(true).  (A shorter output written over a longer old file leaves the old tail, which the loader then reads.)"""
    n = 0
    for ck in crates:
        for f in F.crates[ck].fns:
            for c, opts in open_chains(f):
                if opts.get("write") != "1" and opts.get("append") != "1":
                    continue
                n += 1
                ok = "<new>" in opts and opts.get("append") in (None, "0") and (opts.get("truncate") == "1" or opts.get("create_new") == "1")
                rep.ob(rule, "%s opens its output file empty (truncate or create_new, no append)" % mir.short(f.path), "ok" if ok else "violated",
                       "options: %s" % {k: v for k, v in sorted(opts.items())}, c.span, fn=f.path, key="%s|%s" % (rule, mir.short(f.path)))
            for c in f.calls():
                if c.matches(("std::fs::File::create", "std::fs::write", "std::fs::File::create_new")):
                    n += 1
                    rep.ob(rule, "%s opens its output file empty (%s)" % (mir.short(f.path), mir.short(c.callee())), "ok", "", c.span, fn=f.path,
                           key="%s|%s" % (rule, mir.short(f.path)))
    rep.floor(rule + " files opened for writing", n, floor)
