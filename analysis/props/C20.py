"""C20 — `clean` deletes exactly the *.mmm files directly inside one directory.

Decided clauses (DESIGN.md §5 C20):
 1. no mutating filesystem call other than remove_file is reachable from clean_command;
 2. every remove_file reachable from it is guarded by Path::extension() of the
    entry, tested with `== "mmm"` on the true edge;
 3. the tested name and the deleted path come from the same directory entry;
 4. read_dir is called once, on the parameter, never recursively;
 5. the reported count is incremented exactly on the success edge of remove_file.
"""
import mir
import rules
from mir import op_local, op_const
from core import AnchorMissing

ENTRY = "mscript::clean_command"

FORBIDDEN = [
    "std::fs::remove_dir", "std::fs::remove_dir_all", "std::fs::rename", "std::fs::write",
    "std::fs::copy", "std::fs::hard_link", "std::fs::soft_link", "std::fs::set_permissions",
    "std::fs::create_dir", "std::fs::create_dir_all", "std::fs::File::create", "std::fs::File::create_new",
    "std::fs::OpenOptions::open", "std::fs::File::options", "std::fs::File::set_len",
    "std::os::unix::fs::symlink", "std::fs::File::set_permissions", "std::fs::File::open",
    "std::process::Command::new", "std::fs::OpenOptions::new", "std::fs::File::set_times",
]
READ_ONLY = {
    "std::fs::read_dir", "std::fs::metadata", "std::fs::symlink_metadata", "std::fs::DirEntry::file_name",
    "std::fs::DirEntry::path", "std::fs::DirEntry::file_type", "std::fs::DirEntry::metadata",
    "std::fs::canonicalize", "std::fs::read_link", "std::fs::exists", "std::fs::remove_file",
    "std::fs::Metadata::is_file", "std::fs::Metadata::is_dir", "std::fs::Metadata::len",
    "std::fs::FileType::is_file", "std::fs::FileType::is_dir", "std::fs::FileType::is_symlink",
}
REMOVE = "std::fs::remove_file"


def through(c, idx):
    # calls that carry the "has extension mmm" information forward
    if c.matches(("core::option::Option::is_some_and", "core::option::Option::is_some",
                  "core::option::Option::map_or", "core::option::Option::unwrap_or")):
        return True
    if c.matches("core::option::Option::is_none"):
        return "not"
    return None


def run(ctx, rep):
    F = ctx.facts("default", ["mscript-bin"])
    f = F.fn(ENTRY)
    if f is None:
        cands = [g for g in F.all_fns() if g.path.endswith("::clean_command")]
        if len(cands) != 1:
            raise AnchorMissing("function clean_command not found in the CLI crate")
        f = cands[0]
    entry = f.path
    rep.explain("C20: call-graph reachability from %s (who-may-call), R-GUARD on every remove_file call, "
                "R-FLOW on the tested name and the deleted path, literal agreement on the extension." % entry)
    rep.assume("std::fs semantics (remove_file unlinks a symlink, does not follow it)")
    rep.assume("functions called through pointers/dyn from clean_command: none are created in its reach (checked)")

    reach = F.reach([entry])
    local_reach = [g for g in F.all_fns() if g.path in reach]
    rep.extra["reach_local_fns"] = sorted(g.path for g in local_reach)
    rep.extra["reach_size"] = len(reach)

    # clause 1: forbidden / unknown filesystem effects
    for g in local_reach:
        rep.touched(g.path)
        for c in g.calls():
            if c.is_ptr:
                rep.ob("C20.reach", "indirect call in %s" % mir.short(g.path), "undecided",
                       "call through a function pointer: target unknown", c.span, fn=g.path)
                continue
            cal = mir.strip_generics(c.callee())
            if any(c.matches(p) for p in FORBIDDEN):
                rep.ob("C20.no-other-fs-effect", mir.short(cal), "violated",
                       "mutating filesystem/process call %s reachable from clean_command" % cal, c.span, fn=g.path)
            elif cal.startswith(("std::fs::", "std::os::unix::fs::", "std::process::")):
                if any(c.matches(p) for p in READ_ONLY):
                    rep.ob("C20.no-other-fs-effect", mir.short(cal), "ok", "read-only or the guarded deletion", c.span, fn=g.path)
                else:
                    rep.ob("C20.no-other-fs-effect", mir.short(cal), "undecided",
                           "filesystem call not classified as read-only or mutating", c.span, fn=g.path)
    # recursion
    g = F.call_graph()
    rec = entry in F.reach(list(g.get(entry, ())))
    rep.ob("C20.non-recursive", "clean_command not in its own reach", "violated" if rec else "ok",
           "clean_command can call itself (sub-directories would be entered)" if rec else "", f.span, fn=entry)

    # clause 4: read_dir once, on the parameter
    rds = []
    for gfn in local_reach:
        rds += [(gfn, c) for c in gfn.calls_to("std::fs::read_dir")]
    if len(rds) != 1:
        rep.ob("C20.single-read_dir", "count=%d" % len(rds), "violated" if len(rds) > 1 else "undecided",
               "expected exactly one read_dir call in the reach of clean_command", f.span, fn=entry)
    else:
        gfn, c = rds[0]
        o = rules.origins(gfn, op_local(c.args[0])) if op_local(c.args[0]) is not None else set()
        ok = o == {("arg", 1)} and gfn is f
        # the read_dir call must not sit in a loop
        in_loop = c.bb in gfn.reachable(c.target) if c.target is not None else False
        rep.ob("C20.single-read_dir", "read_dir(arg)", "ok" if ok and not in_loop else "violated",
               "origins=%s in_loop=%s" % (sorted(o), in_loop), c.span, fn=gfn.path)

    # clause 2, 3: every remove_file is guarded
    removes = []
    for gfn in local_reach:
        removes += [(gfn, c) for c in gfn.calls_to(REMOVE)]
    rep.floor("C20.remove_file-sites", len(removes), 1)
    for gfn, c in removes:
        ext_calls = gfn.calls_to("std::path::Path::extension")
        if not ext_calls:
            rep.ob("C20.guard", "remove_file", "violated", "no Path::extension() test in the deleting function",
                   c.span, fn=gfn.path)
            continue
        verdict, info = rules.guarded_by_bool(gfn, [c.bb], [e.dst["l"] for e in ext_calls], want=True, through_call=through)
        rep.ob("C20.guard", "remove_file guarded by extension test (true edge)", verdict, str(info), c.span, fn=gfn.path)

        # the predicate: is_some_and(closure) with closure == "mmm"
        for e in ext_calls:
            der = gfn.derived([e.dst["l"]], through_call=through)
            users = [u for u in gfn.calls() if u.args and op_local(u.args[0]) == e.dst["l"]]
            if len(users) != 1 or not users[0].matches("core::option::Option::is_some_and"):
                rep.ob("C20.extension-literal", "shape", "undecided",
                       "extension() result is not consumed by a single is_some_and(closure): extractor does not know this form",
                       e.span, fn=gfn.path)
                continue
            u = users[0]
            cdef = rules.closure_def_of_arg(gfn, u.args[1])
            cl = F.fn(cdef) if cdef else None
            if cl is None:
                rep.ob("C20.extension-literal", "closure", "undecided", "predicate closure not found", u.span, fn=gfn.path)
                continue
            rep.touched(cl.path)
            eqs = [q for q in cl.calls() if q.matches("core::cmp::PartialEq::eq")]
            nes = [q for q in cl.calls() if q.matches("core::cmp::PartialEq::ne")]
            others = [q for q in cl.calls() if not q.matches(("core::cmp::PartialEq::eq", "core::cmp::PartialEq::ne"))]
            if nes and not eqs:
                rep.ob("C20.extension-literal", "closure compares extension == \"mmm\"", "violated",
                       "the predicate is an inequality test: files whose extension differs from the literal are deleted",
                       nes[0].span, fn=cl.path)
                continue
            ok = False
            detail = ""
            if len(eqs) == 1 and not others and len(cl.blocks) == 2:
                q = eqs[0]
                lits = rules.literal_of(cl, q.args[1]) + rules.literal_of(cl, q.args[0])
                strs = [x[1] for x in lits if x[0] == "str"]
                ret_direct = q.dst["l"] == 0
                lhs_from_param = ("arg", 2) in rules.origins(cl, op_local(q.args[0])) or ("arg", 2) in rules.origins(cl, op_local(q.args[1]))
                ok = strs == ["mmm"] and ret_direct and lhs_from_param
                detail = "literals=%s returns_eq_directly=%s compares_parameter=%s" % (strs, ret_direct, lhs_from_param)
                rep.ob("C20.extension-literal", "closure compares extension == \"mmm\"", "ok" if ok else "violated", detail, q.span, fn=cl.path)
            else:
                rep.ob("C20.extension-literal", "closure shape", "undecided",
                       "predicate closure is not a single `==` comparison (calls: %s)" % [mir.short(x.callee()) for x in cl.calls()],
                       cl.span, fn=cl.path)

        # clause 3: same entry
        arg_calls = rules.origin_calls(gfn, op_local(c.args[0])) if op_local(c.args[0]) is not None else []
        path_entries = set()
        okflow = True
        for a in arg_calls:
            if a.matches("std::fs::DirEntry::path"):
                path_entries.add(rules.place_base_chain(gfn, op_local(a.args[0])))
            else:
                okflow = False
        name_entries = set()
        for e in ext_calls:
            for a in rules.origin_calls(gfn, op_local(e.args[0])):
                if a.matches("std::fs::DirEntry::file_name") or a.matches("std::fs::DirEntry::path"):
                    name_entries.add(rules.place_base_chain(gfn, op_local(a.args[0])))
                else:
                    okflow = False
        same = okflow and len(path_entries) == 1 and path_entries == name_entries
        rep.ob("C20.same-entry", "deleted path and tested name come from the same DirEntry",
               "ok" if same else ("violated" if path_entries and name_entries and okflow else "undecided"),
               "path_from=%s name_from=%s" % (sorted(gfn.local_name(x) + "#%d" % x for x in path_entries),
                                              sorted(gfn.local_name(x) + "#%d" % x for x in name_entries)), c.span, fn=gfn.path)
        # the entry itself comes from the read_dir iterator
        for ent in path_entries:
            srcs = rules.origin_calls(gfn, ent, transparent=rules.TRANSPARENT | {rules.TRY_BRANCH})
            it_ok = bool(srcs) and all(s.matches("core::iter::traits::iterator::Iterator::next") and "ReadDir" in (s.res or "") for s in srcs)
            rep.ob("C20.entry-from-read_dir", "entry is an item of the ReadDir iterator", "ok" if it_ok else "undecided",
                   "sources=%s" % [mir.short(s.callee()) for s in srcs], c.span, fn=gfn.path)

        # clause 5: the count
        te = rules.try_edges(gfn, c)
        incs = []
        for bi, si, dst, rv, s in gfn.assigns():
            if "bin" in rv and rv["bin"] in ("AddWithOverflow", "Add", "AddUnchecked") and not s.get("mc"):
                l = op_local(rv["l"])
                if l is not None and gfn.locals[l] in ("i32", "u32", "usize", "i64", "u64", "isize"):
                    incs.append((bi, l, rv))
        if te is None:
            rep.ob("C20.count", "remove_file result", "undecided", "remove_file result not consumed by `?`", c.span, fn=gfn.path)
        elif incs:
            cont, brk, sw = te
            for bi, l, rv in incs:
                dom = rules.edge_dominated(gfn, bi, {(sw, cont)})
                one = op_const(rv["r"]) and op_const(rv["r"]).get("int") == "1"
                # exactly one increment between two removals: the increment block cannot reach itself without a new removal
                again = bi in gfn.reachable(gfn.succs(bi)[0], removed_edges={(sw, cont)}) if gfn.succs(bi) else False
                rep.ob("C20.count", "counter %s += 1 only after a successful remove_file" % gfn.local_name(l),
                       "ok" if dom and one and not again else "violated",
                       "dominated_by_success_edge=%s step_is_1=%s repeatable_without_removal=%s" % (dom, bool(one), again),
                       gfn.blocks[bi]["s"][-1].get("sp"), fn=gfn.path)
            # and every successful removal is counted: the success edge must reach an increment before the next iteration
            inc_blocks = {bi for bi, _, _ in incs}
            back = gfn.reachable(cont, removed_blocks=inc_blocks)
            skipped = c.bb in back or any(b in back for b in gfn.return_blocks())
            rep.ob("C20.count", "every successful removal is counted", "violated" if skipped else "ok",
                   "a path from the success edge avoids the increment" if skipped else "", c.span, fn=gfn.path)
        else:
            rep.ob("C20.count", "counter", "undecided", "no integer increment found", c.span, fn=gfn.path)
