"""C20 — `clean` deletes exactly the *.mmm files directly inside one directory.

Decided clauses (DESIGN.md §5 C20):
 1. no mutating filesystem call other than remove_file is reachable from clean_command;
 2. every remove_file reachable from it is guarded by Path::extension() of the
    entry, tested with `== "mmm"` on the true edge;
 3. the tested name and the deleted path come from the same directory entry;
 4. read_dir is called once, on the parameter, never recursively;
 5. the reported count is incremented exactly on the success edge of remove_file.
"""
import mir
import rules
from mir import op_local, op_const
from core import AnchorMissing

ENTRY = "mscript::clean_command"

FORBIDDEN = [
    "std::fs::remove_dir", "std::fs::remove_dir_all", "std::fs::rename", "std::fs::write",
    "std::fs::copy", "std::fs::hard_link", "std::fs::soft_link", "std::fs::set_permissions",
    "std::fs::create_dir", "std::fs::create_dir_all", "std::fs::File::create", "std::fs::File::create_new",
    "std::fs::OpenOptions::open", "std::fs::File::options", "std::fs::File::set_len",
    "std::os::unix::fs::symlink", "std::fs::File::set_permissions", "std::fs::File::open",
    "std::process::Command::new", "std::fs::OpenOptions::new", "std::fs::File::set_times",
]
READ_ONLY = {
    "std::fs::read_dir", "std::fs::metadata", "std::fs::symlink_metadata", "std::fs::DirEntry::file_name",
    "std::fs::DirEntry::path", "std::fs::DirEntry::file_type", "std::fs::DirEntry::metadata",
    "std::fs::canonicalize", "std::fs::read_link", "std::fs::exists", "std::fs::remove_file",
    "std::fs::Metadata::is_file", "std::fs::Metadata::is_dir", "std::fs::Metadata::len",
    "std::fs::FileType::is_file", "std::fs::FileType::is_dir", "std::fs::FileType::is_symlink",
}
REMOVE = "std::fs::remove_file"


def through(c, idx):
    # calls that carry the "has extension mmm" information forward
    if c.matches(("core::option::Option::is_some_and", "core::option::Option::is_some",
                  "core::option::Option::map_or", "core::option::Option::unwrap_or")):
        return True
    if c.matches("core::option::Option::is_none"):
        return "not"
    return None


def closure_test(F, gfn, closure_op):
    """What does the predicate closure passed to is_some_and test?  -> (kind, operand) with kind in
    exact | negated | case-insensitive | loose | unknown; operand = ('lit', s) | ('capture', upvar index) | None"""
    cdef = rules.closure_def_of_arg(gfn, closure_op)
    cl = F.fn(cdef) if cdef else None
    if cl is None:
        return ("unknown", None, None)
    calls = [q for q in cl.calls()]
    if len(calls) != 1 or len(cl.blocks) != 2 or calls[0].dst["l"] != 0:
        return ("unknown", None, cl)
    q = calls[0]
    if q.matches("core::cmp::PartialEq::eq"):
        kind = "exact"
    elif q.matches("core::cmp::PartialEq::ne"):
        kind = "negated"
    elif "eq_ignore_ascii_case" in q.callee():
        kind = "case-insensitive"
    elif any(x in q.callee() for x in ("starts_with", "ends_with", "contains")):
        kind = "loose"
    else:
        return ("unknown", None, cl)
    operand = None
    for a in q.args:
        lits = [x[1] for x in rules.literal_of(cl, a) if x[0] == "str"]
        if lits:
            operand = ("lit", lits[0])
    if operand is None:
        # a captured variable: closure upvar (field of _1)
        for a in q.args:
            l = op_local(a)
            if l is None:
                continue
            for (o, fs) in rules.trace_paths(cl, l, transparent=rules.TRANSPARENT):
                if o == ("arg", 1) and fs:
                    operand = ("capture", fs[0])
    return (kind, operand, cl)


def bool_meaning(F, gfn, local, depth=0):
    """Meaning of a bool local as an extension test: (kind, literal, path_local)."""
    for d in rules.defs_of(gfn, local):
        if d[0] != "call":
            continue
        c = d[4]
        if c.matches("core::option::Option::is_some_and"):
            src = rules.origin_calls(gfn, op_local(c.args[0]), transparent=set())
            if len(src) == 1 and src[0].matches("std::path::Path::extension"):
                kind, operand, cl = closure_test(F, gfn, c.args[1])
                lit = None
                if operand and operand[0] == "lit":
                    lit = operand[1]
                elif operand and operand[0] == "capture":
                    # which value did the closure capture?
                    cl_local = rules.place_base_chain(gfn, op_local(c.args[1]))
                    for dd in rules.defs_of(gfn, cl_local):
                        if dd[0] == "assign" and "agg" in dd[4] and dd[4]["agg"]["k"] == "closure":
                            idx = int(operand[1]) if str(operand[1]).isdigit() else 0
                            if idx < len(dd[4]["ops"]):
                                cap = dd[4]["ops"][idx]
                                tp = rules.trace_paths(gfn, op_local(cap), transparent=rules.TRANSPARENT) if op_local(cap) is not None else set()
                                params = [o[1] for (o, fs) in tp if o[0] == "arg"]
                                if len(params) == 1:
                                    lit = ("param", params[0])
                return (kind, lit, op_local(src[0].args[0]), src[0])
        g = F.fn(c.callee()) if (c.t["func"].get("local") or c.t["func"].get("res_local")) else None
        if g is not None and g.locals[0] == "bool" and depth < 2:
            inner = bool_meaning(F, g, 0, depth + 1)
            if inner is None:
                # the helper's return value may be assigned through a temp
                continue
            kind, lit, path_local, ext_call = inner
            if isinstance(lit, tuple) and lit[0] == "param":
                a = c.args[lit[1] - 1]
                ls = [x[1] for x in rules.literal_of(gfn, a) if x[0] == "str"]
                lit = ls[0] if len(ls) == 1 else None
            # the path argument of the helper as seen by the caller
            tp = rules.trace_paths(g, path_local, transparent=rules.TRANSPARENT) if path_local is not None else set()
            pidx = [o[1] for (o, fs) in tp if o[0] == "arg"]
            caller_path_local = op_local(c.args[pidx[0] - 1]) if len(pidx) == 1 else None
            return (kind, lit, caller_path_local, c)
    return None


def run(ctx, rep):
    F = ctx.facts("default", ["mscript-bin"])
    f = F.fn(ENTRY)
    if f is None:
        cands = [g for g in F.all_fns() if g.path.endswith("::clean_command")]
        if len(cands) != 1:
            raise AnchorMissing("function clean_command not found in the CLI crate")
        f = cands[0]
    entry = f.path
    rep.explain("C20: call-graph reachability from %s (who-may-call), R-GUARD on every remove_file call, "
                "R-FLOW on the tested name and the deleted path, literal agreement on the extension." % entry)
    rep.assume("std::fs semantics (remove_file unlinks a symlink, does not follow it)")
    rep.assume("functions called through pointers/dyn from clean_command: none are created in its reach (checked)")

    reach = F.reach([entry])
    local_reach = [g for g in F.all_fns() if g.path in reach]
    rep.extra["reach_local_fns"] = sorted(g.path for g in local_reach)
    rep.extra["reach_size"] = len(reach)

    # clause 1: forbidden / unknown filesystem effects
    for g in local_reach:
        rep.touched(g.path)
        for c in g.calls():
            if c.is_ptr:
                rep.ob("C20.reach", "indirect call in %s" % mir.short(g.path), "undecided",
                       "call through a function pointer: target unknown", c.span, fn=g.path)
                continue
            cal = mir.strip_generics(c.callee())
            if any(c.matches(p) for p in FORBIDDEN):
                rep.ob("C20.no-other-fs-effect", mir.short(cal), "violated",
                       "mutating filesystem/process call %s reachable from clean_command" % cal, c.span, fn=g.path)
            elif cal.startswith(("std::fs::", "std::os::unix::fs::", "std::process::")):
                if any(c.matches(p) for p in READ_ONLY):
                    rep.ob("C20.no-other-fs-effect", mir.short(cal), "ok", "read-only or the guarded deletion", c.span, fn=g.path)
                else:
                    rep.ob("C20.no-other-fs-effect", mir.short(cal), "undecided",
                           "filesystem call not classified as read-only or mutating", c.span, fn=g.path)
    # recursion
    g = F.call_graph()
    rec = entry in F.reach(list(g.get(entry, ())))
    rep.ob("C20.non-recursive", "clean_command not in its own reach", "violated" if rec else "ok",
           "clean_command can call itself (sub-directories would be entered)" if rec else "", f.span, fn=entry)

    # clause 4: read_dir once, on the parameter
    rds = []
    for gfn in local_reach:
        rds += [(gfn, c) for c in gfn.calls_to("std::fs::read_dir")]
    if len(rds) != 1:
        rep.ob("C20.single-read_dir", "count=%d" % len(rds), "violated" if len(rds) > 1 else "undecided",
               "expected exactly one read_dir call in the reach of clean_command", f.span, fn=entry)
    else:
        gfn, c = rds[0]
        o = rules.origins(gfn, op_local(c.args[0])) if op_local(c.args[0]) is not None else set()
        ok = o == {("arg", 1)} and gfn is f
        # the read_dir call must not sit in a loop
        in_loop = c.bb in gfn.reachable(c.target) if c.target is not None else False
        rep.ob("C20.single-read_dir", "read_dir(arg)", "ok" if ok and not in_loop else "violated",
               "origins=%s in_loop=%s" % (sorted(o), in_loop), c.span, fn=gfn.path)

    # clause 4b: DIR is the directory the user named.  The callers of clean_command hand it the command-line argument itself: nothing computes a
    # different spelling first (dropping `.` components is harmless, folding `\\` into `/` names another directory on Unix, where `\\` is an
    # ordinary character of a file name)
    callers = []
    for gfn in F.all_fns():
        for c in gfn.calls_to(entry):
            callers.append((gfn, c))
    rep.floor("C20.dir-as-given callers of clean_command", len(callers), 1)
    for gfn, c in callers:
        l = op_local(c.args[0]) if c.args else None
        oc = rules.origin_calls(gfn, l) if l is not None else []
        # (the parsed command line itself is where the argument comes from)
        made = sorted({mir.short(x.callee()) for x in oc if not mir.strip_generics(x.callee()).startswith("clap_builder::derive::Parser::")
                       and not mir.strip_generics(x.callee()).startswith("clap::")})
        if not oc:
            rep.ob("C20.dir-as-given", "%s: where the directory comes from" % mir.short(gfn.path), "undecided", "no call among the origins of the argument", c.span,
                   fn=gfn.path, key="C20.dir-as-given|%s" % mir.short(gfn.path))
            continue
        # a helper in between is judged by what it does to the text: rewriting characters (replace / trim / case) changes which directory is named -
        # violated; anything else (dropping `.` components keeps the directory) is left undecided, never alarmed
        REWRITES = ("::replace", "::replacen", "::to_lowercase", "::to_uppercase", "::to_ascii_lowercase", "::to_ascii_uppercase", "::trim",
                    "::trim_start", "::trim_end", "::trim_matches", "::trim_start_matches", "::trim_end_matches", "::strip_prefix", "::strip_suffix")
        rewriting = []
        for x in oc:
            h = F.fn(x.callee())
            seen, work = set(), [h] if h is not None else []
            while work:
                g2 = work.pop()
                if g2.path in seen:
                    continue
                seen.add(g2.path)
                for bodyfn in [g2] + F.closures_of(g2):
                    for c2 in bodyfn.calls():
                        n2 = mir.strip_generics(c2.callee())
                        if n2.endswith(REWRITES) and ("str" in n2 or "String" in n2):
                            rewriting.append("%s in %s" % (mir.short(n2), mir.short(g2.path)))
                        h2 = F.fn(c2.callee())
                        if h2 is not None and h2.path.startswith("mscript::") and len(seen) < 12:
                            work.append(h2)
        st = "ok" if not made else ("violated" if rewriting else "undecided")
        rep.ob("C20.dir-as-given", "%s hands clean_command the path argument as the user gave it" % mir.short(gfn.path), st,
               ("the directory is the result of %s%s: `mscript clean` works on a directory the user did not name whenever the two spellings differ "
                "(on Unix `gen\\v1` is a directory of that name, not `v1` inside `gen`)" % (made, (", which rewrites the text (%s)" % sorted(set(rewriting))[:3]) if rewriting else ""))
               if made else "", c.span, fn=gfn.path, key="C20.dir-as-given|%s" % mir.short(gfn.path))

    # clause 4c: ... and the command line itself hands the argument over whole: no argument of the CLI is split at a delimiter by the parser
    # (`value_delimiter = ','` makes `clean gen,v2` clean `gen` and `v2`)
    aug = [g2 for g2 in F.all_fns() if g2.path.endswith(("clap_builder::derive::Subcommand>::augment_subcommands", "clap_builder::derive::Args>::augment_args"))]
    rep.floor("C20.dir-as-given argument builders of the CLI", len(aug), 1)
    split = sorted({"%s in %s" % (mir.short(c2.callee()), mir.short(g2.path)) for g2 in aug for c2 in g2.calls()
                    if mir.short(c2.callee()).endswith(("Arg::value_delimiter", "Arg::value_terminator", "Arg::use_value_delimiter"))})
    rep.ob("C20.dir-as-given", "the command-line parser splits no argument at a delimiter", "violated" if split else "ok",
           ("%s: a directory whose name contains the delimiter is never cleaned; the pieces are" % split) if split else "", f.span, fn=entry, key="C20.dir-as-given|parser-split")

    # clause 2, 3: every remove_file is guarded
    removes = []
    for gfn in local_reach:
        removes += [(gfn, c) for c in gfn.calls_to(REMOVE)]
    rep.floor("C20.remove_file-sites", len(removes), 1)
    # the entries to delete are *files*: a directory whose name ends in .mmm must not reach remove_file (it fails there with EISDIR, the `?`
    # ends the walk and the bytecode files behind it stay - `exactly the files` is broken without anything having been deleted wrongly)
    for gfn, c in removes:
        kinds = [x for x in gfn.calls() if mir.short(x.callee()).split("::")[-1] in ("is_dir", "is_file") and "FileType" in x.callee() + "".join(x.names)]
        if not kinds:
            rep.ob("C20.files-only", "remove_file is reached only for entries that are not directories", "violated",
                   "no file-type test on the way to the deletion: a directory named `pkg.mmm` aborts the walk (EISDIR) and the .mmm files after it are left",
                   c.span, fn=gfn.path, key="C20.files-only|%s" % mir.short(gfn.path))
            continue
        verdicts = []
        for x in kinds:
            want = mir.short(x.callee()).endswith("is_file")
            v, info = rules.guarded_by_bool(gfn, [c.bb], [x.dst["l"]], want=want)
            verdicts.append(v)
        rep.ob("C20.files-only", "remove_file is reached only for entries that are not directories", "ok" if "ok" in verdicts else ("undecided" if "undecided" in verdicts else "violated"),
               "", c.span, fn=gfn.path, key="C20.files-only|%s" % mir.short(gfn.path))
    for gfn, c in removes:
        # candidate guards: bool switches on the way whose meaning is an extension test
        meanings = []
        for bb, t_t, f_t, pol in rules.bool_switches(gfn, {l: True for l, ty in enumerate(gfn.locals) if ty == "bool"}):
            dl = op_local(gfn.term(bb)["discr"])
            m = bool_meaning(F, gfn, dl)
            if m is not None:
                meanings.append((bb, t_t, f_t, dl, m))
        if not meanings:
            rep.ob("C20.guard", "remove_file", "violated", "no extension test (Path::extension) guards the deletion", c.span, fn=gfn.path)
            continue
        ext_calls = []
        name_locals = []
        for bb, t_t, f_t, dl, (kind, lit, path_local, ext_call) in meanings:
            reach = gfn.reachable(0, removed_edges={(bb, t_t)})
            guarded = c.bb not in reach
            rep.ob("C20.guard", "remove_file guarded by extension test (true edge)", "ok" if guarded else "violated",
                   "deletion reachable without the extension test being true" if not guarded else "", c.span, fn=gfn.path)
            if kind == "exact" and lit == "mmm":
                rep.ob("C20.extension-literal", "closure compares extension == \"mmm\"", "ok", "", ext_call.span, fn=gfn.path)
            elif kind == "unknown":
                rep.ob("C20.extension-literal", "closure shape", "undecided", "the extension predicate is not a single comparison", ext_call.span, fn=gfn.path)
            else:
                rep.ob("C20.extension-literal", "closure compares extension == \"mmm\"", "violated",
                       "the extension test is `%s` against %r: files other than exactly *.mmm are deleted (or *.mmm files are kept)" % (kind, lit),
                       ext_call.span, fn=gfn.path)
            if path_local is not None:
                name_locals.append(path_local)
        ext_calls = [m[4][3] for m in meanings]

        # clause 3: same entry
        arg_calls = rules.origin_calls(gfn, op_local(c.args[0])) if op_local(c.args[0]) is not None else []
        path_entries = set()
        okflow = True
        for a in arg_calls:
            if a.matches("std::fs::DirEntry::path"):
                path_entries.add(rules.place_base_chain(gfn, op_local(a.args[0])))
            else:
                okflow = False
        name_entries = set()
        for nl in name_locals:
            for a in rules.origin_calls(gfn, nl):
                if a.matches("std::fs::DirEntry::file_name") or a.matches("std::fs::DirEntry::path"):
                    name_entries.add(rules.place_base_chain(gfn, op_local(a.args[0])))
                else:
                    okflow = False
        same = okflow and len(path_entries) == 1 and path_entries == name_entries
        # a path that went through a resolving / rewriting call is no longer the entry that was tested
        REWRITING = ("std::path::Path::canonicalize", "std::fs::canonicalize", "std::fs::read_link", "std::path::Path::read_link", "std::path::Path::parent",
                     "std::path::Path::with_extension", "std::path::Path::with_file_name", "std::path::PathBuf::set_extension", "std::path::PathBuf::set_file_name",
                     "std::path::PathBuf::pop", "std::path::Path::strip_prefix", "std::path::absolute")
        through = []
        if op_local(c.args[0]) is not None:
            for a in rules.origin_calls(gfn, op_local(c.args[0]), transparent=rules.TRANSPARENT | {rules.TRY_BRANCH, "core::result::Result::unwrap",
                                                                                                    "core::result::Result::expect", "core::option::Option::unwrap"}):
                if a.matches(REWRITING):
                    through.append(mir.short(a.callee()))
            # ... and so is a path that was rendered as text: Path::display / to_string_lossy replace what is not UTF-8 (`caf\xE9.mmm` becomes
            # `caf\u{FFFD}.mmm`, another name - the file stays, or a file of that other name goes)
            LOSSY = ("std::path::Path::display", "std::path::Path::to_string_lossy", "std::ffi::OsStr::to_string_lossy", "std::ffi::OsStr::display")
            for a in rules.origin_calls(gfn, op_local(c.args[0]), transparent=rules.TRANSPARENT | {rules.TRY_BRANCH, "alloc::string::ToString::to_string",
                                        "alloc::fmt::format", "alloc::borrow::Cow::into_owned", "alloc::string::String::as_str", "core::result::Result::unwrap",
                                        "core::option::Option::unwrap"}):
                if a.matches(LOSSY):
                    through.append(mir.short(a.callee()) + " (lossy for names that are not UTF-8)")
        st_same = "ok" if same else ("violated" if (through or (path_entries and name_entries and okflow)) else "undecided")
        rep.ob("C20.same-entry", "the path handed to remove_file is the tested directory entry's own path", st_same,
               ("the deleted path goes through %s: it can name another file than the entry whose name was tested (e.g. the target of a symlink); " % through if through else "")
               + "path_from=%s name_from=%s" % (sorted(gfn.local_name(x) + "#%d" % x for x in path_entries),
                                                sorted(gfn.local_name(x) + "#%d" % x for x in name_entries)), c.span, fn=gfn.path)
        rep.floor("C20.same-entry decided for the remove_file call", 0 if st_same == "undecided" else 1, 1)
        # the entry itself comes from the read_dir iterator
        for ent in path_entries:
            srcs = rules.origin_calls(gfn, ent, transparent=rules.TRANSPARENT | {rules.TRY_BRANCH})
            it_ok = bool(srcs) and all(s.matches("core::iter::traits::iterator::Iterator::next") and "ReadDir" in (s.res or "") for s in srcs)
            rep.ob("C20.entry-from-read_dir", "entry is an item of the ReadDir iterator", "ok" if it_ok else "undecided",
                   "sources=%s" % [mir.short(s.callee()) for s in srcs], c.span, fn=gfn.path)

        # clause 5: the count
        te = rules.try_edges(gfn, c)
        incs = []
        for bi, si, dst, rv, s in gfn.assigns():
            if "bin" in rv and rv["bin"] in ("AddWithOverflow", "Add", "AddUnchecked") and not s.get("mc"):
                l = op_local(rv["l"])
                if l is not None and gfn.locals[l] in ("i32", "u32", "usize", "i64", "u64", "isize"):
                    incs.append((bi, l, rv))
        if te is None:
            rep.ob("C20.count", "remove_file result", "undecided", "remove_file result not consumed by `?`", c.span, fn=gfn.path)
        elif incs:
            cont, brk, sw = te
            for bi, l, rv in incs:
                dom = rules.edge_dominated(gfn, bi, {(sw, cont)})
                one = op_const(rv["r"]) and op_const(rv["r"]).get("int") == "1"
                # exactly one increment between two removals: the increment block cannot reach itself without a new removal
                again = bi in gfn.reachable(gfn.succs(bi)[0], removed_edges={(sw, cont)}) if gfn.succs(bi) else False
                rep.ob("C20.count", "counter %s += 1 only after a successful remove_file" % gfn.local_name(l),
                       "ok" if dom and one and not again else "violated",
                       "dominated_by_success_edge=%s step_is_1=%s repeatable_without_removal=%s" % (dom, bool(one), again),
                       gfn.blocks[bi]["s"][-1].get("sp"), fn=gfn.path)
            # and every successful removal is counted: the success edge must reach an increment before the next iteration
            inc_blocks = {bi for bi, _, _ in incs}
            back = gfn.reachable(cont, removed_blocks=inc_blocks)
            skipped = c.bb in back or any(b in back for b in gfn.return_blocks())
            rep.ob("C20.count", "every successful removal is counted", "violated" if skipped else "ok",
                   "a path from the success edge avoids the increment" if skipped else "", c.span, fn=gfn.path)
        else:
            rep.ob("C20.count", "counter", "undecided", "no integer increment found", c.span, fn=gfn.path)
