"""Keyword boundaries in the grammar (grammar.pest, read through pest_meta).

A keyword written as a bare string literal matches every identifier that merely *begins* with it.  pest skips implicit whitespace between the
elements of a non-atomic sequence, so `"break"` followed by nothing, or `"assert" ~ value`, accepts `breakfast()` as `break` + `fast()` and
`assertion_count = 0` as `assert ion_count` ...: a valid program silently means something else, or is refused.  Decided per alphabetic
literal (two or more lower-case letters) of every rule:

  token      the literal ends its rule (a bare keyword token: break, continue, const, nil, to ..): it has to be followed, inside an atomic rule,
             by a negative look-ahead on the identifier characters;
  statement  the literal is followed by one more element that can start with an identifier character and that ends the rule
             (`"assert" ~ value`, `"import" ~ import_path`): the input `keyword-prefixed-identifier rest` is then taken by this rule; it needs
             a positive look-ahead on a bounded keyword (`&kw ~ "kw"`), explicit WHITESPACE (compound-atomic rules), or a literal that carries
             its own separator (`"print "`).
A literal followed by a non-identifier literal (`"fn" ~ "("`), or by more required elements after the identifier-led one (`"if" ~ value ~
block`: the rule fails on `iffy = 1` and the parser backtracks into the assignment) is not judged.
"""
import re

IDCH = set("abcdefghijklmnopqrstuvwxyzABCDEFGHIJKLMNOPQRSTUVWXYZ0123456789_")
BUILTIN = {"ASCII_DIGIT": set("0123456789"), "ASCII_NONZERO_DIGIT": set("123456789"), "ASCII_BIN_DIGIT": set("01"), "ASCII_OCT_DIGIT": set("01234567"),
           "ASCII_HEX_DIGIT": set("0123456789abcdefABCDEF"), "ASCII_ALPHA_LOWER": set("abcdefghijklmnopqrstuvwxyz"),
           "ASCII_ALPHA_UPPER": set("ABCDEFGHIJKLMNOPQRSTUVWXYZ"), "ASCII_ALPHA": set("abcdefghijklmnopqrstuvwxyzABCDEFGHIJKLMNOPQRSTUVWXYZ"),
           "ASCII_ALPHANUMERIC": IDCH - {"_"}, "ASCII": IDCH | {"?"}, "ANY": IDCH | {"?"}, "NEWLINE": {"\n", "\r"}, "SOI": set(), "EOI": set()}


class Grammar:
    def __init__(self, G):
        self.rules = {r["name"]: r for r in G["rules"]}
        self.memo = {}

    def first(self, e, stack=()):
        """(characters the expression can start with - '?' stands for anything not tracked -, nullable)"""
        k = e["k"]
        if k in ("str", "insens"):
            return ({e["v"][0]} if e["v"] else set(), e["v"] == "")
        if k == "range":
            lo, hi = e.get("a", e.get("lo", "?")), e.get("b", e.get("hi", "?"))
            try:
                return ({chr(c) for c in range(ord(lo), ord(hi) + 1)} if len(lo) == 1 and len(hi) == 1 and ord(hi) - ord(lo) < 200 else {"?"}, False)
            except TypeError:
                return ({"?"}, False)
        if k == "ident":
            n = e["v"]
            if n in BUILTIN:
                return (set(BUILTIN[n]), n in ("SOI", "EOI"))
            if n not in self.rules:
                return ({"?"}, False)
            if n in stack:
                return (set(), False)
            if n not in self.memo:
                self.memo[n] = self.first(self.rules[n]["expr"], stack + (n,))
            return self.memo[n]
        if k == "seq":
            a = self.first(e["a"], stack)
            if a[1]:
                b = self.first(e["b"], stack)
                return (a[0] | b[0], b[1])
            return a
        if k == "choice":
            a, b = self.first(e["a"], stack), self.first(e["b"], stack)
            return (a[0] | b[0], a[1] or b[1])
        if k in ("opt", "rep"):
            return (self.first(e["e"], stack)[0], True)
        if k in ("rep_once", "push"):
            return self.first(e["e"], stack)
        if k in ("negpred", "pospred"):
            return (set(), True)
        return ({"?"}, False)

    def refs(self):
        if not hasattr(self, "_refs"):
            self._refs = {}

            def walk(owner, e):
                if e["k"] == "ident" and e["v"] in self.rules:
                    self._refs.setdefault(e["v"], set()).add(owner)
                for k in ("a", "b", "e"):
                    if isinstance(e.get(k), dict):
                        walk(owner, e[k])
            for r in self.rules.values():
                walk(r["name"], r["expr"])
        return self._refs

    def effectively_atomic(self, name, stack=()):
        """atomicity cascades in pest: a normal / silent rule is matched atomically when every rule that refers to it is"""
        r = self.rules[name]
        if r["ty"] in ("atomic", "compound"):
            return True
        if r["ty"] == "nonatomic" or name in stack:
            return False
        users = self.refs().get(name, set()) - {name}
        return bool(users) and all(self.effectively_atomic(u, stack + (name,)) for u in users)

    def bounded_keyword(self, e, kw):
        """e names (or is) an atomic sequence `"kw" ~ !<identifier characters>`"""
        if e["k"] == "ident" and e["v"] in self.rules:
            r = self.rules[e["v"]]
            if r["ty"] not in ("atomic", "compound"):
                return False
            e = r["expr"]
        items = flat(e)
        return (len(items) == 2 and items[0]["k"] == "str" and items[0]["v"] == kw and items[1]["k"] == "negpred"
                and (IDCH - {"?"}) <= self.first(items[1]["e"])[0])


def flat(e):
    if e["k"] == "seq":
        return flat(e["a"]) + flat(e["b"])
    return [e]


def keyword_sites(gr):
    """[(rule, rule type, keyword, items after it in its sequence (None: a choice arm / the whole rule), items before it)]"""
    out = []

    def visit(rule, e, before, after):
        k = e["k"]
        if k == "seq":
            items = flat(e)
            for i, it in enumerate(items):
                visit(rule, it, before + items[:i], items[i + 1:] + after)
        elif k == "choice":
            visit(rule, e["a"], before, after)
            visit(rule, e["b"], before, after)
        elif k in ("opt", "rep", "rep_once"):
            visit(rule, e["e"], before, after)
        elif k == "str" and re.fullmatch(r"[a-z]{2,}", e["v"]):
            out.append((rule["name"], rule["ty"], e["v"], after, before))
    for r in gr.rules.values():
        visit(r, r["expr"], [], [])
    return out


def run(F, rep, rule, only=None):
    gr = Grammar(F.grammar())
    n = 0
    for name, ty, kw, after, before in sorted(keyword_sites(gr), key=lambda x: (x[0], x[2])):
        if only is not None and name not in only:
            continue
        atomic = ty in ("atomic", "compound") or gr.effectively_atomic(name)
        key = "%s|%s|%s" % (rule, name, kw)
        label = "grammar rule %s: the keyword `%s` does not match the beginning of a longer identifier" % (name, kw)
        look = any(b["k"] == "pospred" and gr.bounded_keyword(b["e"], kw) for b in before[-1:])
        if not after:
            # a bare keyword token
            ok = look
            detail = "" if ok else ("`%s` ends the rule with no look-ahead: an identifier that begins with it (`%sfast()`, `%sant = 5`) is split into the keyword and a rest"
                                    % (kw, kw, kw))
            n += 1
            rep.ob(rule, label, "ok" if ok else "violated", detail, "compiler/src/grammar.pest", key=key)
            continue
        nxt = after[0]
        if nxt["k"] == "negpred" and (IDCH - {"?"}) <= gr.first(nxt["e"])[0]:
            n += 1
            rep.ob(rule, label, "ok" if atomic else "violated",
                   "" if atomic else "the look-ahead stands in a non-atomic rule: implicit whitespace (a newline too) is skipped before it, so `%s` on a line of its own "
                   "followed by a statement is refused" % kw, "compiler/src/grammar.pest", key=key)
            continue
        if nxt["k"] == "ident" and nxt["v"] == "WHITESPACE" or (nxt["k"] == "rep_once" and nxt["e"].get("v") == "WHITESPACE"):
            n += 1
            rep.ob(rule, label, "ok" if atomic else "undecided", "explicit WHITESPACE after the keyword", "compiler/src/grammar.pest", key=key)
            continue
        fs, nullable = gr.first(nxt)
        while nullable and not (fs & IDCH) and "?" not in fs and len(after) > 1:
            # optional whitespace (`WHITESPACE*`) separates nothing: the element behind it is what follows the keyword
            after = after[1:]
            nxt = after[0]
            fs, nullable = gr.first(nxt)
        if not (fs & IDCH) and "?" not in fs and not nullable:
            continue                    # `"fn" ~ "("`: the next character cannot continue an identifier
        if len(after) > 1 and not all(gr.first(x)[1] for x in after[1:]):
            continue                    # more is required after the identifier-led element: the rule fails on an identifier and the parser backtracks
        n += 1
        rep.ob(rule, label, "ok" if look else "violated",
               "" if look else ("`%s` is followed (after optional whitespace) by %s, which can begin with an identifier character, and nothing else is required: "
                                "`%sion_count = 0` is read as `%s ion_count ..`" % (kw, nxt.get("v", nxt["k"]), kw, kw)), "compiler/src/grammar.pest", key=key)
    return n


# ---- exponential backtracking -------------------------------------------------------------------------------------------------------------

def _expand(gr, e, depth=0):
    """The leading items of an expression: a list of alternatives, each a list of leading items (('lit', text) / ('rule', name)) up to and
    including the first rule reference that is not inlined (silent rules and single-reference wrappers are looked through, optional leading items give two alternatives)."""
    k = e["k"]
    if k in ("str", "insens"):
        return [[("lit", e["v"])]]
    if k == "ident":
        n = e["v"]
        r = gr.rules.get(n)
        if r is not None and r["ty"] == "silent" and depth < 6:
            return _expand(gr, r["expr"], depth + 1)
        return [[("rule", n)]]
    if k == "seq":
        items = flat(e)
        outs = [[]]
        for it in items:
            if it["k"] in ("negpred", "pospred"):
                continue
            heads = _expand(gr, it["e"] if it["k"] in ("opt", "rep") else it, depth)
            new = []
            for o in outs:
                if o and o[-1][0] == "rule":
                    new.append(o)
                    continue
                for h in heads:
                    new.append(o + h)
                if it["k"] in ("opt", "rep"):
                    new.append(o)
            outs = new
            if all(o and o[-1][0] == "rule" for o in outs):
                break
        return outs
    if k == "choice":
        return _expand(gr, e["a"], depth) + _expand(gr, e["b"], depth)
    if k in ("opt", "rep", "rep_once"):
        return _expand(gr, e["e"], depth)
    return [[]]


def _alts(e):
    if e["k"] == "choice":
        return _alts(e["a"]) + _alts(e["b"])
    return [e]


def backtracking(F, rep, rule):
    """pest parsers do not memoise: when alternative A of an ordered choice fails after it has parsed a nested construct, and a later alternative B parses
    that same construct again from the same position, a nesting of depth d is parsed 2^d times (`x = [[[[[[[[[[[[[[[[[[[[[[1` - 28 bytes - does not
    finish).  Two shapes are decided per choice whose rule is recursive: (subsumed) B is a rule that A can begin with, through rule references and
    optional prefixes only; (common-prefix) A and B begin with the same literals followed by a reference to the same recursive rule.  In both,
    B (or the shared rule) has to lead back to the rule of the choice for the doubling to nest."""
    gr = Grammar(F.grammar())
    reach = {}

    def refs_of(e, acc):
        if e["k"] == "ident" and e["v"] in gr.rules:
            acc.add(e["v"])
        for k in ("a", "b", "e"):
            if isinstance(e.get(k), dict):
                refs_of(e[k], acc)
        return acc
    direct = {n: refs_of(r["expr"], set()) for n, r in gr.rules.items()}

    def reaches(a, b):
        if a not in reach:
            seen, todo = set(), [a]
            while todo:
                v = todo.pop()
                for w in direct.get(v, ()):
                    if w not in seen:
                        seen.add(w)
                        todo.append(w)
            reach[a] = seen
        return b in reach[a]

    def leftmost(e, target, depth=0, seen=None):
        """can e begin with rule `target` (through references, optional / repeated prefixes and alternatives)?"""
        seen = seen if seen is not None else set()
        k = e["k"]
        if k == "ident":
            if e["v"] == target:
                return True
            if e["v"] in gr.rules and e["v"] not in seen and depth < 40:
                seen.add(e["v"])
                return leftmost(gr.rules[e["v"]]["expr"], target, depth + 1, seen)
            return False
        if k == "seq":
            for it in flat(e):
                if it["k"] in ("negpred", "pospred"):
                    continue
                if leftmost(it, target, depth, seen):
                    return True
                if not gr.first(it)[1]:
                    return False
            return False
        if k == "choice":
            return leftmost(e["a"], target, depth, seen) or leftmost(e["b"], target, depth, seen)
        if k in ("opt", "rep", "rep_once"):
            return leftmost(e["e"], target, depth, seen)
        return False
    n = 0
    reported = set()
    _ob = rep.ob

    def ob_once(*a, **kw):
        if kw.get("key") in reported:
            return
        reported.add(kw.get("key"))
        _ob(*a, **kw)

    def visit(owner, e):
        nonlocal n
        if e["k"] == "choice":
            alts = _alts(e)
            for i, a in enumerate(alts):
                for b in alts[i + 1:]:
                    n += 1
                    # (subsumed)
                    if b["k"] == "ident" and b["v"] in gr.rules and reaches(b["v"], owner) and leftmost(a, b["v"]):
                        ob_once(rule, "grammar rule %s: alternative `%s` is not parsed a second time after an earlier alternative that begins with it failed" % (owner, b["v"]),
                               "violated", "an earlier alternative (%s) can begin with `%s`, which leads back to %s: a nesting of depth d is parsed 2^d times when the outer "
                               "construct fails late (an unclosed bracket)" % (a.get("v", a["k"]), b["v"], owner), "compiler/src/grammar.pest",
                               key="%s|%s|subsumed|%s" % (rule, owner, b["v"]))
                        continue
                    # (common-prefix)
                    ea_, eb_ = (gr.rules[a["v"]]["expr"] if a["k"] == "ident" and a["v"] in gr.rules else a), (gr.rules[b["v"]]["expr"] if b["k"] == "ident" and b["v"] in gr.rules else b)
                    for ha in _expand(gr, ea_):
                        for hb in _expand(gr, eb_):
                            ra = _lead_rule(gr, ha)
                            rb = _lead_rule(gr, hb)
                            if ha and hb and ra and rb and ra == rb and [x for x in ha if x[0] == "lit"] == [x for x in hb if x[0] == "lit"] and len(ha) > 1 and reaches(ra, owner):
                                ob_once(rule, "grammar rule %s: alternatives `%s` and `%s` do not both start by parsing the same nested `%s`" % (
                                    owner, a.get("v", a["k"]), b.get("v", b["k"]), ra), "violated",
                                    "both begin with %s followed by `%s`, which leads back to %s: when the first fails behind it the nested construct is parsed again, 2^depth "
                                    "times for a nesting of that depth" % ([x[1] for x in ha if x[0] == "lit"], ra, owner), "compiler/src/grammar.pest",
                                    key="%s|%s|common-prefix|%s|%s" % (rule, owner, a.get("v", a["k"]), b.get("v", b["k"])))
                                break
                        else:
                            continue
                        break
        for k in ("a", "b", "e"):
            if isinstance(e.get(k), dict):
                visit(owner, e[k])
    for name, r in sorted(gr.rules.items()):
        if reaches(name, name):
            visit(name, r["expr"])
    rep.ob(rule, "no ordered choice of a recursive grammar rule parses one nested construct under two alternatives (%d pairs of alternatives judged)" % n,
           "violated" if reported else "ok", "", "compiler/src/grammar.pest", key=rule + "|summary")
    return n


def _lead_rule(gr, head):
    """the rule a leading sequence ends in, looking through one wrapper rule whose body starts with a single rule reference (`open_ended_type = type ~ "..."`)"""
    if not head or head[-1][0] != "rule":
        return None
    n = head[-1][1]
    r = gr.rules.get(n)
    if r is not None:
        items = flat(r["expr"])
        if items and items[0]["k"] == "ident" and items[0]["v"] in gr.rules and len(items) > 1:
            return items[0]["v"]
    return n
