"""Keyword boundaries in the grammar (grammar.pest, read through pest_meta).

A keyword written as a bare string literal matches every identifier that merely *begins* with it.  pest skips implicit whitespace between the
elements of a non-atomic sequence, so `"break"` followed by nothing, or `"assert" ~ value`, accepts `breakfast()` as `break` + `fast()` and
`assertion_count = 0` as `assert ion_count` ...: a valid program silently means something else, or is refused.  Decided per alphabetic
literal (two or more lower-case letters) of every rule:

  token      the literal ends its rule (a bare keyword token: break, continue, const, nil, to ..): it has to be followed, inside an atomic rule,
             by a negative look-ahead on the identifier characters;
  statement  the literal is followed by one more element that can start with an identifier character and that ends the rule
             (`"assert" ~ value`, `"import" ~ import_path`): the input `keyword-prefixed-identifier rest` is then taken by this rule; it needs
             a positive look-ahead on a bounded keyword (`&kw ~ "kw"`), explicit WHITESPACE (compound-atomic rules), or a literal that carries
             its own separator (`"print "`).
A literal followed by a non-identifier literal (`"fn" ~ "("`), or by more required elements after the identifier-led one (`"if" ~ value ~
block`: the rule fails on `iffy = 1` and the parser backtracks into the assignment) is not judged.
"""
import re

IDCH = set("abcdefghijklmnopqrstuvwxyzABCDEFGHIJKLMNOPQRSTUVWXYZ0123456789_")
BUILTIN = {"ASCII_DIGIT": set("0123456789"), "ASCII_NONZERO_DIGIT": set("123456789"), "ASCII_BIN_DIGIT": set("01"), "ASCII_OCT_DIGIT": set("01234567"),
           "ASCII_HEX_DIGIT": set("0123456789abcdefABCDEF"), "ASCII_ALPHA_LOWER": set("abcdefghijklmnopqrstuvwxyz"),
           "ASCII_ALPHA_UPPER": set("ABCDEFGHIJKLMNOPQRSTUVWXYZ"), "ASCII_ALPHA": set("abcdefghijklmnopqrstuvwxyzABCDEFGHIJKLMNOPQRSTUVWXYZ"),
           "ASCII_ALPHANUMERIC": IDCH - {"_"}, "ASCII": IDCH | {"?"}, "ANY": IDCH | {"?"}, "NEWLINE": {"\n", "\r"}, "SOI": set(), "EOI": set()}


class Grammar:
    def __init__(self, G):
        self.rules = {r["name"]: r for r in G["rules"]}
        self.memo = {}

    def first(self, e, stack=()):
        """(characters the expression can start with - '?' stands for anything not tracked -, nullable)"""
        k = e["k"]
        if k in ("str", "insens"):
            return ({e["v"][0]} if e["v"] else set(), e["v"] == "")
        if k == "range":
            lo, hi = e.get("a", e.get("lo", "?")), e.get("b", e.get("hi", "?"))
            try:
                return ({chr(c) for c in range(ord(lo), ord(hi) + 1)} if len(lo) == 1 and len(hi) == 1 and ord(hi) - ord(lo) < 200 else {"?"}, False)
            except TypeError:
                return ({"?"}, False)
        if k == "ident":
            n = e["v"]
            if n in BUILTIN:
                return (set(BUILTIN[n]), n in ("SOI", "EOI"))
            if n not in self.rules:
                return ({"?"}, False)
            if n in stack:
                return (set(), False)
            if n not in self.memo:
                self.memo[n] = self.first(self.rules[n]["expr"], stack + (n,))
            return self.memo[n]
        if k == "seq":
            a = self.first(e["a"], stack)
            if a[1]:
                b = self.first(e["b"], stack)
                return (a[0] | b[0], b[1])
            return a
        if k == "choice":
            a, b = self.first(e["a"], stack), self.first(e["b"], stack)
            return (a[0] | b[0], a[1] or b[1])
        if k in ("opt", "rep"):
            return (self.first(e["e"], stack)[0], True)
        if k in ("rep_once", "push"):
            return self.first(e["e"], stack)
        if k in ("negpred", "pospred"):
            return (set(), True)
        return ({"?"}, False)

    def refs(self):
        if not hasattr(self, "_refs"):
            self._refs = {}

            def walk(owner, e):
                if e["k"] == "ident" and e["v"] in self.rules:
                    self._refs.setdefault(e["v"], set()).add(owner)
                for k in ("a", "b", "e"):
                    if isinstance(e.get(k), dict):
                        walk(owner, e[k])
            for r in self.rules.values():
                walk(r["name"], r["expr"])
        return self._refs

    def effectively_atomic(self, name, stack=()):
        """atomicity cascades in pest: a normal / silent rule is matched atomically when every rule that refers to it is"""
        r = self.rules[name]
        if r["ty"] in ("atomic", "compound"):
            return True
        if r["ty"] == "nonatomic" or name in stack:
            return False
        users = self.refs().get(name, set()) - {name}
        return bool(users) and all(self.effectively_atomic(u, stack + (name,)) for u in users)

    def bounded_keyword(self, e, kw):
        """e names (or is) an atomic sequence `"kw" ~ !<identifier characters>`"""
        if e["k"] == "ident" and e["v"] in self.rules:
            r = self.rules[e["v"]]
            if r["ty"] not in ("atomic", "compound"):
                return False
            e = r["expr"]
        items = flat(e)
        return (len(items) == 2 and items[0]["k"] == "str" and items[0]["v"] == kw and items[1]["k"] == "negpred"
                and (IDCH - {"?"}) <= self.first(items[1]["e"])[0])


def flat(e):
    if e["k"] == "seq":
        return flat(e["a"]) + flat(e["b"])
    return [e]


def keyword_sites(gr):
    """[(rule, rule type, keyword, items after it in its sequence (None: a choice arm / the whole rule), items before it)]"""
    out = []

    def visit(rule, e, before, after):
        k = e["k"]
        if k == "seq":
            items = flat(e)
            for i, it in enumerate(items):
                visit(rule, it, before + items[:i], items[i + 1:] + after)
        elif k == "choice":
            visit(rule, e["a"], before, after)
            visit(rule, e["b"], before, after)
        elif k in ("opt", "rep", "rep_once"):
            visit(rule, e["e"], before, after)
        elif k == "str" and re.fullmatch(r"[a-z]{2,}", e["v"]):
            out.append((rule["name"], rule["ty"], e["v"], after, before))
    for r in gr.rules.values():
        visit(r, r["expr"], [], [])
    return out


def run(F, rep, rule, only=None):
    gr = Grammar(F.grammar())
    n = 0
    for name, ty, kw, after, before in sorted(keyword_sites(gr), key=lambda x: (x[0], x[2])):
        if only is not None and name not in only:
            continue
        atomic = ty in ("atomic", "compound") or gr.effectively_atomic(name)
        key = "%s|%s|%s" % (rule, name, kw)
        label = "grammar rule %s: the keyword `%s` does not match the beginning of a longer identifier" % (name, kw)
        look = any(b["k"] == "pospred" and gr.bounded_keyword(b["e"], kw) for b in before[-1:])
        if not after:
            # a bare keyword token
            ok = look
            detail = "" if ok else ("`%s` ends the rule with no look-ahead: an identifier that begins with it (`%sfast()`, `%sant = 5`) is split into the keyword and a rest"
                                    % (kw, kw, kw))
            n += 1
            rep.ob(rule, label, "ok" if ok else "violated", detail, "compiler/src/grammar.pest", key=key)
            continue
        nxt = after[0]
        if nxt["k"] == "negpred" and (IDCH - {"?"}) <= gr.first(nxt["e"])[0]:
            n += 1
            rep.ob(rule, label, "ok" if atomic else "violated",
                   "" if atomic else "the look-ahead stands in a non-atomic rule: implicit whitespace (a newline too) is skipped before it, so `%s` on a line of its own "
                   "followed by a statement is refused" % kw, "compiler/src/grammar.pest", key=key)
            continue
        if nxt["k"] == "ident" and nxt["v"] == "WHITESPACE" or (nxt["k"] == "rep_once" and nxt["e"].get("v") == "WHITESPACE"):
            n += 1
            rep.ob(rule, label, "ok" if atomic else "undecided", "explicit WHITESPACE after the keyword", "compiler/src/grammar.pest", key=key)
            continue
        fs, nullable = gr.first(nxt)
        while nullable and not (fs & IDCH) and "?" not in fs and len(after) > 1:
            # optional whitespace (`WHITESPACE*`) separates nothing: the element behind it is what follows the keyword
            after = after[1:]
            nxt = after[0]
            fs, nullable = gr.first(nxt)
        if not (fs & IDCH) and "?" not in fs and not nullable:
            continue                    # `"fn" ~ "("`: the next character cannot continue an identifier
        if len(after) > 1 and not all(gr.first(x)[1] for x in after[1:]):
            continue                    # more is required after the identifier-led element: the rule fails on an identifier and the parser backtracks
        n += 1
        rep.ob(rule, label, "ok" if look else "violated",
               "" if look else ("`%s` is followed (after optional whitespace) by %s, which can begin with an identifier character, and nothing else is required: "
                                "`%sion_count = 0` is read as `%s ion_count ..`" % (kw, nxt.get("v", nxt["k"]), kw, kw)), "compiler/src/grammar.pest", key=key)
    return n
