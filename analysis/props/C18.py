"""C18 — human-readable bytecode round-trips: raw-text -> transpile -> execute == run.

Four codecs: W1 = CompiledItem::repr(true) (text), R1 = transpiler line reader + split_string,
W2 = transpiler Instruction::repr, R2 = loader + split_string.  Decided clauses:
 1. R1(W1(arg)) == arg for every character class (record separator of the text form included);
 2. R2(W2(arg)) == arg for every character class;
 3. T-opcode: names, ids and handlers form one bijection with contiguous ids, and the transpiler
    obtains every opcode through string_instruction_representation_to_byte only;
 4. text framing: W1 writes '\\t{name}{args}\\n', R1 splits name/args at the first space and trims.
"""
import codec
import mir
import opcodes
import rules
from mir import op_local, op_const
from core import AnchorMissing
from props import _codecs
from props._codecs import need


def run(ctx, rep):
    F = ctx.facts("default", ["bytecode", "compiler", "bytecode_dev_transpiler"])
    rep.explain("C18: both writers (CompiledItem::repr text form, transpiler Instruction::repr) are evaluated abstractly to per-argument "
                "output expressions (with path conditions such as `arg.contains(' ')`), the shared reader split_string_v2 to its transition "
                "table; each writer/reader pair is decided by finite composition over character classes. Opcode tables are compared as "
                "extracted constants (names array, id constants, dispatch switch).")
    rep.assume("NUL inside an argument is outside the property's alphabet")
    _codecs.fresh_output_files(F, rep, "C18.fresh-file", ["compiler", "bytecode_dev_transpiler"], 2)
    from props import _strunits
    source_name_is_a_whole_suffix(F, rep)
    # `execute --transpile X.transpiled.mmm` runs the same module `run X.ms` runs only if the transpiled file is entered under the spelling imports use (C11's clause)
    from props import C11 as _c11
    _c11.entry_is_spelled_like_an_import(ctx, rep, rule="C18.entry-spelling")
    records_in_order(F, rep)
    _strunits.unit_mix(F, rep, "C18.index-unit", ["bytecode_dev_transpiler", "compiler"])
    rep.assume("a character not compared against any constant by the reader behaves like the class representative")
    try:
        rf, tab = _codecs.reader(F)
        w1f, rows1 = _codecs.w1_rows(F, text=True)
        n1 = _codecs.normalise(rows1, F)
        w2f, rows2 = _codecs.w2_rows(F)
        n2 = _codecs.normalise(rows2, F)
    except codec.ShapeChanged as e:
        rep.ob("C18.roundtrip", "extract codec tables", "undecided", "ANCHOR-SHAPE-CHANGED: %s" % e, None)
        # fail closed: a writer/reader the extractor cannot read is not a pass (exit 2, no VIOLATION line)
        rep.floor("C18.codec tables extracted (writer/reader in a form the extractor understands)", 0, 1)
        return
    rep.floor("C18.codec tables extracted (writer/reader in a form the extractor understands)", 1, 1)
    rep.extra["writer_W1_text"] = [{"when": r["cond_text"], "per_argument_output": codec.expr_str(r["expr"])} for r in n1]
    rep.extra["writer_W2"] = [{"when": r["cond_text"], "per_argument_output": codec.expr_str(r["expr"])} for r in n2]
    rep.floor("C18.reader transitions", len(tab.delta), 40)
    tf = need(F, "bytecode_dev_transpiler::transpile_file")
    # R1 reads records with read_line => '\n' is the record separator of the text form
    rl = tf.calls_to("std::io::BufRead::read_line")
    sep = "\n" if rl else None
    rep.ob("C18.framing", "the transpiler reads the text form line by line (read_line)", "ok" if rl else "undecided", "", tf.span, fn=tf.path)
    _codecs.report_roundtrip(rep, "C18.roundtrip", "text(W1,R1)", tab, n1, w1f.span, w1f.path, record_sep=sep)
    # W2 writes the binary form: records end with NUL (the template of Instruction::repr ends in "\0")
    sep2 = "\x00" if [t for t in _codecs.final_template(w2f) if t and t[-1] == "\x00"] else None
    _codecs.report_roundtrip(rep, "C18.roundtrip", "transpiled(W2,R2)", tab, n2, w2f.span, w2f.path, record_sep=sep2)
    # R1 tokenises with split_string
    ss = tf.calls_to("bytecode::instruction::split_string")
    rep.ob("C18.framing", "the transpiler tokenises arguments with split_string", "ok" if ss else "violated", "", tf.span, fn=tf.path)
    # ... and what split_string decoded is what the instruction carries into the writer: the `arguments` of every Instruction built from a
    # line with arguments has that call as its only source (a second assignment - "an all-blank list means no arguments" - silently changes
    # `" "` into `""`, which the codec composition above cannot see because it composes the reader with the writer directly)
    n_ins = 0
    for bi, si, dst, rv, s_ in tf.assigns():
        if "agg" in rv and rv["agg"].get("adt", "").endswith("bytecode_dev_transpiler::Instruction"):
            for o in rv["ops"]:
                l = op_local(o)
                if l is None or "Box<[" not in tf.locals[l] and "[alloc::string::String]" not in tf.locals[l]:
                    continue
                org = rules.origins(tf, l, transparent=rules.TRANSPARENT | {rules.TRY_BRANCH})
                from_split = {x for x in org if x[0] == "call" and x[1] in {c.bb for c in ss}}
                if not from_split:
                    continue        # the argument-less form (`Box::new([])` for a bare instruction name)
                n_ins += 1
                other = org - from_split
                rep.ob("C18.framing", "the arguments split_string decoded reach the binary writer unchanged", "violated" if other else "ok",
                       ("besides split_string the argument list also comes from %s: some decoded argument lists are replaced before they are written" % sorted(str(x) for x in other))
                       if other else "", s_.get("sp"), fn=tf.path, key="C18.framing|arguments-unchanged|#%d" % n_ins)
    rep.floor("C18.framing instructions built from split_string results", n_ins, 1)
    # ... and what it tokenises is the text of the line itself: cut out of the line (split_once / slicing / trimming of line ends), never rewritten
    CUTTING = rules.TRANSPARENT | {"core::str::<impl str>::split_once", "core::str::<impl str>::trim_end", "core::str::<impl str>::trim_start", "core::str::<impl str>::trim",
                                   "core::str::<impl str>::trim_end_matches", "core::str::<impl str>::strip_suffix", "core::str::<impl str>::strip_prefix",
                                   "core::option::Option::unwrap", "core::option::Option::expect", "alloc::string::String::as_str", "core::ops::index::Index::index",
                                   "core::str::<impl str>::get", "core::str::<impl str>::split_at", rules.TRY_BRANCH}
    for c in ss:
        oc = rules.origin_calls(tf, op_local(c.args[0]), transparent=CUTTING) if op_local(c.args[0]) is not None else []
        rewriting = [mir.short(x.callee()) for x in oc if not x.matches(("std::io::BufRead::read_line", "alloc::string::String::new", "core::str::<impl str>::split_once"))]
        rep.ob("C18.framing", "the transpiler tokenises the text of the line as written (no rewriting between read_line and split_string)",
               "violated" if rewriting else "ok", "the tokenised text goes through %s" % rewriting if rewriting else "", c.span, fn=tf.path,
               key="C18.framing|transpile_file|line-text-unchanged")
    # ... nor edited in place: the only things that borrow the line buffer mutably are the read itself and the clear before the next one
    rl = tf.calls_to("std::io::BufRead::read_line")
    if not rl:
        raise AnchorMissing("read_line in transpile_file")
    bufs = set()
    def base_of(l, depth=6):
        """`&mut *(&mut buffer)`: the local a (re)borrow goes back to."""
        for _ in range(depth):
            ds = [d for d in rules.defs_of(tf, l) if d[0] == "assign" and "ref" in d[4] and not d[3].get("p")] if l is not None else []
            if len(ds) != 1:
                return None
            pl = ds[0][4]["ref"]
            pr = pl.get("p") or []
            if not pr:
                return pl["l"]
            if pr == [["deref"]]:
                l = pl["l"]
                continue
            return None
        return None
    for c in rl:
        b = base_of(op_local(c.args[1]) if len(c.args) > 1 else None)
        if b is not None:
            bufs.add(b)
    mut_refs = set()
    for bi, si, dst, rv, st in tf.assigns():
        if "ref" in rv and rv.get("mut") and not dst.get("p") and base_of(dst["l"]) in bufs:
            mut_refs.add(dst["l"])
    editors = []
    for c in tf.calls():
        if any(op_local(a) in mut_refs for a in c.args) and not c.matches(("std::io::BufRead::read_line", "alloc::string::String::clear")):
            editors.append(c)
    rep.ob("C18.framing", "the line buffer is only filled by read_line and cleared: nothing edits a line in place before it is tokenised",
           "violated" if editors else "ok", ("edited by %s: characters inside quoted arguments are changed before the arguments are decoded" % sorted(
               {mir.short(mir.strip_generics(x.callee())) for x in editors})) if editors else "%d line buffer(s)" % len(bufs),
           editors[0].span if editors else tf.span, fn=tf.path, key="C18.framing|transpile_file|line-not-edited")
    rep.floor("C18.framing line buffers of transpile_file", len(bufs), 1)
    for c in ss:
        # the argument text is what follows the first space of the line
        o = rules.origin_calls(tf, op_local(c.args[0]), transparent=rules.TRANSPARENT | {rules.TRY_BRANCH})
        ok = any(x.matches("core::str::<impl str>::split_once") for x in o)
        rep.ob("C18.framing", "arguments = text after the first space of the line", "ok" if ok else "undecided",
               "derives from %s" % [mir.short(x.callee()) for x in o], c.span, fn=tf.path)
    temps = _codecs.final_template(w1f)
    txt_t = [t for t in temps if t and t[0] == "\t" and t[-1] == "\n" and t.count("{}") == 2 and len(t) == 4]
    rep.ob("C18.framing", "text instruction record is '\\t{name}{args}\\n'", "ok" if txt_t else "violated", "templates: %r" % temps, w1f.span, fn=w1f.path)
    names_src = w1f.calls_to("bytecode::compilation_bridge::raw_byte_instruction_to_string_representation")
    rep.ob("C18.framing", "the text form names an instruction through raw_byte_instruction_to_string_representation(id)",
           "ok" if names_src else "violated", "", w1f.span, fn=w1f.path)

    # ---- T-opcode ---------------------------------------------------------------------------------
    T = opcodes.tables(F)
    ids, names, handlers = T["ids"], T["names"], T["handlers"]
    rep.floor("C18.opcode names", len(names), 40)
    n = len(names)
    contiguous = sorted(ids.values()) == list(range(len(ids))) and len(ids) == n
    rep.ob("C18.opcodes", "opcode ids are contiguous 0..n-1 and as many as names", "ok" if contiguous else "violated",
           "%d ids, %d names, values %s.." % (len(ids), n, sorted(ids.values())[:5]), None, fn="bytecode::instruction_constants")
    dup = {x for x in names if names.count(x) > 1}
    rep.ob("C18.opcodes", "instruction names are unique (name -> id is a function)", "ok" if not dup else "violated", "duplicates: %s" % sorted(dup),
           None, fn="bytecode::instruction_constants")
    for cname, v in sorted(ids.items(), key=lambda kv: kv[1]):
        nm = names[v] if v < n else None
        h = handlers.get(v)
        ok = nm == cname.lower() and h == nm
        rep.ob("C18.opcodes", "opcode %d: name, constant and handler agree" % v, "ok" if ok else "violated",
               "BIN_TO_REPR[%d]=%r, constant %s, dispatch calls implementations::%s" % (v, nm, cname, h), None,
               fn="bytecode::instruction_constants", key="C18.opcodes|%s|agree" % cname)
    # name -> byte and byte -> name are inverse lookups of the same array
    rb = need(F, "bytecode::compilation_bridge::raw_byte_instruction_to_string_representation")
    okrb = '"static": "bytecode::instruction_constants::BIN_TO_REPR"' in json_consts(rb)
    rep.ob("C18.opcodes", "byte -> name reads BIN_TO_REPR", "ok" if okrb else "violated", "", rb.span, fn=rb.path)
    # REPR_TO_BIN built from BIN_TO_REPR by index
    cl = [f for f in F.crates["bytecode"].fns if f.path.startswith("bytecode::instruction_constants::REPR_TO_BIN::{closure#0}")]
    okmap = bool(cl) and any('"static": "bytecode::instruction_constants::BIN_TO_REPR"' in json_consts(f) for f in cl)
    rep.ob("C18.opcodes", "name -> byte is the inverse of BIN_TO_REPR by construction (built by enumerating it)", "ok" if okmap else "undecided", "",
           cl[0].span if cl else None, fn=cl[0].path if cl else None)
    # transpiler: every Instruction { name } comes from string_instruction_representation_to_byte
    aggs = [(bi, si, dst, rv, s) for bi, si, dst, rv, s in tf.assigns()
            if "agg" in rv and rv["agg"].get("adt") == "bytecode_dev_transpiler::Instruction"]
    rep.floor("C18.transpiler instruction constructions", len(aggs), 2)
    ia = F.adt("bytecode_dev_transpiler::Instruction")
    ni = [i for i, f in enumerate(ia["variants"][0]["fields"]) if f["name"] == "name"][0]
    ai = [i for i, f in enumerate(ia["variants"][0]["fields"]) if f["name"] == "arguments"][0]
    for bi, si, dst, rv, s in aggs:
        o = rules.origin_calls(tf, op_local(rv["ops"][ni]), transparent=rules.TRANSPARENT | {rules.TRY_BRANCH})
        ok = bool(o) and all(x.matches(opcodes.TO_BYTE) for x in o)
        rep.ob("C18.opcodes", "transpiler: opcode obtained through string_instruction_representation_to_byte", "ok" if ok else "violated",
               "derives from %s" % [mir.short(x.callee()) for x in o], s.get("sp"), fn=tf.path)
        k = op_const(rv["ops"][ai])
        o2 = rules.origin_calls(tf, op_local(rv["ops"][ai]), transparent=rules.TRANSPARENT | {rules.TRY_BRANCH}) if op_local(rv["ops"][ai]) is not None else []
        ok2 = all(x.matches(("bytecode::instruction::split_string", "alloc::boxed::Box::new")) for x in o2)
        rep.ob("C18.args-carried", "transpiler: arguments are the tokens split_string produced (or none)", "ok" if ok2 else "violated",
               "derives from %s" % [mir.short(x.callee()) for x in o2], s.get("sp"), fn=tf.path)
    # W2 writes `{name as char}{args}\0`
    t2 = [t for t in _codecs.final_template(w2f) if t and t[-1] == "\x00" and t.count("{}") == 2 and len(t) == 3]
    rep.ob("C18.framing", "transpiled instruction record is '{id}{args}\\0'", "ok" if t2 else "violated", "templates %r" % _codecs.final_template(w2f),
           w2f.span, fn=w2f.path)


def json_consts(f):
    import json
    return json.dumps(f.d["blocks"])


def records_in_order(F, rep, rule="C18.framing"):
    """The transpiler carries the text form into the binary form record by record: every `function NAME .. end` block becomes one `f NAME .. e` record,
    in the order of the text (the loader binds a label to the *last* record that carries it, and the compiler does emit a label twice for classes of
    one name declared in two function bodies).  transpile_file therefore keeps what it has read in sequences only: a keyed or sorted collection of
    the records (a map from label to body) merges two blocks of one label and re-orders the rest."""
    import re
    g = [f for f in F.all_fns() if f.path.endswith("bytecode_dev_transpiler::transpile_file") or f.path == "bytecode_dev_transpiler::transpile_file"]
    if len(g) != 1:
        raise AnchorMissing("bytecode_dev_transpiler::transpile_file")
    g = g[0]
    hits = []
    for h in [g] + F.closures_of(g):
        for c in h.calls():
            cal = mir.strip_generics(c.callee() or "")
            if re.search(r"(BTreeMap|HashMap|BTreeSet|HashSet|BinaryHeap|IndexMap)(<.*>)?::\w+$|btree_map::\w+::\w+$|hash_map::\w+::\w+$", cal):
                hits.append((h, c, cal))
    rep.ob(rule, "the transpiler keeps the records of the text form in a sequence (one `f NAME .. e` per `function NAME .. end`, in order)", "violated" if hits else "ok",
           ("transpile_file calls %s: records are collected by label, so two blocks of one label are merged and the others re-ordered; the loader then binds "
            "the label to another body than `run` does" % mir.short(hits[0][2])) if hits else "", hits[0][1].span if hits else g.span, fn=g.path,
           key=rule + "|records-in-order")


def source_name_is_a_whole_suffix(F, rep, rule="C18.source-name"):
    """`mscript transpile X` derives the output path from X by replacing the `.transpiled.mmm` ending with `.mmm`; when X does not really end in it,
    `with_extension("").with_extension("mmm")` gives X itself and the transpiler truncates its own input before reading it (`piled.mmm`, `d.mmm`,
    `mmm` all pass a comparison that zips the reversed strings: zip stops at the shorter one).  The predicate that admits a source name compares
    the *whole* ending: in is_path_a_transpiled_source (and its inner functions) a pairwise walk over two zipped strings is allowed only next to a
    comparison of their lengths; `str::ends_with` / `strip_suffix` / a sub-slice compare need none."""
    import re
    g = [f for f in F.all_fns() if re.search(r"bytecode_dev_transpiler::is_path_a_transpiled_source($|::)", f.path)]
    if not g:
        raise AnchorMissing("bytecode_dev_transpiler::is_path_a_transpiled_source")
    zips, lens = [], []
    for f in g:
        for c in f.calls():
            cal = mir.strip_generics(c.callee() or "")
            if cal.endswith("Iterator::zip"):
                zips.append((f, c))
            if re.search(r"str>::len$|String::len$|Iterator::count$|<impl str>::len$", cal):
                lens.append((f, c))
    compared = False
    for f in g:
        ll = {c.dst["l"] for ff, c in lens if ff is f and c.dst}
        der = f.derived(ll) if ll else {}
        for bi, si, dst, rv, s_ in f.assigns():
            if "bin" in rv and rv["bin"] in ("Eq", "Ne", "Lt", "Le", "Gt", "Ge", "Sub", "SubWithOverflow") and (op_local(rv["l"]) in der and op_local(rv["r"]) in der):
                compared = True
        for c in f.calls():
            if re.search(r"checked_sub$|saturating_sub$", mir.strip_generics(c.callee() or "")) and any(op_local(a) in der for a in c.args):
                compared = True
    bad = bool(zips) and not compared
    rep.ob(rule, "a path is admitted as a transpile source only when it ends in the whole `.transpiled.mmm`", "violated" if bad else "ok",
           ("the ending is compared by zipping the two reversed strings (%d zip) without comparing their lengths: every suffix of `.transpiled.mmm` passes, the output path "
            "is then the input path, and `transpile piled.mmm` truncates its own input" % len(zips)) if bad else "", (zips[0][1].span if zips else g[0].span), fn=g[0].path,
           key=rule + "|whole-suffix")
