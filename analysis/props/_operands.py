"""Operand-order rule (C05, C06): in an operator implementation `fn op(self, rhs)`, the left operand of every
non-commutative primitive (-, /, %, <<, >>, <, <=, >, >=, checked_sub/div/rem/shl/shr, pow) derives from `self`
and the right operand from `rhs`.  A swapped or mixed origin computes `rhs op lhs`."""
import re

import mir
import rules
from mir import op_local, op_const

NONCOMM_BIN = {"Sub", "SubWithOverflow", "SubUnchecked", "Div", "Rem", "Shl", "ShlUnchecked", "Shr", "ShrUnchecked", "Lt", "Le", "Gt", "Ge"}
NONCOMM_CALL = re.compile(r"(core::ops::arith::(Sub|Div|Rem)|core::ops::bit::(Shl|Shr)|core::cmp::PartialOrd::(lt|le|gt|ge)|"
                          r"::(checked_sub|checked_div|checked_rem|checked_shl|checked_shr|wrapping_sub|pow|powf|powi|rem_euclid|div_euclid)$|"
                          # a two-operand helper the crate defines on the number type itself (`<i32 as ExactShl>::exact_shl(x, n)`): taken as
                          # order-sensitive, which is the safe reading
                          r"^<(i32|i128|u8|f64) as (?!core::|std::)[\w:]+>::\w+$)")
PRIMS = re.compile(r"\b(i32|i128|u8|f64|u32|i64|usize)\b")
THROUGH = set(rules.TRANSPARENT) | {
    rules.TRY_BRANCH, "core::str::<impl str>::parse", "anyhow::Context::with_context", "anyhow::Context::context",
    "core::convert::TryInto::try_into", "core::convert::TryFrom::try_from", "core::option::Option::unwrap", "core::result::Result::unwrap",
    "core::ops::deref::Deref::deref", "core::convert::Into::into",
}


def roots(fn, op):
    l = op_local(op)
    if l is None:
        return set()
    tp = rules.trace_paths(fn, l, transparent=THROUGH)
    return {o[1] for (o, fs) in tp if o[0] == "arg"}


def run(F, rep, rule, fns, label):
    n = 0
    for f in fns:
        bodies = [f]
        idx = 0
        for g in bodies:
            sites = []
            for bi, si, dst, rv, s in g.assigns():
                if "bin" in rv and rv["bin"] in NONCOMM_BIN and PRIMS.search(rv.get("lty") or ""):
                    if any(m in ("assert", "assert_eq", "debug_assert", "format_args", "panic", "unreachable") for m in (s.get("mc") or [])):
                        continue
                    sites.append((rv["bin"], rv["l"], rv["r"], s.get("us") or s.get("sp")))
            for c in g.calls():
                nm = c.callee()
                if NONCOMM_CALL.search(mir.strip_generics(nm)) and PRIMS.search(nm) and len(c.args) >= 2:
                    sites.append((mir.short(nm), c.args[0], c.args[1], c.span))
            for opname, lo, ro, where in sites:
                rl, rr = roots(g, lo), roots(g, ro)
                n += 1
                if not rl and not rr:
                    continue
                bad = (2 in rl) or (1 in rr)
                key = "%s|%s|%s#%d" % (rule, mir.short(f.path), opname, idx)
                idx += 1
                rep.ob(rule, "%s: operands of %s in %s are (self, rhs) in that order" % (label, opname, mir.short(f.path)),
                       "violated" if bad else "ok",
                       "left operand derives from parameter(s) %s, right operand from %s: the operation can be evaluated with its operands swapped" % (
                           sorted(rl), sorted(rr)) if bad else "", where, fn=g.path, key=key)
    return n
