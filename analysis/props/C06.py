"""C06 — compile-time constant folding agrees with run-time evaluation (structural clauses).

 (a) the folder's kind table (impl ops for &Number) equals the interpreter's kind table for all
     4 x 4 numeric kinds of the 10 folded operators, including which cells are kind errors;
     the folder's dispatch Op -> trait equals the interpreter's dispatch symbol -> trait;
 (b) Number::negate preserves the variant, as Primitive::negate does;
 (c) failure equivalence: every integer arm of the folder goes through a checked_* primitive (so it
     rejects exactly on overflow / zero), float / and % are guarded by a zero test, and the run-time
     side of the equivalence is C05 (b),(c).
"""
import re

import mir
import rules
import tables
from absint import Interp, Variant, Opaque
from mir import op_local, op_const
from core import AnchorMissing
from props import _optables
from props._optables import NUM_TO_PRIM, PRIM_TO_NUM
from tables import NUMERIC, NUM

FOLD_OPS = {"Add": "+", "Subtract": "-", "Multiply": "*", "Divide": "/", "Modulo": "%", "BitwiseLs": "<<", "BitwiseRs": ">>",
            "BinaryAnd": "&", "BinaryOr": "|", "BinaryXor": "xor"}
TRAIT_OF = {"Add": "Add", "Subtract": "Sub", "Multiply": "Mul", "Divide": "Div", "Modulo": "Rem", "BitwiseLs": "Shl", "BitwiseRs": "Shr",
            "BinaryAnd": "BitAnd", "BinaryOr": "BitOr", "BinaryXor": "BitXor"}


def run(ctx, rep):
    F = ctx.facts("default", ["bytecode", "compiler"])
    O = _optables.get(F)
    T = O.T
    rep.explain("C06: the constant folder (impl ops for &Number, string_arithmetic) and the interpreter's operators are both read as kind "
                "tables by abstract interpretation of their MIR and compared cell by cell; the folder's arithmetic primitives are inventoried.")
    rep.assume("decimal-string <-> binary value round trips inside the folder (parse / to_string) are value-level and not decided")

    # ---- dispatch ----------------------------------------------------------------------------------------
    fd = O.fold_dispatch()
    syms = O.symbols()
    rep.floor("C06.folded operators", len(fd), 8)
    for op, sym in FOLD_OPS.items():
        fcal = fd.get(op)
        rd = O.rt_dispatch(syms.get(op), ("Int", "Int"))
        ftrait = None
        if fcal:
            m = re.search(r"impl core::ops::\w+::(\w+) for", fcal)
            ftrait = m.group(1) if m else None
        rtrait = None
        if rd[0] == "fn":
            m = re.search(r"impl core::ops::\w+::(\w+) for", rd[1])
            rtrait = m.group(1) if m else None
        ok = ftrait is not None and ftrait == rtrait == TRAIT_OF[op]
        rep.ob("C06.dispatch", "%s is folded by Number::%s and executed by Primitive::%s" % (op, ftrait, rtrait), "ok" if ok else "violated",
               "folder: %s; interpreter (symbol %r): %s" % (fcal, syms.get(op), rd), None, fn="compiler::ast::math_expr", key="C06.dispatch|%s" % op)
    # operators that are not folded must be impossible, not mis-folded: every Op variant outside FOLD_OPS has no folder arm
    extra = sorted(set(fd) - set(FOLD_OPS))
    rep.ob("C06.dispatch", "only arithmetic/bitwise operators are folded", "ok" if not extra else "undecided", "also folded: %s" % extra, None,
           fn="compiler::ast::math_expr")

    # ---- (a) ---------------------------------------------------------------------------------------------
    n = 0
    for op, sym in FOLD_OPS.items():
        tr = TRAIT_OF[op]
        for l in NUMERIC:
            for r in NUMERIC:
                fo = O.fold(tr, PRIM_TO_NUM[l], PRIM_TO_NUM[r])
                rt = O.rt_via_binop(sym, l, r)
                n += 1
                f_ok = {NUM_TO_PRIM.get(k, k) for (tag, k, dd) in fo if tag == "Ok"}
                r_ok = {k for (tag, k, dd) in rt if tag == "Ok"}
                f_kerr = any(tag == "Err" and not dd for (tag, k, dd) in fo)
                r_kerr = any(tag == "Err" and not dd for (tag, k, dd) in rt)
                f_panic = [k for (tag, k, dd) in fo if tag == "Panic" and not dd]
                und = [x for x in list(fo) + list(rt) if x[0] == "Undecided"]
                key = "C06.fold-table|%s|%s,%s" % (op, l.lower(), r.lower())
                inst = "%s %s %s" % (l.lower(), sym, r.lower())
                if und:
                    rep.ob("C06.fold-table", inst, "undecided", str(und[:2]), None, fn="compiler::ast::number::string_arithmetic", key=key)
                    continue
                ok = f_ok == r_ok and f_kerr == r_kerr and not f_panic
                rep.ob("C06.fold-table", inst + ": folder and interpreter agree on the result kind", "ok" if ok else "violated",
                       "folder: kinds %s%s%s; interpreter: kinds %s%s" % (sorted(f_ok), ", kind error" if f_kerr else "",
                                                                          ", panics %s" % f_panic if f_panic else "", sorted(map(str, r_ok)),
                                                                          ", kind error" if r_kerr else ""),
                       None, fn="compiler::ast::number::string_arithmetic", key=key)
    rep.floor("C06.fold cells", n, 120)

    # ---- (b) ---------------------------------------------------------------------------------------------
    ng = F.fn("compiler::ast::number::Number::negate")
    if ng is None:
        raise AnchorMissing("Number::negate")
    rt_keeps = {}
    for k in ("Integer", "BigInt", "Float", "Byte"):
        rt = T.runtime("negate", NUM_TO_PRIM[k], None)
        rt_keeps[k] = any(x[0] == "Ok" for x in rt)
    negate_on_texts(F, rep, rt_keeps)

    # ---- operand order -----------------------------------------------------------------------------------
    from props import _operands
    ffns = [T.fold_fn(TRAIT_OF[op]) for op in ("Subtract", "Divide", "Modulo", "BitwiseLs", "BitwiseRs")]
    n_sites = _operands.run(F, rep, "C06.operand-order", ffns, "folder")
    rep.floor("C06.operand-order sites", n_sites, 30)

    # ---- the folder's entry point hands every literal pair to the operator implementations ------------------------------------
    # (the kind / failure tables above are read from `impl ops for &Number`; a shortcut in Expr::try_constexpr_eval that answers without them
    #  -- "x + 0 is x" -- would bypass the tables: byte + int(0) must still be an int)
    ent = [f for f in F.all_fns() if f.path.endswith("::try_constexpr_eval") and "math_expr::Expr" in f.path and "CompileTimeEvaluate" in f.path]
    if len(ent) != 1:
        raise AnchorMissing("impl CompileTimeEvaluate for Expr")
    ent = ent[0]
    opcalls = {c.bb for c in ent.calls() if "core::ops::" in c.callee() and "number::Number" in c.callee()}
    rep.floor("C06.fold-entry operator calls in try_constexpr_eval", len(opcalls), 10)
    n_num = 0
    for bi, si, dst, rv, s in ent.assigns():
        if "agg" in rv and rv["agg"].get("adt", "").endswith("value::Value") and rv["agg"].get("v") == "Number":
            n_num += 1
            l = op_local(rv["ops"][0])
            src = rules.origin_calls(ent, l, transparent=rules.TRANSPARENT | {rules.TRY_BRANCH}) if l is not None else []
            okn = bool(src) and all(c.bb in opcalls for c in src)
            rep.ob("C06.fold-entry", "a folded binary expression is the result of the operator implementation on both literals (no shortcut past the tables)",
                   "ok" if okn else "violated", "the folded number derives from %s" % [mir.short(c.callee()) for c in src], s.get("us") or s.get("sp"), fn=ent.path,
                   key="C06.fold-entry|number#%d" % (n_num - 1))
    rep.floor("C06.fold-entry folded numbers built in try_constexpr_eval", n_num, 1)
    # the operands the tables are applied to are the *evaluated* children: Number::try_constexpr_eval is where an unsuffixed literal that
    # does not fit i32 becomes a bigint (as the code generator sees it); a literal taken straight from the tree keeps the kind the lexer gave it
    THROUGH = rules.TRANSPARENT | {rules.TRY_BRANCH, "compiler::ast::value::ConstexprEvaluation::as_ref", "compiler::ast::value::ConstexprEvaluation::into_owned", "core::option::Option::as_ref", "core::option::Option::as_deref",
                                   "core::ops::deref::Deref::deref", "core::borrow::Borrow::borrow", "core::convert::AsRef::as_ref", "core::option::Option::unwrap"}
    n_opnd = 0
    for c in ent.calls():
        if c.bb not in opcalls or not ("core::ops::" in c.callee() and "number::Number" in c.callee()):
            continue
        for k, a in enumerate(c.args[:2]):
            l = op_local(a)
            oc = rules.origin_calls(ent, l, transparent=THROUGH) if l is not None else []
            n_opnd += 1
            okn = bool(oc) and all(x.callee().endswith("::try_constexpr_eval") or _helper_returns_evaluations(F, x, THROUGH) for x in oc)
            if not okn:
                rep.ob("C06.fold-entry", "the folder applies %s to the evaluated operands" % mir.short(mir.strip_generics(c.callee())), "violated",
                       "operand %d derives from %s, not from try_constexpr_eval of the child: `3000000000 + 1` is folded with an int-labelled 3000000000 and refused, "
                       "while `a = 3000000000` / `a + 1` runs" % (k, sorted({mir.short(mir.strip_generics(x.callee())) for x in oc}) or "the tree itself"),
                       c.span, fn=ent.path, key="C06.fold-entry|operand|%s#%d" % (mir.short(mir.strip_generics(c.callee())), k))
    rep.ob("C06.fold-entry", "the operands of every folded operator are the children's try_constexpr_eval results (%d operands)" % n_opnd, "ok", "", ent.span,
           fn=ent.path, key="C06.fold-entry|operands")
    rep.floor("C06.fold-entry operands of folded operators", n_opnd, 20)

    # ---- same primitive on both sides -----------------------------------------------------------------------
    from props import _primsem
    n_prim = 0
    for op, tr in TRAIT_OF.items():
        n_prim += _primsem.check(F, rep, "C06.primitive-semantics", "folder", tr, T.fold_fn(tr))
        n_prim += _primsem.check(F, rep, "C06.primitive-semantics", "interpreter", tr, T.rt_fn(tr))
    rep.floor("C06.primitive-semantics arithmetic sites", n_prim, 100)
    # both sides make `<<` exact-or-fail (a folder that keeps the truncated value disagrees with an interpreter that fails, and vice versa)
    from props import _shifts
    _shifts.run(F, rep, "C06.exact-shift", "compiler", "folder")
    _shifts.run(F, rep, "C06.exact-shift", "bytecode", "interpreter")
    # MIN % -1: the interpreter's side is decided by evaluation in C05.extremes; the folder's by this structural rule
    _shifts.run_rem(F, rep, "C06.exact-rem", "compiler", "folder")

    # ---- (c) ---------------------------------------------------------------------------------------------
    for op in ("Add", "Subtract", "Multiply", "Divide", "Modulo", "BitwiseLs", "BitwiseRs"):
        f = T.fold_fn(TRAIT_OF[op])
        bodies = [f] + F.closures_of(f)
        unchecked = []
        checked = 0
        fdiv = []
        for g in bodies:
            for c in g.calls():
                nm = mir.strip_generics(c.callee())
                if re.search(r"core::num::<impl (i32|i128|u8)>::checked_", nm):
                    checked += 1
                elif re.match(r"<(i32|i128|u8) as (?!core::|std::)", nm):
                    # a helper the crate defines on the number type (`<i32 as ExactShl>::exact_shl`): checked iff it returns an Option and its
                    # own body is built on a checked_* primitive with nothing unchecked beside it
                    h = None
                    for nm2 in [c.callee()] + sorted(c.names):
                        h = F.fn(nm2)
                        if h is not None:
                            break
                    hb = ([h] + F.closures_of(h)) if h is not None else []
                    inner = [mir.strip_generics(c2.callee()) for g2 in hb for c2 in g2.calls()]
                    if h is not None and h.locals[0].startswith("core::option::Option<") and any(re.search(r"core::num::<impl (i32|i128|u8)>::checked_", x) for x in inner) \
                            and not any(re.search(r"core::num::<impl (i32|i128|u8)>::(wrapping_|overflowing_|unchecked_|saturating_)", x) for x in inner):
                        checked += 1
                    else:
                        unchecked.append((nm, c.span))
                elif re.search(r"core::ops::arith::(Add|Sub|Mul|Div|Rem)", nm) and re.search(r"\b(i32|i128|u8)\b", nm):
                    unchecked.append((nm, c.span))
                elif re.search(r"core::num::<impl (i32|i128|u8)>::(wrapping_|overflowing_|unchecked_|saturating_)", nm):
                    unchecked.append((nm, c.span))
                elif re.search(r"<f64 as core::ops::arith::(Div|Rem)", nm):
                    fdiv.append((g, c))
            for blk in g.blocks:
                t = blk["t"]
                if t["k"] == "assert" and (t["msg"].startswith("Overflow") or t["msg"] in ("DivisionByZero", "RemainderByZero")):
                    unchecked.append((t["msg"], t.get("sp")))
        rep.ob("C06.failure-equivalence", "folder %s: every integer arm uses a checked_* primitive" % op,
               "ok" if checked and not unchecked else "violated", "checked_* calls: %d; unchecked: %s" % (checked, unchecked[:3]), f.span, fn=f.path,
               key="C06.failure-equivalence|%s|checked" % op)
        if op in ("Divide", "Modulo"):
            rep.floor("C06.float division sites in folder %s" % op, len(fdiv), 4)
            for i, (g, c) in enumerate(fdiv):
                # guarded by `right == 0.0` on the false edge
                tests = []
                divisor = set(rules.chain_locals(g, op_local(c.args[1]))) if len(c.args) > 1 and op_local(c.args[1]) is not None else set()
                for bi, si, dst, rv, s in g.assigns():
                    if "bin" in rv and rv["bin"] == "Eq" and rv.get("lty") == "f64":
                        k = op_const(rv["r"]) or op_const(rv["l"])
                        other = op_local(rv["l"]) if op_const(rv["r"]) else op_local(rv["r"])
                        if k and k.get("txt", "").startswith("0") and other is not None and (set(rules.chain_locals(g, other)) & divisor):
                            tests.append(dst["l"])
                verdict, info = rules.guarded_by_bool(g, [c.bb], tests, want=False) if tests else ("violated", "no comparison with 0.0")
                rep.ob("C06.failure-equivalence", "folder %s: float division #%d is guarded by a zero test" % (op, i), verdict, str(info), c.span,
                       fn=g.path, key="C06.failure-equivalence|%s|fpzero#%d" % (op, i))
    fold_width(F, rep)
    literal_kinds(F, rep)
    only_table_operators_are_folded(F, rep)
    short_circuit_is_respected(F, rep)
    smallest_modulo_minus_one(F, rep)
    # the folder computes on the exact decimal text and refuses what does not fit (a shift amount beyond u32); the interpreter agrees on *failing* only
    # if it does not narrow an operand before it operates (`amount as u32` turns B4294967300 into 4): C05's inventory of casts in the operator impls
    from props import C05 as _c05
    from core import Report as _Report5
    tmp5 = _Report5("C05", rep.tier)
    _c05.run(ctx, tmp5)
    k5 = 0
    for o in tmp5.obligations:
        if o["key"].startswith("C05.widening"):
            k5 += 1
            rep.ob("C06.runtime-narrowing", o["instance"], o["status"], o["detail"], o["where"], key=o["key"].replace("C05.widening", "C06.runtime-narrowing", 1), fn=o.get("fn"))
    rep.floor("C06.runtime-narrowing casts in the operator implementations", k5, 5)


def _leaves(fn, local, through, depth=0, seen=None):
    """Sources of a value, looking inside the aggregates it is wrapped in: {('call', callee) | ('arg', i) | ('other', ..)}."""
    seen = set() if seen is None else seen
    out = set()
    for o in rules.origins(fn, local, transparent=through):
        if o[0] == "call":
            for c in fn.calls():
                if c.bb == o[1] and not c.callee().endswith("::from_residual"):      # the error leg of `?`
                    out.add(("call", c.callee()))
        elif o[0] == "agg" and depth < 6 and o not in seen:
            seen.add(o)
            for bi, si, dst, rv, st in fn.assigns():
                if (bi, si) == (o[1], o[2]):
                    for x in rv["ops"]:
                        xl = op_local(x)
                        if xl is not None:
                            out |= _leaves(fn, xl, through, depth + 1, seen)
        elif o[0] in ("const", "undef"):
            continue
        else:
            out.add(o)
    return out


def _helper_returns_evaluations(F, call, through):
    """A helper of the compiler that hands back nothing but what try_constexpr_eval returned (wrapped or unwrapped) stands for it."""
    g = F.fn(call.callee())
    if g is None or not g.path.startswith("compiler::"):
        return False
    lv = _leaves(g, 0, through)
    return bool(lv) and all(x[0] == "call" and x[1].endswith("::try_constexpr_eval") for x in lv)


def smallest_modulo_minus_one(F, rep, rule="C06.failure-equivalence"):
    """The folder's `%` is exact (`x % -1` folds to 0 for every x); the machine remainder overflows for the smallest value of a width.  The interpreter
    therefore answers that one case itself, for every pairing of kinds that reaches it: int MIN % int -1, bigint MIN % bigint -1 and - the int operand
    being widened - bigint MIN % int -1.  Evaluated on those operands: the interpreter's Rem must answer, not panic."""
    from absint import Int
    from props import _optables
    T = _optables.get(F).T
    rows = [("Int", -(2**31), "i32", "Int", -1, "i32"), ("BigInt", -(2**127), "i128", "BigInt", -1, "i128"), ("BigInt", -(2**127), "i128", "Int", -1, "i32")]
    n = 0
    for lk, lv, lt, rk, rv, rt_ in rows:
        out = T.runtime("Rem", lk, rk, lpayload=Int(lv, lt), rpayload=Int(rv, rt_))
        n += 1
        bad = [x for x in out if x[0] != "Ok"]
        rep.ob(rule, "%s(%d) %% %s(-1) is answered by the interpreter as the folder answers it (0)" % (lk.lower(), lv, rk.lower()), "violated" if bad else "ok",
               ("the interpreter's Rem yields %s: the literal expression folds to 0, the same operands through variables stop the program"
                % sorted((x[0], str(x[1])) for x in bad)) if bad else "", None, fn="bytecode::variables::ops::rem", key="%s|Modulo|smallest|%s,%s" % (rule, lk.lower(), rk.lower()))
    rep.floor(rule + " smallest-value remainders evaluated", n, 3)


def short_circuit_is_respected(F, rep, rule="C06.short-circuit"):
    """`false && e` and `true || e` do not evaluate e at run time; a literal expression of that form is not failing, whatever e would do.  The folder
    never folds `&&` / `||` to a value, but it folds their operands, and an error while folding an operand is a rejection of the whole expression
    (`attempting to evaluate this expression at compile time resulted in an error`).  So in the BinOp arm the right operand is not folded
    unconditionally after the left one: some path from the left operand's result reaches a non-error answer without folding the right operand.
    (`v or e`, whose fallback is a `value` node folded where it is parsed, is the same question for NilEval: known finding.)"""
    ent = [f for f in F.all_fns() if f.path.endswith("::try_constexpr_eval") and "math_expr::Expr" in f.path and "CompileTimeEvaluate" in f.path]
    if len(ent) != 1:
        raise AnchorMissing("<Expr as CompileTimeEvaluate>::try_constexpr_eval")
    g = ent[0]

    def operand(c, variant, field):
        l = op_local(c.args[0]) if c.args else None
        return l is not None and any(len(fs) >= 2 and fs[0] == "@" + variant and fs[1] == field for (_, fs) in rules.trace_paths(g, l))
    rec = [c for c in g.calls() if c.callee().endswith("::try_constexpr_eval")]
    lhs = [c for c in rec if operand(c, "BinOp", "lhs")]
    rhs = [c for c in rec if operand(c, "BinOp", "rhs")]
    if len(lhs) != 1 or len(rhs) != 1:
        raise AnchorMissing("the folds of BinOp.lhs / BinOp.rhs in Expr::try_constexpr_eval (%d / %d)" % (len(lhs), len(rhs)))
    okr = set(rules.ok_return_blocks(g))
    free = g.reachable(lhs[0].target, removed_blocks={rhs[0].bb}) & okr if lhs[0].target is not None else set()
    rep.ob(rule, "`a && b` / `a || b`: the right operand is folded only when the left one does not decide", "ok" if free else "violated",
           "" if free else "the fold of BinOp.rhs follows the fold of BinOp.lhs on every path: `print false && (1 / 0 == 1)` is rejected at compile time, "
           "while `f = false; z = 0; print f && (1 / z == 1)` prints false", rhs[0].span, fn=g.path, key=rule + "|binop")
    # `v or e`: the fallback is folded where it is parsed (Parser::value folds every value node), before anything knows that it stands behind `or`
    pv = [f for f in F.crates["compiler"].fns if f.path.endswith("<impl compiler::parser::Parser>::value") and "ast::value" in f.path and f.kind != "Closure"]
    eager = bool(pv) and any(c.callee().endswith("::try_constexpr_eval") for c in pv[0].calls())
    fb = [c for c in rec if operand(c, "NilEval", "fallback")]
    rep.ob(rule, "`v or e`: the fallback is folded only when v is nil", "violated" if eager else ("ok" if fb else "undecided"),
           "Parser::value folds every `value` node when it is parsed, the fallback of `or` included: `print 5 or (1 / 0)` is rejected at compile time, "
           "while `five = 5; z = 0; print five or (1 / z)` prints 5" if eager else "", (pv[0].span if pv else g.span), fn=(pv[0].path if pv else g.path), key=rule + "|or-fallback")


def only_table_operators_are_folded(F, rep, rule="C06.fold-entry"):
    """The agreement of folder and interpreter is decided per operator, by comparing their kind tables and primitives: that covers the operators
    the folder dispatches to `impl ops for &Number`.  A binary operator folded any other way (say, comparisons through `partial_cmp` on
    f64 parses: exact at run time, lossy above 2^53 here) is outside of what was compared.  In the BinOp arm of Expr::try_constexpr_eval
    every value that is handed back as folded is a Value::Number that comes out of one of those operator calls."""
    ent = [f for f in F.all_fns() if f.path.endswith("::try_constexpr_eval") and "math_expr::Expr" in f.path and "CompileTimeEvaluate" in f.path]
    if len(ent) != 1:
        raise AnchorMissing("impl CompileTimeEvaluate for Expr")
    ent = ent[0]
    ea = F.adt("compiler::ast::math_expr::Expr")
    names = [v["name"] for v in ea["variants"]]
    bi_idx = str(names.index("BinOp"))
    arm = None
    doms = ent.dominators()
    for b, blk in enumerate(ent.blocks):
        t = blk["t"]
        if t["k"] == "switch" and t.get("dty") == "isize":
            dl = op_local(t["discr"])
            for s_ in blk["s"]:
                rv = s_.get("rv") or {}
                if "d" in s_ and s_["d"]["l"] == dl and "discr" in rv and rv["discr"]["l"] == 1:
                    tg = dict(t["targets"]).get(bi_idx)
                    if tg is not None:
                        arm = {x for x in range(len(ent.blocks)) if tg in doms.get(x, ())}
    if not arm:
        raise AnchorMissing("the BinOp arm of Expr::try_constexpr_eval")
    bad = []
    n = 0
    for bi, si, dst, rv, st in ent.assigns():
        if bi in arm and "agg" in rv and str(rv["agg"].get("adt", "")).endswith("value::Value"):
            n += 1
            if rv["agg"].get("v") != "Number":
                bad.append((rv["agg"].get("v"), st.get("us") or st.get("sp")))
    rep.ob(rule, "a binary operator on two literals folds to a number that comes out of the operator tables, or is not folded", "violated" if bad else "ok",
           ("the BinOp arm also hands back Value::%s: an operator is folded outside of the tables that are compared with the interpreter "
            "(`B9007199254740993 > B9007199254740992` folds to false through f64)" % sorted({b[0] for b in bad})) if bad else "%d folded values built in the arm" % n,
           bad[0][1] if bad else ent.span, fn=ent.path, key=rule + "|only-tables")
    rep.floor(rule + " folded values built in the BinOp arm", n, 1)


def literal_kinds(F, rep, rule="C06.literal-kind"):
    """An unsuffixed integer literal is an int when it fits i32 and a bigint otherwise - wherever it stands.  The folder used to be the only
    place that re-labelled it (Number::try_constexpr_eval), so a literal operand that is not folded (`3000000000 + y`) was emitted as
    `make_int 3000000000`, which the interpreter refuses.  Structural part: where the parser builds Numbers from source text
    (number_from_string and its helpers), a Number::Integer is built only behind the Ok edge of a parse of that text as i32."""
    nf = F.fn("compiler::ast::number::number_from_string")
    if nf is None:
        raise AnchorMissing("number_from_string")
    bodies = [nf]
    for c in nf.calls():
        g = F.fn(c.callee())
        if g is not None and g.path.startswith("compiler::ast::number::") and g not in bodies:
            bodies.append(g)
    n = 0
    for g in bodies:
        parses = [c for c in g.calls() if c.matches("core::str::<impl str>::parse") and (c.t["func"].get("ga") or [None])[0] == "i32"]
        seeds = []
        for c in g.calls():
            if c.matches(("core::result::Result::is_ok", "core::result::Result::is_err")) and c.args:
                oc = rules.origin_calls(g, op_local(c.args[0]), transparent=rules.TRANSPARENT) if op_local(c.args[0]) is not None else []
                if any(x in parses for x in oc):
                    seeds.append((c.dst["l"], c.matches("core::result::Result::is_ok")))
        for bi, si, dst, rv, st in g.assigns():
            if not ("agg" in rv and str(rv["agg"].get("adt", "")).endswith("number::Number") and rv["agg"].get("v") == "Integer"):
                continue
            n += 1
            v = "violated"
            info = "no parse::<i32> of the text decides the label"
            for l, is_ok in seeds:
                vv, ii = rules.guarded_by_bool(g, [bi], [l], want=is_ok)
                if vv == "ok":
                    v, info = "ok", ""
                elif v != "ok":
                    info = str(ii)
            rep.ob(rule, "%s labels source digits `int` only if they fit i32" % mir.short(g.path), v,
                   "" if v == "ok" else info + ": `3000000000 + y` is emitted as `make_int 3000000000` (refused at run time) and `typeof 3000000000` says int",
                   st.get("sp"), fn=g.path, key="%s|%s#%d" % (rule, mir.short(g.path), n))
    rep.floor(rule + " int labels given to source digits", n, 1)


WIDTH_OF_KIND = {"Integer": "i32", "BigInt": "i128", "Byte": "u8", "Float": "f64"}


def fold_width(F, rep):
    """The folder keeps numbers as text: an operator implementation parses its operands, computes, and writes the result back with to_string()
    under the kind it decided on.  The machine type of the value it writes must be the type of that kind (int = i32, bigint = i128, byte = u8,
    float = f64): a `bigint` result computed in i32 wraps or fails where the interpreter, which computes bigints in i128, does not."""
    import re as _re
    n, bad = 0, []
    for f in F.crates["compiler"].fns:
        topp = _re.sub(r"::\{closure#\d+\}", "", f.path)
        if not _re.search(r"<impl core::ops::\w+::\w+ for &?compiler::ast::number::Number>::\w+$", topp):
            continue
        for bi, si, d, rv, s in f.assigns():
            if "agg" in rv and rv["agg"].get("adt", "").endswith("number::Number") and rv["ops"]:
                kind = rv["agg"]["v"]
                l = op_local(rv["ops"][0])
                oc = rules.origin_calls(f, l) if l is not None else []
                tys = {(c.t["func"].get("ga") or ["?"])[0] for c in oc if c.callee().endswith("ToString>::to_string") or c.callee().endswith("::to_string")}
                if not tys:
                    continue
                n += 1
                want = WIDTH_OF_KIND.get(kind)
                if tys != {want}:
                    bad.append((mir.short(topp), kind, sorted(tys), s.get("sp")))
    for fn_, kind, tys, sp in bad:
        rep.ob("C06.fold-width", "%s writes a %s result computed as %s" % (fn_, kind.lower(), "/".join(tys)), "violated",
               "the result is labelled %s (%s at run time) but was computed in %s: it wraps / fails at that width while the interpreter does not" % (
                   kind, WIDTH_OF_KIND.get(kind), "/".join(tys)), sp, key="C06.fold-width|%s|%s|%s" % (fn_, kind, "/".join(tys)))
    rep.ob("C06.fold-width", "every result the folder's operator implementations write was computed at the width of its kind (%d result sites)" % n,
           "ok" if not bad else "violated", "", None, key="C06.fold-width|summary")
    rep.floor("C06.fold-width result sites of the folder's operators", n, 150)


def negate_on_texts(F, rep, rt_keeps):
    """The folder keeps numbers as text.  Number::negate is evaluated abstractly on concrete texts of each kind (small, negative, the ends of i32 and
    beyond): (kind) the result has the kind the interpreter's negation gives - the kind of the operand - or the folder declines (None: the
    run-time negation is used) - also for the bigint text 2147483648: `-B2147483648`, `-0x80000000` and `-(2147483648)` are bigints like `-y` with
    y = 2147483648 (that the *unsuffixed literal* `-2147483648` is an int is the parser's business, which sees the spelling); an int whose negation is not an int (`-(-2147483648)`) must be declined, not labelled int;
    (text) the result is the text of the negated number: `--5` or `make_int -9999999999` is refused by the interpreter, and an integer zero
    stays `0` (the folder's shifts read their amount as an unsigned text: `1 << -0` must fold like `1 << -z` with z = 0 runs)."""
    import absint
    from absint import Interp, Variant, Str
    N = "compiler::ast::number::Number"
    a = F.adt(N)
    g = F.fn("compiler::ast::number::Number::negate")
    if a is None or g is None:
        raise AnchorMissing("Number::negate")
    names = [v["name"] for v in a["variants"]]

    def deref(it, p, v):
        k = 0
        while isinstance(v, absint.Ptr) and k < 6:
            v = it.deref(p, v)
            k += 1
        return v

    def s_add(it, p, fid, fn, t, args):
        x, y = deref(it, p, args[0]), deref(it, p, args[1])
        if isinstance(x, Str) and isinstance(y, Str):
            return Str(x.s + y.s)
        return NotImplemented

    def s_id(it, p, fid, fn, t, args):
        x = deref(it, p, args[0])
        return x if isinstance(x, Str) else NotImplemented

    def strip_prefix(it, p, fid, fn, t, args):
        x, y = deref(it, p, args[0]), deref(it, p, args[1])
        if isinstance(x, Str) and isinstance(y, (Str, absint.Int)):
            pre = y.s if isinstance(y, Str) else chr(y.v)
            return absint.some(Str(x.s[len(pre):])) if x.s.startswith(pre) else absint.NONE
        return NotImplemented

    def starts_with(it, p, fid, fn, t, args):
        x, y = deref(it, p, args[0]), deref(it, p, args[1])
        if isinstance(x, Str) and isinstance(y, (Str, absint.Int)):
            pre = y.s if isinstance(y, Str) else chr(y.v)
            return absint.mkbool(x.s.startswith(pre))
        return NotImplemented
    def trim_start_matches(it, p, fid, fn, t, args):
        x, y = deref(it, p, args[0]), deref(it, p, args[1])
        if isinstance(x, Str) and isinstance(y, (Str, absint.Int)):
            pre = y.s if isinstance(y, Str) else chr(y.v)
            r = x.s
            while pre and r.startswith(pre):
                r = r[len(pre):]
            return Str(r)
        return NotImplemented

    def is_empty(it, p, fid, fn, t, args):
        x = deref(it, p, args[0])
        return absint.mkbool(x.s == "") if isinstance(x, Str) else NotImplemented
    models = dict(absint.DEFAULT_MODELS)
    models.update({"core::str::<impl str>::trim_start_matches": trim_start_matches, "core::str::<impl str>::is_empty": is_empty,
                   "core::ops::arith::Add::add": s_add, "alloc::borrow::ToOwned::to_owned": s_id, "alloc::string::ToString::to_string": s_id,
                   "core::clone::Clone::clone": s_id, "core::convert::From::from": s_id, "core::str::<impl str>::strip_prefix": strip_prefix,
                   "core::str::<impl str>::starts_with": starts_with, "alloc::string::String::as_str": s_id, "core::ops::deref::Deref::deref": s_id})
    CASES = {
        "Integer": [("5", "Integer", "-5"), ("-5", "Integer", "5"), ("2147483647", "Integer", "-2147483647"), ("-2147483647", "Integer", "2147483647"),
                    ("-2147483648", None, None), ("0", "Integer", "0")],
        "BigInt": [("5", "BigInt", "-5"), ("-5", "BigInt", "5"), ("9999999999", "BigInt", "-9999999999"), ("-9999999999", "BigInt", "9999999999"),
                   ("2147483649", "BigInt", "-2147483649"), ("2147483648", "BigInt", "-2147483648"), ("0", "BigInt", "0")],
        # a float zero has a sign (the interpreter's `-z` prints -0): a folded float whose text is all zeros (`0f`, `1.5 - 1.5`) negates to `-0`
        "Float": [("5.0", "Float", "-5.0"), ("-5.0", "Float", "5.0"), ("0", "Float", "-0"), ("00", "Float", "-00"), ("0.0", "Float", "-0.0"), ("-0", "Float", "0")],
        "Byte": [("0b101", None, None)],
    }
    n = 0
    bad_text, undec = [], []
    for kind, cases in CASES.items():
        if kind not in names:
            continue
        bad_kind = []
        for txt, wkind, wtxt in cases:
            if not rt_keeps.get(kind):
                wkind, wtxt = None, None            # the interpreter rejects the negation of this kind: the folder has to decline
            it = Interp(F, models=models, max_depth=5, max_paths=32)
            outs = it.run(g, [Variant(N, names.index(kind), kind, [Str(txt)])])
            n += 1
            got = set()
            for o in outs:
                v = o.value
                if o.kind == "return" and isinstance(v, Variant) and v.name == "Some" and isinstance(v.fields[0], Variant) and v.fields[0].fields and isinstance(v.fields[0].fields[0], Str):
                    got.add((v.fields[0].name, v.fields[0].fields[0].s))
                elif o.kind == "return" and isinstance(v, Variant) and v.name == "None":
                    got.add((None, None))
                else:
                    got.add("?")
            if "?" in got or it.exhausted or len(got) != 1:
                undec.append("%s(%s) -> %s" % (kind, txt, sorted(map(str, got))))
                continue
            gk, gt = next(iter(got))
            if gk is None:
                continue                              # declined: the run-time negation is used
            if wkind is None:
                bad_kind.append("-(%s `%s`) folds to %s(`%s`), but the interpreter's negation fails on it" % (kind.lower(), txt, gk, gt))
                continue
            if gk != wkind:
                bad_kind.append("-(%s `%s`) folds to a %s, the interpreter gives a %s" % (kind.lower(), txt, gk.lower(), wkind.lower()))
            if gt != wtxt:
                bad_text.append("-(%s `%s`) folds to the text `%s`, expected `%s`" % (kind.lower(), txt, gt, wtxt))
        rep.ob("C06.negate", "-<%s literal> folds to the kind the interpreter produces, or is left to it" % kind.lower(), "violated" if bad_kind else "ok",
               "; ".join(bad_kind[:4]), g.span, fn=g.path, key="C06.negate|%s" % kind.lower())
    rep.ob("C06.negate", "the folder's unary minus returns the text of the negated number (also for a negative operand)",
           "violated" if bad_text else ("undecided" if undec else "ok"),
           "; ".join(bad_text[:4]) or ("not evaluated: %s" % undec[:4] if undec else "%d evaluations" % n), g.span, fn=g.path, key="C06.negate|text")
    rep.floor("C06.negate evaluations", n, 16)
